"""T1 extractor for C01: which state a stored model must carry, read from the live source.

Per model family: the attributes of `self` that the `fit` path assigns (`fit_writes`), the attributes
the `predict` path reads (`predict_reads`), and the attributes `from_dict` sets on the instance it builds
(`restored`: `inst.X = …`, `inst.X.Y = …`, and keyword arguments of the `cls(...)` call).  An attribute
that fit produces and predict consumes, but that `from_dict` does not set, is state a restored model lacks.
For the hourly family also the keys `to_dict` writes (`SerializeModel(...)` keywords) and the keys
`from_dict` reads (`data.get("k")` / `data["k"]`).  `super().m(...)` calls are followed into the parent class.
Over-approximations (stated in the generated file): a read under a condition counts as a read; an attribute
that predict recomputes before use still counts — the frozen exemption list in `EEM.Spec.SerialExempt`
names those, with the reason."""
from __future__ import annotations

import ast

from .translate import Unsupported
from .tables import FOOTPRINT_CLASSES, _class_methods, _self_writes, lean_str


def _calls(fn):
    """(kind, name): kind 'self' for self.m(...), 'super' for super().m(...)"""
    out = set()
    for n in ast.walk(fn):
        if isinstance(n, ast.Call) and isinstance(n.func, ast.Attribute):
            v = n.func.value
            if isinstance(v, ast.Name) and v.id == "self":
                out.add(("self", n.func.attr))
            elif isinstance(v, ast.Call) and isinstance(v.func, ast.Name) and v.func.id == "super":
                out.add(("super", n.func.attr))
    return out


def _self_reads(fn):
    return {n.attr for n in ast.walk(fn) if isinstance(n, ast.Attribute) and isinstance(n.value, ast.Name)
            and n.value.id == "self" and isinstance(n.ctx, ast.Load)}


def _closure(own, parent, entry):
    """function nodes reached from `entry`: (level, name) with level 'own' (child-first lookup) or 'parent'"""
    merged = dict(parent)
    merged.update(own)
    start = ("own", entry) if entry in merged else None
    if start is None:
        return []
    seen, todo, fns = set(), [start], []
    while todo:
        level, m = todo.pop()
        table = merged if level == "own" else parent
        if (level, m) in seen or m not in table:
            continue
        seen.add((level, m))
        fn = table[m]
        fns.append((m, fn))
        for kind, name in _calls(fn):
            todo.append(("own", name) if kind == "self" else ("parent", name))
    return fns


def _from_dict_info(fn, path, init_writes=frozenset()):
    inst, ctor = None, None
    for n in ast.walk(fn):
        if (isinstance(n, ast.Assign) and isinstance(n.value, ast.Call) and isinstance(n.value.func, ast.Name)
                and n.value.func.id == "cls" and len(n.targets) == 1 and isinstance(n.targets[0], ast.Name)):
            if inst is not None and inst != n.targets[0].id:
                raise Unsupported(path, "from_dict builds two differently named instances")
            inst, ctor = n.targets[0].id, n.value
    if inst is None:
        raise Unsupported(path, "from_dict does not build `cls(...)` into a local")
    restored = set()
    for n in ast.walk(fn):
        if isinstance(n, ast.Assign) and isinstance(n.value, ast.Call) and isinstance(n.value.func, ast.Name) \
                and n.value.func.id == "cls":
            # a constructor keyword restores the attribute of the same name only if __init__ assigns it
            restored |= {k.arg for k in n.value.keywords if k.arg and k.arg in init_writes}
        for t in (n.targets if isinstance(n, ast.Assign) else []):
            e = t
            while isinstance(e, (ast.Attribute, ast.Subscript)):
                if isinstance(e, ast.Attribute) and isinstance(e.value, ast.Name) and e.value.id == inst:
                    restored.add(e.attr)
                    break
                e = e.value
    keys = set()
    for n in ast.walk(fn):
        if (isinstance(n, ast.Call) and isinstance(n.func, ast.Attribute) and n.func.attr == "get"
                and isinstance(n.func.value, ast.Name) and n.func.value.id == "data" and n.args
                and isinstance(n.args[0], ast.Constant) and isinstance(n.args[0].value, str)):
            keys.add(n.args[0].value)
        if (isinstance(n, ast.Subscript) and isinstance(n.value, ast.Name) and n.value.id == "data"
                and isinstance(n.slice, ast.Constant) and isinstance(n.slice.value, str)):
            keys.add(n.slice.value)
    return restored, keys


def _to_dict_keys(fn):
    """keywords of the SerializeModel(...) call in to_dict, or None when to_dict is not of that shape"""
    for n in ast.walk(fn):
        if isinstance(n, ast.Call) and isinstance(n.func, (ast.Name, ast.Attribute)):
            name = n.func.id if isinstance(n.func, ast.Name) else n.func.attr
            if name == "SerializeModel":
                if any(k.arg is None for k in n.keywords):
                    raise Unsupported("hourly/model.py", "SerializeModel(**…) in to_dict")
                return [k.arg for k in n.keywords]
    return None


def serial_footprint(repo):
    out = []
    for fam, path, cls, parent in FOOTPRINT_CLASSES:
        pm = dict(_class_methods(repo, *parent)) if parent else {}
        own = _class_methods(repo, path, cls)
        merged = dict(pm)
        merged.update(own)
        for need in ("fit", "predict", "from_dict", "to_dict"):
            if need not in merged:
                raise Unsupported(path, f"{cls}.{need} not found")
        fit_fns = _closure(own, pm, "fit")
        pred_fns = _closure(own, pm, "predict")
        fit_writes = set()
        for _, fn in fit_fns:
            fit_writes |= _self_writes(fn)
        reads = set()
        for _, fn in pred_fns:
            reads |= _self_reads(fn)
        reads -= set(merged)            # bound methods are not state
        init_writes = set()
        for _, fn in _closure(own, pm, "__init__"):
            init_writes |= _self_writes(fn)
        restored, keys_read = _from_dict_info(merged["from_dict"], path, init_writes)
        tdr = _self_reads(merged["to_dict"]) - set(merged)
        ls = lambda xs: "[" + ", ".join(lean_str(x) for x in sorted(xs)) + "]"
        out.append(f"/-- `{cls}` ({path}): attributes assigned on the `fit` path "
                   f"(methods: {', '.join(sorted({m for m, _ in fit_fns}))}) -/\n"
                   f"def {fam}_fit_writes : List String := {ls(fit_writes)}\n")
        out.append(f"/-- attributes read on the `predict` path (methods: {', '.join(sorted({m for m, _ in pred_fns}))}) -/\n"
                   f"def {fam}_predict_reads : List String := {ls(reads)}\n")
        out.append(f"/-- attributes `from_dict` sets on the instance it returns (incl. constructor keywords) -/\n"
                   f"def {fam}_restored : List String := {ls(restored)}\n")
        out.append(f"/-- attributes `to_dict` reads -/\ndef {fam}_to_dict_reads : List String := {ls(tdr)}\n")
        out.append(f"/-- top-level keys `from_dict` reads from the document -/\n"
                   f"def {fam}_from_dict_keys : List String := {ls(keys_read)}\n")
        tk = _to_dict_keys(merged["to_dict"])
        if fam == "hourly":
            if tk is None:
                raise Unsupported(path, "HourlyModel.to_dict no longer builds SerializeModel(...)")
            out.append(f"/-- keys `to_dict` writes (keywords of `SerializeModel(...)`) -/\n"
                       f"def hourly_to_dict_keys : List String := {ls(tk)}\n")
    return ("/- GENERATED by /verif/harness/py2lean (serial footprint extractor: AST of the live source) — do not edit.\n"
            "   Over-approximations: a read under a condition counts as a read; an attribute predict recomputes before use\n"
            "   still counts as read (see EEM.Spec.SerialExempt). -/\n"
            "namespace EEM.Gen.SerialFootprint\n\n" + "\n".join(out) + "\nend EEM.Gen.SerialFootprint\n")
