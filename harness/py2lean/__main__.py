"""usage: python -m harness.py2lean [--repo /repo] [--out /verif/lean/EEM/Gen]
Regenerates every generated Lean module from the repo's working tree.  A file is rewritten
only when its text changes (keeps `lake build` incremental).  Exit 3 + `UNSUPPORTED ...` on a
construct outside the subset (a broken tie, reported by ./check)."""
import argparse, os, sys
from .translate import Translator, Unsupported
from .specs import MODULES
from .tables import TABLES

def main():
    ap = argparse.ArgumentParser()
    ap.add_argument("--repo", default="/repo")
    ap.add_argument("--out", default=os.path.join(os.path.dirname(__file__), "..", "..", "lean", "EEM", "Gen"))
    ap.add_argument("--only", default=None)
    a = ap.parse_args()
    sys.path.insert(0, a.repo)
    rc = 0
    jobs = [(name, (lambda specs=specs, comment=comment, name=name: Translator(a.repo, specs).module(name, specs, comment)))
            for name, (specs, comment) in MODULES.items()]
    jobs += [(name, (lambda fn=fn: fn(a.repo))) for name, fn in TABLES.items()]
    for name, job in jobs:
        if a.only and name != a.only:
            continue
        try:
            text = job()
        except Unsupported as u:
            # the module name lets ./check decide whether the property it is deciding depends on this module
            print(str(u).replace("UNSUPPORTED ", f"UNSUPPORTED[{name}] ", 1))
            rc = 3
            continue
        except Exception as e:  # the live code could not be executed/introspected: a broken tie
            print(f"UNSUPPORTED[{name}] extractor raised {type(e).__name__}: {e}")
            rc = 3
            continue
        path = os.path.join(a.out, f"{name}.lean")
        old = open(path).read() if os.path.exists(path) else None
        if old != text:
            os.makedirs(a.out, exist_ok=True)
            with open(path + ".tmp", "w") as f:
                f.write(text)
            os.replace(path + ".tmp", path)
            print(f"py2lean: wrote {path}")
        else:
            print(f"py2lean: {name} unchanged")
    sys.exit(rc)

main()
