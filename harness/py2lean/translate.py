"""py2lean — translate a small, straight-line numeric subset of Python to Lean 4 definitions
over the law-free carrier class `EEM.Carrier` (see lean/EEM/Carrier.lean).

The translation is *path-wise* (continuation duplication): every `if` duplicates the rest of
the function into both branches, so the result is a decision tree whose leaves are returns.
Per path the translator keeps an environment with (a) which Python variables are bound and
(b) which are bound to a numeric literal; tests that mention only literals are decided at
translation time and the dead branch is dropped (this is what removes `if pct_match < 1:` in
get_smooth_coeffs and the read of the unbound `k` in full_model's temperature-independent
branch).  Anything outside the subset raises Unsupported(file, line) — the caller reports a
broken tie, never a silent default.
"""
from __future__ import annotations

import ast
import importlib
import math
import textwrap
from dataclasses import dataclass, field
from decimal import Decimal


class Unsupported(Exception):
    def __init__(self, where, what):
        super().__init__(f"UNSUPPORTED {where}: {what}")
        self.where = where
        self.what = what


# ----------------------------------------------------------------------------- literals

def lean_num(v) -> str:
    """A Python numeric literal as a carrier literal.  ints -> `(n : α)`; floats via their
    shortest repr -> `Arith.ofSci m s e` (exact decimal of the repr, which round-trips)."""
    if isinstance(v, bool):
        raise ValueError("bool literal")
    if isinstance(v, int):
        if v < 0:
            return f"(-({-v} : α))"
        return f"({v} : α)"
    if isinstance(v, float):
        if math.isinf(v) or math.isnan(v):
            raise ValueError("non-finite literal")
        if v == int(v) and abs(v) < 1e15:
            return lean_num(int(v)) if not (v == 0 and math.copysign(1, v) < 0) else "(-(0 : α))"
        d = Decimal(repr(v))
        sign, digits, exp = d.as_tuple()
        m = int("".join(map(str, digits)))
        s = f"(Arith.ofSci {m} {'true' if exp < 0 else 'false'} {abs(exp)} : α)"
        return f"(-{s})" if sign else s
    raise ValueError(f"literal {v!r}")


CMP = {ast.Lt: "Arith.ltb", ast.LtE: "Arith.leb", ast.Gt: "Arith.gtb", ast.GtE: "Arith.geb",
       ast.Eq: "Arith.eqb", ast.NotEq: "Arith.neb"}
PYCMP = {ast.Lt: lambda a, b: a < b, ast.LtE: lambda a, b: a <= b, ast.Gt: lambda a, b: a > b,
         ast.GtE: lambda a, b: a >= b, ast.Eq: lambda a, b: a == b, ast.NotEq: lambda a, b: a != b}
BIN = {ast.Add: "+", ast.Sub: "-", ast.Mult: "*", ast.Div: "/"}

UNARY_CALLS = {
    "abs": "Arith.abs", "np.abs": "Arith.abs", "np.exp": "Carrier.exp", "np.log": "Carrier.log",
    "np.sqrt": "Carrier.sqrt",
}


@dataclass
class FuncSpec:
    file: str                 # path relative to repo root
    func: str                 # function name (top-level) or Class.method
    lean_name: str
    params: list              # [(name, kind)], kind in: "s" scalar | "list" | ("enum", EnumName)
    #                           | "vec" (the array iterated element-wise) | ("const", value) dropped, bound to literal
    returns: str = "s"        # "s" | "list" | "opt_s" (Python returns None for undefined)
    elementwise: tuple | None = None   # (index var, element var, vector param, out array name)
    module: str | None = None  # import path used to resolve module-level constants


@dataclass
class Env:
    bound: dict = field(default_factory=dict)   # py name -> kind ("s" | "list" | "enum:<E>")
    consts: dict = field(default_factory=dict)  # py name -> python numeric literal

    def copy(self):
        return Env(dict(self.bound), dict(self.consts))


class UnboundRead(Exception):
    pass


class Translator:
    def __init__(self, repo_root, specs):
        self.repo = repo_root
        self.specs = {s.func: s for s in specs}
        self.enums = {}     # enum name -> ordered list of literals
        self.partial = {}   # lean name -> bool (returns Option)
        self.modconsts = {} # module-level numeric constants read by translated code
        self.out = []
        self.notes = []

    # ------------------------------------------------------------------ helpers
    def where(self, spec, node):
        return f"{spec.file}:{getattr(node, 'lineno', '?')}"

    def enum_ctor(self, enum, lit):
        lits = self.enums.setdefault(enum, [])
        if lit not in lits:
            lits.append(lit)
        return f"{enum}.{lit}"

    def callee_name(self, node):
        f = node.func
        if isinstance(f, ast.Name):
            return f.id
        if isinstance(f, ast.Attribute) and isinstance(f.value, ast.Name):
            return f"{f.value.id}.{f.attr}"
        return None

    # ------------------------------------------------------------------ expressions
    def const_value(self, spec, node, env):
        """Python numeric value of `node` if it mentions only literals / literal-bound names."""
        if isinstance(node, ast.Constant) and isinstance(node.value, (int, float)) and not isinstance(node.value, bool):
            return node.value
        if isinstance(node, ast.Name) and node.id in env.consts:
            return env.consts[node.id]
        if isinstance(node, ast.UnaryOp) and isinstance(node.op, ast.USub):
            v = self.const_value(spec, node.operand, env)
            return None if v is None else -v
        return None

    def const_test(self, spec, node, env):
        """Decide a test at translation time when it mentions only literals. None = unknown."""
        if isinstance(node, ast.Compare) and len(node.ops) == 1:
            a = self.const_value(spec, node.left, env)
            b = self.const_value(spec, node.comparators[0], env)
            if a is not None and b is not None and type(node.ops[0]) in PYCMP:
                return bool(PYCMP[type(node.ops[0])](a, b))
        if isinstance(node, ast.BoolOp):
            vals = [self.const_test(spec, v, env) for v in node.values]
            if isinstance(node.op, ast.And):
                if any(v is False for v in vals):
                    return False
                if all(v is True for v in vals):
                    return True
            else:
                if any(v is True for v in vals):
                    return True
                if all(v is False for v in vals):
                    return False
        return None

    def module_const(self, spec, name):
        if not spec.module:
            return None
        mod = importlib.import_module(spec.module)
        v = getattr(mod, name, None)
        try:
            import numpy as np
            if isinstance(v, np.floating):
                v = float(v)
            elif isinstance(v, np.integer):
                v = int(v)
        except ImportError:
            pass
        if isinstance(v, (int, float)) and not isinstance(v, bool):
            return v
        return None

    def expr(self, spec, node, env) -> str:
        w = self.where(spec, node)
        if isinstance(node, ast.Constant):
            if isinstance(node.value, (int, float)) and not isinstance(node.value, bool):
                return lean_num(node.value)
            raise Unsupported(w, f"constant {node.value!r}")
        if isinstance(node, ast.Name):
            if node.id in env.bound:
                if env.bound[node.id] != "s":
                    raise Unsupported(w, f"non-scalar `{node.id}` used as a number")
                return node.id
            mc = self.module_const(spec, node.id)
            if mc is not None:
                self.modconsts[node.id] = mc
                return f"({node.id} : α)"
            raise UnboundRead(node.id)
        if isinstance(node, ast.UnaryOp):
            if isinstance(node.op, ast.USub):
                return f"(-{self.expr(spec, node.operand, env)})"
            if isinstance(node.op, ast.UAdd):
                return self.expr(spec, node.operand, env)
            raise Unsupported(w, "unary operator")
        if isinstance(node, ast.BinOp):
            if type(node.op) not in BIN:
                raise Unsupported(w, f"operator {type(node.op).__name__}")
            return f"({self.expr(spec, node.left, env)} {BIN[type(node.op)]} {self.expr(spec, node.right, env)})"
        if isinstance(node, ast.IfExp):
            return f"(if {self.test(spec, node.test, env)} then {self.expr(spec, node.body, env)} else {self.expr(spec, node.orelse, env)})"
        if isinstance(node, ast.Call):
            name = self.callee_name(node)
            if name in UNARY_CALLS and len(node.args) == 1 and not node.keywords:
                return f"({UNARY_CALLS[name]} {self.expr(spec, node.args[0], env)})"
            if name == "np.clip" and len(node.args) == 3 and not node.keywords:
                a = [self.expr(spec, x, env) for x in node.args]
                return f"(Arith.clip {a[0]} {a[1]} {a[2]})"
            if name == "np.ones_like" and spec.elementwise and len(node.args) == 1:
                return "(1 : α)"      # element of an all-ones array
            raise Unsupported(w, f"call {name}")
        raise Unsupported(w, f"expression {type(node).__name__}")

    def test(self, spec, node, env) -> str:
        w = self.where(spec, node)
        if isinstance(node, ast.BoolOp):
            op = " && " if isinstance(node.op, ast.And) else " || "
            return "(" + op.join(self.test(spec, v, env) for v in node.values) + ")"
        if isinstance(node, ast.UnaryOp) and isinstance(node.op, ast.Not):
            return f"(!{self.test(spec, node.operand, env)})"
        if isinstance(node, ast.Compare):
            parts = []
            left = node.left
            for op, right in zip(node.ops, node.comparators):
                # enum comparison: <enum var> == "literal"
                if isinstance(left, ast.Name) and str(env.bound.get(left.id, "")).startswith("enum:") \
                        and isinstance(right, ast.Constant) and isinstance(right.value, str):
                    enum = env.bound[left.id][5:]
                    c = self.enum_ctor(enum, right.value)
                    if isinstance(op, ast.Eq):
                        parts.append(f"({left.id} == {c})")
                    elif isinstance(op, ast.NotEq):
                        parts.append(f"({left.id} != {c})")
                    else:
                        raise Unsupported(w, "ordering on strings")
                elif type(op) in CMP:
                    parts.append(f"({CMP[type(op)]} {self.expr(spec, left, env)} {self.expr(spec, right, env)})")
                else:
                    raise Unsupported(w, f"comparison {type(op).__name__}")
                left = right
            return parts[0] if len(parts) == 1 else "(" + " && ".join(parts) + ")"
        raise Unsupported(w, f"test {type(node).__name__}")

    def list_elems(self, spec, node, env):
        """elements of a list-valued expression: list/tuple literal or np.array([..])"""
        if isinstance(node, (ast.List, ast.Tuple)):
            return list(node.elts)
        if isinstance(node, ast.Call) and self.callee_name(node) == "np.array" and len(node.args) == 1:
            return self.list_elems(spec, node.args[0], env)
        return None

    # ------------------------------------------------------------------ statements
    def ret(self, spec, s):
        return f"some {s}" if self.partial[spec.lean_name] else s

    def fail(self, spec, why):
        if self.partial[spec.lean_name]:
            return "none"
        return "Arith.unbound"

    def call_translated(self, spec, node, env):
        """call of another translated function; returns (lean expr, callee spec)"""
        name = self.callee_name(node)
        cs = self.specs.get(name)
        if cs is None:
            return None
        args = []
        pi = 0
        cparams = [p for p in cs.params if not (isinstance(p[1], tuple) and p[1][0] == "const")]
        for a in node.args:
            if isinstance(a, ast.Starred):
                raise Unsupported(self.where(spec, node), "starred argument")
            kind = cparams[pi][1]
            pi += 1
            if kind == "s":
                args.append(self.expr(spec, a, env))
            elif kind == "list":
                el = self.list_elems(spec, a, env)
                if el is not None:
                    args.append("[" + ", ".join(self.expr(spec, e, env) for e in el) + "]")
                elif isinstance(a, ast.Name) and env.bound.get(a.id) == "list":
                    args.append(a.id)
                else:
                    raise Unsupported(self.where(spec, node), "list argument")
            elif isinstance(kind, tuple) and kind[0] == "enum":
                if isinstance(a, ast.Name) and env.bound.get(a.id) == f"enum:{kind[1]}":
                    args.append(a.id)
                elif isinstance(a, ast.Constant) and isinstance(a.value, str):
                    args.append(self.enum_ctor(kind[1], a.value))
                else:
                    raise Unsupported(self.where(spec, node), "enum argument")
            else:
                raise Unsupported(self.where(spec, node), f"argument kind {kind}")
        if node.keywords or pi != len(cparams):
            raise Unsupported(self.where(spec, node), "keyword/default arguments in call")
        return "(" + " ".join([cs.lean_name] + args) + ")", cs

    def stmts(self, spec, body, env, ind, after=None) -> str:
        """Translate statement list `body` followed by continuation `after` (a list of
        statement lists, innermost first)."""
        pad = "  " * ind
        if not body:
            if after:
                return self.stmts(spec, after[0], env, ind, after[1:])
            raise Unsupported(spec.file, f"{spec.func}: control falls off the end without return")
        st, rest = body[0], body[1:]
        w = self.where(spec, st)
        try:
            if isinstance(st, ast.Expr) and isinstance(st.value, ast.Constant):
                return self.stmts(spec, rest, env, ind, after)          # docstring
            if isinstance(st, ast.Return):
                return pad + self.return_value(spec, st, env)
            if isinstance(st, ast.If):
                ct = self.const_test(spec, st.test, env)
                cont = [rest] + list(after or [])
                if ct is True:
                    return self.stmts(spec, st.body, env, ind, cont)
                if ct is False:
                    return self.stmts(spec, st.orelse, env, ind, cont)
                t = self.test(spec, st.test, env)
                a = self.stmts(spec, st.body, env.copy(), ind + 1, cont)
                b = self.stmts(spec, st.orelse, env.copy(), ind + 1, cont)
                return f"{pad}if {t} then\n{a}\n{pad}else\n{b}"
            if isinstance(st, ast.AugAssign):
                if not isinstance(st.target, ast.Name) or type(st.op) not in BIN:
                    raise Unsupported(w, "augmented assignment")
                e = f"({self.expr(spec, st.target, env)} {BIN[type(st.op)]} {self.expr(spec, st.value, env)})"
                env.bound[st.target.id] = "s"
                env.consts.pop(st.target.id, None)
                return f"{pad}let {st.target.id} := {e}\n" + self.stmts(spec, rest, env, ind, after)
            if isinstance(st, ast.Assign):
                return self.assign(spec, st, rest, env, ind, after)
            if isinstance(st, ast.For) and spec.elementwise:
                idx, el, vec, outarr = spec.elementwise
                tgt = st.target
                ok = (isinstance(tgt, ast.Tuple) and [getattr(t, "id", None) for t in tgt.elts] == [idx, el]
                      and isinstance(st.iter, ast.Call) and self.callee_name(st.iter) == "enumerate"
                      and isinstance(st.iter.args[0], ast.Name) and st.iter.args[0].id == vec)
                if not ok:
                    raise Unsupported(w, "loop shape")
                env.bound[el] = "s"
                # the loop body computes one element; statements after the loop are `return out`
                return self.stmts(spec, st.body, env, ind, None)
            raise Unsupported(w, f"statement {type(st).__name__}")
        except UnboundRead as u:
            self.notes.append(f"{spec.func}: path reads unbound `{u}` at {w} -> {self.fail(spec, '')}")
            return pad + self.fail(spec, str(u))

    def return_value(self, spec, st, env) -> str:
        v = st.value
        w = self.where(spec, st)
        if v is None or (isinstance(v, ast.Constant) and v.value is None):
            if spec.returns == "opt_s":
                return "none"
            raise Unsupported(w, "return None")
        if spec.returns == "opt_s":
            return f"some {self.expr(spec, v, env)}"
        if isinstance(v, ast.Call) and self.callee_name(v) in self.specs:
            e, cs = self.call_translated(spec, v, env)
            if self.partial[cs.lean_name] and self.partial[spec.lean_name]:
                return e
            if self.partial[cs.lean_name]:
                raise Unsupported(w, "partial callee in total function")
            return self.ret(spec, e)
        if spec.returns == "list":
            el = self.list_elems(spec, v, env)
            if el is not None:
                return self.ret(spec, "[" + ", ".join(self.expr(spec, e, env) for e in el) + "]")
            if isinstance(v, ast.Name) and env.bound.get(v.id) == "list":
                return self.ret(spec, v.id)
            raise Unsupported(w, "list return value")
        if spec.elementwise:
            # `return np.ones_like(T) * c` before the loop: element value
            return self.ret(spec, self.expr(spec, v, env))
        return self.ret(spec, self.expr(spec, v, env))

    def assign(self, spec, st, rest, env, ind, after) -> str:
        pad = "  " * ind
        w = self.where(spec, st)
        # element store `out[n] = e` inside an element-wise loop is the element's value
        if spec.elementwise and len(st.targets) == 1 and isinstance(st.targets[0], ast.Subscript):
            t = st.targets[0]
            if isinstance(t.value, ast.Name) and t.value.id == spec.elementwise[3]:
                return pad + self.ret(spec, self.expr(spec, st.value, env))
        # allocation of the output array before the loop
        if spec.elementwise and len(st.targets) == 1 and isinstance(st.targets[0], ast.Name) \
                and st.targets[0].id == spec.elementwise[3]:
            return self.stmts(spec, rest, env, ind, after)
        targets = st.targets
        # unpacking
        if len(targets) == 1 and isinstance(targets[0], (ast.Tuple, ast.List)):
            names = []
            for t in targets[0].elts:
                if not isinstance(t, ast.Name):
                    raise Unsupported(w, "unpacking target")
                names.append(t.id)
            el = self.list_elems(spec, st.value, env)
            if el is not None:
                if len(el) != len(names):
                    raise Unsupported(w, "unpacking arity")
                vals = [self.expr(spec, e, env) for e in el]
                cvals = [self.const_value(spec, e, env) for e in el]
                for n, cv in zip(names, cvals):
                    env.bound[n] = "s"
                    if cv is None:
                        env.consts.pop(n, None)
                    else:
                        env.consts[n] = cv
                pat = "(" + ", ".join(names) + ")" if len(names) > 1 else names[0]
                val = "(" + ", ".join(vals) + ")" if len(vals) > 1 else vals[0]
                return f"{pad}let {pat} := {val}\n" + self.stmts(spec, rest, env, ind, after)
            src = None
            if isinstance(st.value, ast.Name) and env.bound.get(st.value.id) == "list":
                src = st.value.id
            elif isinstance(st.value, ast.Call) and self.callee_name(st.value) in self.specs:
                src, cs = self.call_translated(spec, st.value, env)
                if self.partial[cs.lean_name]:
                    raise Unsupported(w, "unpacking a partial call (bind not implemented)")
            if src is None:
                raise Unsupported(w, "unpacking source")
            if not self.partial[spec.lean_name]:
                raise Unsupported(w, "list unpacking in a total function")
            for n in names:
                env.bound[n] = "s"
                env.consts.pop(n, None)
            body = self.stmts(spec, rest, env, ind + 1, after)
            return f"{pad}match {src} with\n{pad}| [{', '.join(names)}] =>\n{body}\n{pad}| _ => none"
        # (chained) simple assignment
        names = []
        for t in targets:
            if not isinstance(t, ast.Name):
                raise Unsupported(w, "assignment target")
            names.append(t.id)
        el = self.list_elems(spec, st.value, env)
        if el is not None:
            val = "[" + ", ".join(self.expr(spec, e, env) for e in el) + "]"
            kind, cv = "list", None
        else:
            val = self.expr(spec, st.value, env)
            kind, cv = "s", self.const_value(spec, st.value, env)
        lines = []
        for n in names:
            lines.append(f"{pad}let {n} := {val}")
            env.bound[n] = kind
            if cv is None:
                env.consts.pop(n, None)
            else:
                env.consts[n] = cv
        return "\n".join(lines) + "\n" + self.stmts(spec, rest, env, ind, after)

    # ------------------------------------------------------------------ functions
    def find_func(self, tree, qual):
        parts = qual.split(".")
        body = tree.body
        node = None
        for p in parts:
            node = next((n for n in body if isinstance(n, (ast.FunctionDef, ast.ClassDef)) and n.name == p), None)
            if node is None:
                return None
            body = node.body
        return node

    def needs_option(self, spec, fn):
        if spec.returns == "opt_s":
            return False      # Option is the return type itself, handled separately
        listparams = {p for p, k in spec.params if k == "list"}
        for n in ast.walk(fn):
            if isinstance(n, ast.Assign) and len(n.targets) == 1 and isinstance(n.targets[0], (ast.Tuple, ast.List)):
                if isinstance(n.value, ast.Name) and n.value.id in listparams:
                    return True
        # tail calls to partial functions
        for n in ast.walk(fn):
            if isinstance(n, ast.Return) and isinstance(n.value, ast.Call):
                cn = self.callee_name(n.value)
                cs = self.specs.get(cn)
                if cs is not None and self.partial.get(cs.lean_name):
                    return True
        return False

    def function(self, spec: FuncSpec) -> str:
        import os
        src = open(os.path.join(self.repo, spec.file)).read()
        tree = ast.parse(src)
        fn = self.find_func(tree, spec.func)
        if fn is None:
            raise Unsupported(spec.file, f"function {spec.func} not found")
        argnames = [a.arg for a in fn.args.args]
        declared = [p for p, _ in spec.params]
        if argnames != declared:
            raise Unsupported(f"{spec.file}:{fn.lineno}", f"signature of {spec.func} changed: {argnames} (expected {declared})")
        # defaults must agree with ("const", v) entries
        defaults = dict(zip(argnames[len(argnames) - len(fn.args.defaults):], fn.args.defaults))
        self.partial[spec.lean_name] = self.needs_option(spec, fn)
        env = Env()
        binders = []
        for p, k in spec.params:
            if k == "s":
                env.bound[p] = "s"
                binders.append(f"({p} : α)")
            elif k == "list":
                env.bound[p] = "list"
                binders.append(f"({p} : List α)")
            elif k == "vec":
                pass
            elif isinstance(k, tuple) and k[0] == "enum":
                env.bound[p] = f"enum:{k[1]}"
                self.enums.setdefault(k[1], [])
                binders.append(f"({p} : {k[1]})")
            elif isinstance(k, tuple) and k[0] == "const":
                d = defaults.get(p)
                if d is None or not isinstance(d, ast.Constant) or d.value != k[1]:
                    raise Unsupported(f"{spec.file}:{fn.lineno}", f"default of `{p}` is not {k[1]!r}")
                env.bound[p] = "s"
                env.consts[p] = k[1]
            else:
                raise Unsupported(spec.file, f"param kind {k}")
        if spec.elementwise:
            binders.append(f"({spec.elementwise[1]} : α)")
        consts_pre = "".join(f"  let {p} := {lean_num(k[1])}\n" for p, k in spec.params
                             if isinstance(k, tuple) and k[0] == "const")
        body = self.stmts(spec, fn.body, env, 1)
        rty = {"s": "α", "list": "List α", "opt_s": "Option α"}[spec.returns]
        if self.partial[spec.lean_name]:
            rty = f"Option ({rty})"
        hdr = f"/-- generated from `{spec.file}` `{spec.func}` (line {fn.lineno}) -/\n"
        return hdr + f"def {spec.lean_name} {' '.join(binders)} : {rty} :=\n{consts_pre}{body}\n"

    def module(self, name, specs, header_comment) -> str:
        self.notes = []
        defs = [self.function(s) for s in specs]
        enums = []
        for e, lits in self.enums.items():
            ctors = "\n".join(f"  | {l}" for l in lits)
            enums.append(f"inductive {e} where\n{ctors}\n  deriving DecidableEq, Repr\n")
        notes = "".join(f"-- note: {n}\n" for n in dict.fromkeys(self.notes))
        return (f"/- GENERATED by /verif/harness/py2lean — do not edit.\n   {header_comment}\n-/\n"
                f"import EEM.Carrier\n\nset_option linter.unusedVariables false\n\nnamespace EEM.Gen\nopen EEM EEM.ArithNotation\n\n"
                + "\n".join(enums) + "\nsection\nvariable {α : Type} [Carrier α]\n\n"
                + "".join(f"/-- module-level constant read by the translated code (value at generation time: {v!r}) -/\n"
                          f"def {n} : α := {lean_num(v)}\n\n" for n, v in self.modconsts.items())
                + "\n".join(defs) + "\nend\n" + notes + f"\nend EEM.Gen\n")
