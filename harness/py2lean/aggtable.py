"""C19 (T1): the aggregation block of `BillingModel.predict` / `BillingWeightedModel.predict`
as data, read from the AST of the live source.

Two tables per class:

* `<cls>ArgChain`  — the `if/elif/else` chain that turns the `aggregation` argument into the
  resample rule: a list of (test, outcome), where a test is one of
  `aggregation is None`, `aggregation.lower() == <lit>`, `aggregation == <lit>` and an outcome is
  `agg = None`, `agg = <lit>` or `raise ValueError`; the final `else` is the row with test
  `.otherwise`.
* `<cls>Columns`   — for every column of the aggregated frame, in the order of the `pd.concat`
  list: (column of `df_res` read, resample rule variable, reduction).  A reduction is `first`,
  `mean`, `sum`, or `apply(f)` where `f` must be a lambda whose body is literally
  `np.sqrt(np.sum(np.square(x)))` (`.rss`).  A column assigned under `if "<col>" in
  df_res.columns` (after a `None` default) is marked optional.

Anything else in that block (another reduction, a different lambda, a column built some other way,
a name in the concat list that is not one of these assignments) is UNSUPPORTED: a broken tie.
"""
import ast
import os
from .translate import Unsupported

AGG_CLASSES = [
    ("billing", "opendsm/eemeter/models/billing/model.py", "BillingModel"),
    ("weighted", "opendsm/eemeter/models/billing/weighted_model.py", "BillingWeightedModel"),
]
RSS_BODY = "np.sqrt(np.sum(np.square(x)))"


def _lean_str(s):
    return '"' + s.replace("\\", "\\\\").replace('"', '\\"') + '"'


def _find_method(tree, cls, meth):
    for n in tree.body:
        if isinstance(n, ast.ClassDef) and n.name == cls:
            for m in n.body:
                if isinstance(m, ast.FunctionDef) and m.name == meth:
                    return m
    return None


def _arg_test(test, where):
    """-> Lean term of type ArgTest"""
    if isinstance(test, ast.Compare) and len(test.ops) == 1 and len(test.comparators) == 1:
        l, op, r = test.left, test.ops[0], test.comparators[0]
        if isinstance(l, ast.Name) and l.id == "aggregation" and isinstance(op, ast.Is) \
                and isinstance(r, ast.Constant) and r.value is None:
            return ".isNone"
        if isinstance(op, ast.Eq) and isinstance(r, ast.Constant) and isinstance(r.value, str):
            if isinstance(l, ast.Name) and l.id == "aggregation":
                return f".eq {_lean_str(r.value)}"
            if (isinstance(l, ast.Call) and not l.args and not l.keywords and isinstance(l.func, ast.Attribute)
                    and l.func.attr == "lower" and isinstance(l.func.value, ast.Name) and l.func.value.id == "aggregation"):
                return f".lowerEq {_lean_str(r.value)}"
    raise Unsupported(where, f"aggregation test not understood: {ast.unparse(test)}")


def _arg_out(body, where):
    """-> Lean term of type ArgOut"""
    if len(body) == 1:
        st = body[0]
        if isinstance(st, ast.Assign) and len(st.targets) == 1 and isinstance(st.targets[0], ast.Name) \
                and st.targets[0].id == "agg" and isinstance(st.value, ast.Constant):
            v = st.value.value
            if v is None:
                return ".noAgg"
            if isinstance(v, str):
                return f".rule {_lean_str(v)}"
        if isinstance(st, ast.Raise) and isinstance(st.exc, ast.Call) and isinstance(st.exc.func, ast.Name) \
                and st.exc.func.id == "ValueError":
            return ".reject"
    raise Unsupported(where, "aggregation branch not understood: " + "; ".join(ast.unparse(s) for s in body)[:80])


def _chain(fn, path):
    """the if/elif/else on `aggregation`: the first top-level `if` whose test mentions `aggregation`
    and whose branches assign `agg`"""
    for st in fn.body:
        if isinstance(st, ast.If) and any(isinstance(n, ast.Name) and n.id == "aggregation" for n in ast.walk(st.test)):
            rows = []
            cur = st
            while True:
                where = f"{path}:{cur.lineno}"
                rows.append((_arg_test(cur.test, where), _arg_out(cur.body, where), cur.lineno, ast.unparse(cur.test)))
                if len(cur.orelse) == 1 and isinstance(cur.orelse[0], ast.If):
                    cur = cur.orelse[0]
                    continue
                if not cur.orelse:
                    raise Unsupported(where, "aggregation chain has no final else")
                rows.append((".otherwise", _arg_out(cur.orelse, where), cur.orelse[0].lineno, "else"))
                return rows
    raise Unsupported(path, "no if-chain on `aggregation` found in predict")


def _reduction(call, lambdas, where):
    """`df_res["col"].resample(<v>).<op>(...)` -> (col, v, lean reduction)"""
    if not (isinstance(call, ast.Call) and isinstance(call.func, ast.Attribute)):
        raise Unsupported(where, f"not a reduction call: {ast.unparse(call)[:70]}")
    op = call.func.attr
    rs = call.func.value
    if not (isinstance(rs, ast.Call) and isinstance(rs.func, ast.Attribute) and rs.func.attr == "resample"
            and len(rs.args) == 1 and not rs.keywords and isinstance(rs.args[0], ast.Name)):
        raise Unsupported(where, f"not a plain resample(<name>): {ast.unparse(call)[:70]}")
    rule = rs.args[0].id
    sub = rs.func.value
    if not (isinstance(sub, ast.Subscript) and isinstance(sub.value, ast.Name) and sub.value.id == "df_res"
            and isinstance(sub.slice, ast.Constant) and isinstance(sub.slice.value, str)):
        raise Unsupported(where, f"not df_res[<col>]: {ast.unparse(sub)[:70]}")
    col = sub.slice.value
    if op in ("first", "mean", "sum"):
        if call.args or call.keywords:
            raise Unsupported(where, f"reduction with arguments: {ast.unparse(call)[:70]}")
        return col, rule, "." + op
    if op in ("apply", "agg", "aggregate") and len(call.args) == 1 and not call.keywords and isinstance(call.args[0], ast.Name):
        f = call.args[0].id
        if f not in lambdas:
            raise Unsupported(where, f"reduction applies an unknown function {f}")
        lam = lambdas[f]
        if len(lam.args.args) != 1 or lam.args.args[0].arg != "x" or ast.unparse(lam.body) != RSS_BODY:
            raise Unsupported(where, f"lambda {f} is not x ↦ {RSS_BODY}: {ast.unparse(lam)[:80]}")
        return col, rule, ".rss"
    raise Unsupported(where, f"reduction not understood: {ast.unparse(call)[:70]}")


def _columns(fn, path):
    """inside `if agg is not None:` — the per-column assignments and the concat list"""
    blk = None
    for st in fn.body:
        if isinstance(st, ast.If) and ast.unparse(st.test) == "agg is not None":
            if st.orelse:
                raise Unsupported(f"{path}:{st.lineno}", "`if agg is not None` has an else branch")
            blk = st
    if blk is None:
        raise Unsupported(path, "no `if agg is not None:` block in predict")
    lambdas, cols, order = {}, {}, None
    for st in blk.body:
        where = f"{path}:{st.lineno}"
        if isinstance(st, ast.Assign) and len(st.targets) == 1 and isinstance(st.targets[0], ast.Name):
            name, val = st.targets[0].id, st.value
            if isinstance(val, ast.Lambda):
                lambdas[name] = val
                continue
            if isinstance(val, ast.Constant) and val.value is None:
                cols[name] = None                                   # default of an optional column
                continue
            if name == "df_res":
                if not (isinstance(val, ast.Call) and ast.unparse(val.func) == "pd.concat" and len(val.args) == 1
                        and isinstance(val.args[0], ast.List) and all(isinstance(e, ast.Name) for e in val.args[0].elts)
                        and [ast.unparse(k.value) for k in val.keywords if k.arg == "axis"] == ["1"] and len(val.keywords) == 1):
                    raise Unsupported(where, f"result not pd.concat([names], axis=1): {ast.unparse(val)[:70]}")
                order = [e.id for e in val.args[0].elts]
                continue
            col, rule, red = _reduction(val, lambdas, where)
            cols[name] = (col, rule, red, False, st.lineno)
            continue
        if isinstance(st, ast.If) and not st.orelse and len(st.body) == 1 and isinstance(st.body[0], ast.Assign) \
                and isinstance(st.test, ast.Compare) and len(st.test.ops) == 1 and isinstance(st.test.ops[0], ast.In) \
                and isinstance(st.test.left, ast.Constant) and ast.unparse(st.test.comparators[0]) == "df_res.columns":
            a = st.body[0]
            name = a.targets[0].id
            col, rule, red = _reduction(a.value, lambdas, where)
            if col != st.test.left.value or cols.get(name, 0) is not None:
                raise Unsupported(where, "optional column guard does not match the column it assigns")
            cols[name] = (col, rule, red, True, a.lineno)
            continue
        raise Unsupported(where, f"statement in the aggregation block not understood: {ast.unparse(st)[:70]}")
    if order is None:
        raise Unsupported(path, "aggregation block does not rebuild df_res with pd.concat")
    rows = []
    for name in order:
        if cols.get(name) is None:
            raise Unsupported(path, f"concat entry {name} is not one of the block's reductions")
        col, rule, red, opt, line = cols[name]
        if name != col:
            raise Unsupported(path, f"concat entry {name} holds column {col}")
        rows.append((col, rule, red, opt, line))
    unused = [n for n, v in cols.items() if v is not None and n not in order]
    if unused:
        raise Unsupported(path, f"reductions computed but not returned: {unused}")
    return rows


def agg_tables(repo):
    out = []
    for lean_name, path, cls in AGG_CLASSES:
        tree = ast.parse(open(os.path.join(repo, path)).read())
        fn = _find_method(tree, cls, "predict")
        if fn is None:
            raise Unsupported(path, f"{cls}.predict not found")
        chain = _chain(fn, path)
        cols = _columns(fn, path)
        c_rows = ",\n".join(f"  ({t}, {o})" for t, o, _, _ in chain)
        c_cmt = "\n".join(f"-- line {ln}: {src[:70]}" for _, _, ln, src in chain)
        out.append(f"/-- the `aggregation` argument chain of `{cls}.predict` ({path}) -/\n{c_cmt}\n"
                   f"def {lean_name}ArgChain : List (ArgTest × ArgOut) := [\n{c_rows}]\n")
        k_rows = ",\n".join(f"  ({_lean_str(col)}, {_lean_str(rule)}, {red}, {'true' if opt else 'false'})" for col, rule, red, opt, _ in cols)
        k_cmt = "\n".join(f"-- line {ln}: {col}" for col, _, _, _, ln in cols)
        out.append(f"/-- columns of the aggregated frame of `{cls}.predict`, in output order:\n"
                   f"(column, resample-rule variable, reduction, only-if-present) -/\n{k_cmt}\n"
                   f"def {lean_name}Columns : List (String × String × Reduction × Bool) := [\n{k_rows}]\n")
    return ("/- GENERATED by /verif/harness/py2lean (aggregation-block extractor: AST of the live source) — do not edit. -/\n"
            "import EEM.Model.BillingAgg\n\nnamespace EEM.Gen.BillingAggTable\nopen EEM.Model.BillingAgg\n\n"
            + "\n".join(out) + "\nend EEM.Gen.BillingAggTable\n")
