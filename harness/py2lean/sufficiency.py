"""T1 extractor for C10: the *plan* of the sufficiency classes, read from the live source.

For each concrete criteria class (Daily/Billing/Hourly) and each entry point
(`check_sufficiency_baseline`, `check_sufficiency_reporting`) the ordered list of `_check_*`
methods it runs (resolved through the live class, so hoisting a method to the base class is seen),
and for each `_check_*` method every `self.disqualification.append(EEMeterWarning(qualified_name=…))`
together with its *guard*: the conjunction of the enclosing `if` tests (early `return`s negated),
translated into a small condition language — boolean structure, comparison operator and numeric
threshold are translated literally (`self.<field>` thresholds are folded to the class's default,
local constants such as `ceil(0.9 * MAX_BASELINE_LENGTH)` are evaluated); the *quantities* compared
(fractions of valid days, monthly coverage, count of negative readings) are recognised by the exact
text of their defining expressions and named (the model's definition of each quantity is validated by
T2, not here).  Also: the call sites in the six data classes (criteria class, flags passed, entry
point called).  Anything outside these shapes raises Unsupported (a broken tie)."""
from __future__ import annotations

import ast
import inspect
import math
import textwrap
from fractions import Fraction

from .translate import Unsupported

SRC = "common/sufficiency_criteria.py"

DQ_NAMES = [
    "no_data", "negative_meter_values", "incorrect_number_of_total_days", "too_many_days_with_missing_data",
    "too_many_days_with_missing_meter_data", "too_many_days_with_missing_temperature_data",
    "missing_monthly_temperature_data", "missing_monthly_meter_data", "missing_monthly_ghi_data",
]

# quantity templates: the set of (path condition, value) under which a local is assigned -> model quantity
_FRAC = lambda num: frozenset({("self.n_days_total > 0", f"self.{num} / float(self.n_days_total)"),
                               ("not (self.n_days_total > 0)", "0")})
QUANTITIES = {
    _FRAC("n_valid_days"): "fracValidDays",
    _FRAC("n_valid_temperature_days"): "fracValidTemp",
    # the meter fraction is only assigned for baseline data; its single use is behind `not is_reporting_data and …`
    frozenset({("self.n_days_total > 0 and not self.is_reporting_data",
                "self.n_valid_meter_value_days / float(self.n_days_total)"),
               ("not (self.n_days_total > 0)", "0")}): "fracValidMeter",
    # defined and used under the same `if not is_reporting_data and not is_electricity_data`
    frozenset({("not self.is_reporting_data and (not self.is_electricity_data)",
                "self.data.observed[self.data.observed < 0].shape[0]")}): "nNegative",
}
MONTHLY = {
    "self.data['temperature'].groupby(self.data.index.month).apply(lambda x: x.notna().mean())": "temperature",
    "self.data['observed'].groupby(self.data.index.month).apply(lambda x: x.notna().mean())": "observed",
    "self.data['ghi'].groupby(self.data.index.month).apply(lambda x: x.notna().mean())": "ghi",
}
ATTR_Q = {"self.n_days_total": "nDaysTotal"}
OPS = {ast.Lt: "lt", ast.LtE: "le", ast.Gt: "gt", ast.GtE: "ge"}


def _u(node):
    return ast.unparse(node)


def _conj(path):
    return " and ".join(path)


class _Method:
    """one `_check_*` method: its disqualification / warning appends with guards"""

    def __init__(self, cls, name):
        fn = getattr(cls, name, None)
        if fn is None:
            raise Unsupported(SRC, f"{cls.__name__} has no method {name}")
        self.cls, self.name, self.owner = cls, name, fn.__qualname__.split(".")[0]
        self.tree = ast.parse(textwrap.dedent(inspect.getsource(fn))).body[0]
        self.assign = {}      # local -> list of (path condition text, value text)
        self.consts = {}      # local -> Fraction
        self.emits = []       # (dq name, guard Lean text, guard source text)
        self.warns = []       # warning names
        self._walk(self.tree.body, [], [])

    # ---- constants
    def _const(self, node):
        """numeric value of a constant expression (literals, folded locals, class field defaults, ceil)"""
        if isinstance(node, ast.Constant) and isinstance(node.value, (int, float)) and not isinstance(node.value, bool):
            return Fraction(repr(node.value)) if isinstance(node.value, float) else Fraction(node.value)
        if isinstance(node, ast.Name) and node.id in self.consts:
            return self.consts[node.id]
        if isinstance(node, ast.Attribute) and isinstance(node.value, ast.Name) and node.value.id == "self":
            f = getattr(self.cls, "model_fields", {}).get(node.attr)
            if f is not None and isinstance(f.default, (int, float)) and not isinstance(f.default, bool):
                return Fraction(repr(f.default)) if isinstance(f.default, float) else Fraction(f.default)
            return None
        if isinstance(node, ast.BinOp) and isinstance(node.op, (ast.Mult, ast.Add, ast.Sub)):
            a, b = self._const(node.left), self._const(node.right)
            if a is None or b is None:
                return None
            return a * b if isinstance(node.op, ast.Mult) else a + b if isinstance(node.op, ast.Add) else a - b
        if isinstance(node, ast.Call) and isinstance(node.func, ast.Name) and node.func.id == "ceil" and len(node.args) == 1:
            a = self._const(node.args[0])
            # the source evaluates ceil on a float product; fold on the float as the interpreter does
            return None if a is None else Fraction(math.ceil(float(a)))
        return None

    # ---- conditions
    def _quantity(self, node):
        t = _u(node)
        if t in ATTR_Q:
            return ATTR_Q[t]
        if isinstance(node, ast.Name) and node.id in self.assign:
            key = frozenset(self.assign[node.id])
            if key in QUANTITIES:
                return QUANTITIES[key]
            raise Unsupported(SRC, f"{self.name}: local {node.id} is defined as {sorted(key)}, not a known quantity")
        raise Unsupported(SRC, f"{self.name}: cannot name the quantity {t!r}")

    def _cond(self, node):
        if isinstance(node, ast.BoolOp):
            parts = [self._cond(v) for v in node.values]
            k = "and" if isinstance(node.op, ast.And) else "or"
            out = parts[-1]
            for p in reversed(parts[:-1]):
                out = f"(.{k} {p} {out})"
            return out
        if isinstance(node, ast.UnaryOp) and isinstance(node.op, ast.Not):
            return f"(.not {self._cond(node.operand)})"
        t = _u(node)
        if t == "self.is_reporting_data":
            return ".isReporting"
        if t == "self.is_electricity_data":
            return ".isElectric"
        if t == "self.data.dropna().empty":
            return ".noCompleteRow"
        if t == "'ghi' not in self.data.columns":
            return ".ghiAbsent"
        # (<monthly coverage> < threshold).any()
        if (isinstance(node, ast.Call) and isinstance(node.func, ast.Attribute) and node.func.attr == "any"
                and not node.args and isinstance(node.func.value, ast.Compare)):
            c = node.func.value
            if len(c.ops) == 1 and isinstance(c.left, ast.Name) and c.left.id in self.assign:
                defs = self.assign[c.left.id]
                thr = self._const(c.comparators[0])
                if len(defs) == 1 and defs[0][1] in MONTHLY and thr is not None and type(c.ops[0]) in OPS:
                    return (f"(.anyMonth .{MONTHLY[defs[0][1]]} .{OPS[type(c.ops[0])]} "
                            f"{thr.numerator} {thr.denominator})")
            raise Unsupported(SRC, f"{self.name}: unrecognised monthly test {t!r}")
        if isinstance(node, ast.Compare) and len(node.ops) == 1 and type(node.ops[0]) in OPS:
            thr = self._const(node.comparators[0])
            if thr is None or thr < 0:
                raise Unsupported(SRC, f"{self.name}: threshold of {t!r} is not a non-negative constant")
            q = self._quantity(node.left)
            return f"(.cmp .{q} .{OPS[type(node.ops[0])]} {thr.numerator} {thr.denominator})"
        raise Unsupported(SRC, f"{self.name}: condition {t!r} outside the subset")

    # ---- statements
    def _append_target(self, stmt):
        """('disqualification'|'warnings', qualified name) when stmt is self.<list>.append(EEMeterWarning(...))"""
        if not (isinstance(stmt, ast.Expr) and isinstance(stmt.value, ast.Call)):
            return None
        f = stmt.value.func
        if not (isinstance(f, ast.Attribute) and f.attr == "append" and isinstance(f.value, ast.Attribute)
                and isinstance(f.value.value, ast.Name) and f.value.value.id == "self"
                and f.value.attr in ("disqualification", "warnings")):
            return None
        arg = stmt.value.args[0] if stmt.value.args else None
        qn = None
        if isinstance(arg, ast.Call):
            for kw in arg.keywords:
                if kw.arg == "qualified_name" and isinstance(kw.value, ast.Constant):
                    qn = kw.value.value
        if qn is None or not qn.startswith("eemeter.sufficiency_criteria."):
            raise Unsupported(SRC, f"{self.name}: append to self.{f.value.attr} without a literal qualified_name")
        return f.value.attr, qn.split(".")[-1]

    def _walk(self, stmts, path_txt, path_lean):
        """path_*: enclosing conditions (source text for quantity templates, Lean for guards)"""
        for s in stmts:
            if isinstance(s, ast.Expr) and isinstance(s.value, ast.Constant):
                continue  # docstring
            tgt = self._append_target(s)
            if tgt:
                kind, name = tgt
                if kind == "warnings":
                    self.warns.append(name)
                    continue
                if name not in DQ_NAMES:
                    raise Unsupported(SRC, f"{self.name}: disqualification {name!r} is not in the model's list")
                guard = ".tt"
                for p in reversed(path_lean):
                    guard = p if guard == ".tt" else f"(.and {p} {guard})"
                self.emits.append((name, guard, _conj(path_txt)))
                continue
            if isinstance(s, ast.If):
                # the Lean form of a test is needed only where a disqualification is appended below it
                has_dq = any(self._append_target(n) and self._append_target(n)[0] == "disqualification"
                             for n in ast.walk(s) if isinstance(n, ast.Expr))
                is_return = len(s.body) == 1 and isinstance(s.body[0], ast.Return) and not s.orelse
                t = _u(s.test)
                if is_return:
                    # early return: everything after it runs under `not test`
                    rest = stmts[stmts.index(s) + 1:]
                    rest_dq = any(self._append_target(n) and self._append_target(n)[0] == "disqualification"
                                  for r in rest for n in ast.walk(r) if isinstance(n, ast.Expr))
                    lean = [f"(.not {self._cond(s.test)})"] if rest_dq else []
                    self._walk(rest, path_txt + [f"not ({t})"], path_lean + lean)
                    return
                lean = [self._cond(s.test)] if has_dq else []
                self._walk(s.body, path_txt + [t], path_lean + lean)
                if s.orelse:
                    lean_n = [f"(.not {self._cond(s.test)})"] if any(
                        self._append_target(n) and self._append_target(n)[0] == "disqualification"
                        for o in s.orelse for n in ast.walk(o) if isinstance(n, ast.Expr)) else []
                    self._walk(s.orelse, path_txt + [f"not ({t})"], path_lean + lean_n)
                continue
            if isinstance(s, ast.Assign) and len(s.targets) == 1 and isinstance(s.targets[0], ast.Name):
                v = s.targets[0].id
                c = self._const(s.value) if not path_txt else None
                if c is not None:
                    self.consts[v] = c
                else:
                    self.assign.setdefault(v, []).append((_conj(path_txt), _u(s.value)))
                continue
            if isinstance(s, ast.Return):
                # `return True/False` of _check_no_data: the callers ignore the value (checked in plan())
                continue
            if isinstance(s, ast.Pass):
                continue
            # any other statement may not touch the verdict
            for n in ast.walk(s):
                if isinstance(n, ast.Attribute) and n.attr == "disqualification":
                    raise Unsupported(SRC, f"{self.name}: statement {_u(s)[:60]!r} touches self.disqualification")
                if self._append_target(n) if isinstance(n, ast.Expr) else None:
                    raise Unsupported(SRC, f"{self.name}: append inside an unsupported statement")


def _plan(cls, entry):
    fn = getattr(cls, entry)
    tree = ast.parse(textwrap.dedent(inspect.getsource(fn))).body[0]
    names = []
    for s in tree.body:
        if isinstance(s, ast.Expr) and isinstance(s.value, ast.Constant):
            continue
        ok = (isinstance(s, ast.Expr) and isinstance(s.value, ast.Call) and isinstance(s.value.func, ast.Attribute)
              and isinstance(s.value.func.value, ast.Name) and s.value.func.value.id == "self"
              and not s.value.args and not s.value.keywords)
        if not ok:
            raise Unsupported(SRC, f"{cls.__name__}.{entry}: statement {_u(s)[:70]!r} is not a plain self._check_*() call")
        names.append(s.value.func.attr)
    return names


def _call_sites():
    """(data class, criteria class, entry point, is_reporting_data passed, is_electricity_data forwarded)"""
    from opendsm.eemeter.models.daily import data as dd
    from opendsm.eemeter.models.billing import data as bd
    from opendsm.eemeter.models.hourly import data as hd
    out = []
    for mod, clsname, fam in [(dd, "DailyBaselineData", "daily"), (dd, "DailyReportingData", "daily"),
                              (bd, "BillingBaselineData", "billing"), (bd, "BillingReportingData", "billing"),
                              (hd, "HourlyBaselineData", "hourly"), (hd, "HourlyReportingData", "hourly")]:
        cls = getattr(mod, clsname)
        fn = getattr(cls, "_check_data_sufficiency")
        tree = ast.parse(textwrap.dedent(inspect.getsource(fn)))
        ctor, entry = None, None
        for n in ast.walk(tree):
            if isinstance(n, ast.Call) and isinstance(n.func, ast.Name) and n.func.id.endswith("SufficiencyCriteria"):
                if ctor is not None:
                    raise Unsupported(clsname, "two criteria objects in _check_data_sufficiency")
                ctor = n
            if (isinstance(n, ast.Call) and isinstance(n.func, ast.Attribute)
                    and n.func.attr in ("check_sufficiency_baseline", "check_sufficiency_reporting")):
                if entry is not None:
                    raise Unsupported(clsname, "two entry points called in _check_data_sufficiency")
                entry = n.func.attr
        if ctor is None or entry is None:
            raise Unsupported(clsname, "_check_data_sufficiency does not build a criteria object and call an entry point")
        crit = ctor.func.id
        if crit != {"daily": "Daily", "billing": "Billing", "hourly": "Hourly"}[fam] + "SufficiencyCriteria":
            raise Unsupported(clsname, f"uses {crit}")
        kws = {k.arg: k.value for k in ctor.keywords}
        extra = set(kws) - {"data", "is_electricity_data", "is_reporting_data"}
        if extra:
            raise Unsupported(clsname, f"criteria built with extra arguments {sorted(extra)} (thresholds overridden?)")
        rep = False
        if "is_reporting_data" in kws:
            v = kws["is_reporting_data"]
            if not (isinstance(v, ast.Constant) and isinstance(v.value, bool)):
                raise Unsupported(clsname, "is_reporting_data is not a literal")
            rep = v.value
        out.append((clsname, fam, entry == "check_sufficiency_reporting", rep))
    return out


def sufficiency_plan(repo):
    from opendsm.eemeter.common import sufficiency_criteria as sc
    classes = [("daily", sc.DailySufficiencyCriteria), ("billing", sc.BillingSufficiencyCriteria),
               ("hourly", sc.HourlySufficiencyCriteria)]
    out = []
    methods = {}
    plans = []
    for fam, cls in classes:
        for entry, short in [("check_sufficiency_baseline", "Baseline"), ("check_sufficiency_reporting", "Reporting")]:
            names = _plan(cls, entry)
            for n in names:
                key = (cls.__name__, n)
                if key not in methods:
                    methods[key] = _Method(cls, n)
            plans.append((fam, short, cls, names))
    # one definition per (owner class, method): a method inherited unchanged is emitted once
    emitted = {}
    for (clsname, n), m in methods.items():
        ident = f"{m.owner}{n}"
        body = (clsname, n)
        if ident in emitted:
            continue
        emitted[ident] = m
        em = ",\n".join(f"    ⟨.{dq}, {g}⟩" for dq, g, _ in m.emits)
        src = "".join(f"-- {dq}  when  {t or 'always'}\n" for dq, _, t in m.emits)
        out.append(f"/-- `{m.owner}.{n}` -/\n{src}def {ident} : Check :=\n  {{ name := \"{n}\",\n"
                   f"    emits := [{(chr(10) + em) if em else ''}],\n"
                   f"    warns := [{', '.join(chr(34) + w + chr(34) for w in m.warns)}] }}\n")
    for fam, short, cls, names in plans:
        items = ", ".join(f"{methods[(cls.__name__, n)].owner}{n}" for n in names)
        out.append(f"/-- `{cls.__name__}.check_sufficiency_{short.lower()}` in call order -/\n"
                   f"def {fam}{short} : List Check := [{items}]\n")
    out.append("/-- the plan an entry point runs -/\ndef plan : Family → Bool → List Check\n" +
               "".join(f"  | .{fam}, {'true' if short == 'Reporting' else 'false'} => {fam}{short}\n"
                       for fam, short, _, _ in plans))
    sites = _call_sites()
    out.append("/-- `_check_data_sufficiency` of the six data classes: (class, family, calls check_sufficiency_reporting,\n"
               "passes is_reporting_data=True) -/\ndef callSites : List (String × Family × Bool × Bool) := [\n" +
               ",\n".join(f"  (\"{c}\", .{fam}, {str(m).lower()}, {str(r).lower()})" for c, fam, m, r in sites) + "]\n")
    return ("/- GENERATED by /verif/harness/py2lean (sufficiency plan extractor: AST of the live classes) — do not edit. -/\n"
            "import EEM.Model.SufficiencyPlan\n\nnamespace EEM.Gen.SufficiencyPlan\n"
            "open EEM.Model.Sufficiency EEM.Model.SufficiencyPlan\n\n" + "\n".join(out) +
            "\nend EEM.Gen.SufficiencyPlan\n")
