"""T1 extractor for C08 / C09: the row rules of the resampling code, translated from the live source.

Each *site* is one boolean row expression of the data-cleaning code (a pandas mask): which billing periods
are kept, which resampled days are kept, which days' temperature is blanked.  The expression is located by
its place in the function (not by its text), its column references are renamed to variables by an explicit
table, and it is translated literally — comparison operators, `&`/`|`, arithmetic, numeric constants — into a
Lean `Bool` function over exact rationals.  `EEM.Props.C08` / `C09` prove that these functions are the rules
of the hand models for every argument.  Anything outside the subset raises Unsupported (a broken tie)."""
from __future__ import annotations

import ast
import os
from fractions import Fraction

from .translate import Unsupported

OPS = {ast.Lt: "<", ast.LtE: "≤", ast.Gt: ">", ast.GtE: "≥"}


def _num(c):
    f = Fraction(repr(c)) if isinstance(c, float) else Fraction(c)
    return f"(({f.numerator} : Rat) / {f.denominator})" if f.denominator != 1 else f"({f.numerator} : Rat)"


def _expr(node, names, where):
    """numeric expression -> Lean Rat term"""
    t = ast.unparse(node)
    if t in names:
        return names[t]
    if isinstance(node, ast.Constant) and isinstance(node.value, (int, float)) and not isinstance(node.value, bool):
        return _num(node.value)
    if isinstance(node, ast.BinOp) and isinstance(node.op, (ast.Add, ast.Sub, ast.Mult, ast.Div)):
        o = {ast.Add: "+", ast.Sub: "-", ast.Mult: "*", ast.Div: "/"}[type(node.op)]
        return f"({_expr(node.left, names, where)} {o} {_expr(node.right, names, where)})"
    raise Unsupported(where, f"numeric expression {t!r} outside the subset")


def _mask(node, names, where):
    """boolean row expression -> Lean Bool term"""
    if isinstance(node, ast.BinOp) and isinstance(node.op, (ast.BitAnd, ast.BitOr)):
        o = "&&" if isinstance(node.op, ast.BitAnd) else "||"
        return f"({_mask(node.left, names, where)} {o} {_mask(node.right, names, where)})"
    if isinstance(node, ast.UnaryOp) and isinstance(node.op, ast.Invert):
        return f"(!{_mask(node.operand, names, where)})"
    if isinstance(node, ast.Compare) and len(node.ops) == 1 and type(node.ops[0]) in OPS:
        return (f"decide ({_expr(node.left, names, where)} {OPS[type(node.ops[0])]} "
                f"{_expr(node.comparators[0], names, where)})")
    raise Unsupported(where, f"mask {ast.unparse(node)!r} outside the subset")


def _function(repo, path, qual):
    tree = ast.parse(open(os.path.join(repo, path)).read())
    parts = qual.split(".")
    body = tree.body
    node = None
    for p in parts:
        node = next((n for n in body if isinstance(n, (ast.FunctionDef, ast.ClassDef)) and n.name == p), None)
        if node is None:
            raise Unsupported(path, f"{qual} not found")
        body = node.body
    return node


def _if_body(fn, test_text, where):
    hits = [n for n in ast.walk(fn) if isinstance(n, ast.If) and ast.unparse(n.test) == test_text]
    if len(hits) != 1:
        raise Unsupported(where, f"expected exactly one `if {test_text}`, found {len(hits)}")
    return hits[0]


def thresholds(repo):
    out = []
    T = "opendsm/eemeter/common/data_processor_utilities.py"
    # ---- C08: off-cycle billing periods
    fn = _function(repo, T, "clean_billing_data")
    # `filter_` must be the whole-day length of each period on the local wall clock
    asg = {}
    for n in ast.walk(fn):
        if isinstance(n, ast.Assign) and len(n.targets) == 1 and isinstance(n.targets[0], ast.Name):
            asg.setdefault(n.targets[0].id, []).append(ast.unparse(n.value))
    want = {"local_index": ["data.index.tz_localize(None) if data.index.tz is not None else data.index"],
            "diff": ["list((local_index[1:] - local_index[:-1]).days)"],
            "filter_": ["pd.Series(diff + [np.nan], index=data.index)"]}
    for k, v in want.items():
        if asg.get(k) != v:
            raise Unsupported(T, f"clean_billing_data: `{k}` is {asg.get(k)}, expected {v} (period length in local calendar days)")
    for key, lean in (("billing_monthly", "Monthly"), ("billing_bimonthly", "Bimonthly")):
        blk = _if_body(fn, f"source_interval == '{key}'", T)
        if len(blk.body) != 2 or not isinstance(blk.body[0], ast.Assign) or ast.unparse(blk.body[0].targets[0]) != "data" \
                or not isinstance(blk.body[1], ast.If):
            raise Unsupported(T, f"clean_billing_data: the {key} block is not `data = data[mask]...; if <off-cycle>: warn`")
        v = blk.body[0].value
        # data[mask].reindex(data.index)
        if not (isinstance(v, ast.Call) and isinstance(v.func, ast.Attribute) and v.func.attr == "reindex"
                and isinstance(v.func.value, ast.Subscript) and ast.unparse(v.func.value.value) == "data"
                and [ast.unparse(x) for x in v.args] == ["data.index"]):
            raise Unsupported(T, f"clean_billing_data: {key}: not `data[mask].reindex(data.index)`")
        m = _mask(v.func.value.slice, {"filter_": "days"}, T)
        out.append(f"/-- `clean_billing_data`, `{key}`: a period of `days` local calendar days is KEPT when\n"
                   f"`{ast.unparse(v.func.value.slice)}` -/\n"
                   f"def keep{lean} (days : Rat) : Bool := {m}\n")
        # the warning: len(data[mask]) > 0, and only warnings.append in its body
        w = blk.body[1]
        t = w.test
        if not (isinstance(t, ast.Compare) and ast.unparse(t).startswith("len(data[") and ast.unparse(t).endswith("]) > 0")
                and isinstance(t.left, ast.Call) and isinstance(t.left.args[0], ast.Subscript)):
            raise Unsupported(T, f"clean_billing_data: {key}: off-cycle warning test {ast.unparse(t)!r}")
        if not all(isinstance(x, ast.Expr) and ast.unparse(x).startswith("warnings.append(") for x in w.body) or w.orelse:
            raise Unsupported(T, f"clean_billing_data: {key}: the off-cycle branch does more than append a warning")
        out.append(f"/-- `{key}`: a period is reported as off-cycle when `{ast.unparse(t.left.args[0].slice)}` -/\n"
                   f"def warn{lean} (days : Rat) : Bool := {_mask(t.left.args[0].slice, {'filter_': 'days'}, T)}\n")
    # ---- C08: the half-coverage rule of the daily roll-up
    fn = _function(repo, T, "downsample_and_clean_daily_data")
    NM = {"dataset.coverage": "coverage"}
    ret = [n for n in fn.body if isinstance(n, ast.Return)]
    if len(ret) != 1 or not ast.unparse(ret[0].value).endswith("].reindex(dataset.index)[['value']]"):
        raise Unsupported(T, "downsample_and_clean_daily_data: return is not `dataset[mask].reindex(dataset.index)[['value']]`")
    rsub = next(n for n in ast.walk(ret[0].value) if isinstance(n, ast.Subscript) and ast.unparse(n.value) == "dataset")
    kept_txt = ast.unparse(rsub.slice)
    scale = [n for n in fn.body if isinstance(n, ast.Assign) and isinstance(n.targets[0], ast.Subscript)
             and ast.unparse(n.targets[0].value) == "dataset.loc"]
    if len(scale) != 1 or ast.unparse(scale[0].targets[0]) != f"dataset.loc[{kept_txt}, 'value']" \
            or ast.unparse(scale[0].value) != f"dataset[{kept_txt}].value / dataset[{kept_txt}].coverage":
        raise Unsupported(T, "downsample_and_clean_daily_data: the kept days are no longer exactly the days scaled by value / coverage")
    out.append(f"/-- `downsample_and_clean_daily_data`: a day is kept, and scaled, when `{kept_txt}` (the mask of the `.loc` assignment,\n"
               f"of both operands of the division and of the returned frame) -/\n"
               f"def dayKept (coverage : Rat) : Bool := {_mask(rsub.slice, NM, T)}\n")
    out.append("/-- the kept day's value: `value / coverage` -/\n"
               "def dayScaled (value coverage : Rat) : Rat := value / coverage\n")
    ifs = [n for n in fn.body if isinstance(n, ast.If)]
    if len(ifs) != 1 or not all(isinstance(x, ast.Expr) and ast.unparse(x).startswith("warnings.append(") for x in ifs[0].body):
        raise Unsupported(T, "downsample_and_clean_daily_data: expected exactly one warning branch")
    wsub = next((n for n in ast.walk(ifs[0].test) if isinstance(n, ast.Subscript) and ast.unparse(n.value) == "dataset"), None)
    if wsub is None or ast.unparse(ifs[0].test) != f"not dataset[{ast.unparse(wsub.slice)}].empty":
        raise Unsupported(T, f"downsample_and_clean_daily_data: warning test {ast.unparse(ifs[0].test)!r}")
    out.append(f"/-- a day is reported as under-covered when `{ast.unparse(wsub.slice)}` -/\n"
               f"def dayWarn (coverage : Rat) : Bool := {_mask(wsub.slice, NM, T)}\n")
    others = [n for n in fn.body if not isinstance(n, (ast.Return, ast.If)) and n is not scale[0]]
    if len(others) != 1 or ast.unparse(others[0]) != "dataset = as_freq(dataset, 'D', include_coverage=True)":
        raise Unsupported(T, "downsample_and_clean_daily_data: statements other than as_freq / warn / scale / return")
    # ---- C09: which days' temperature is blanked
    NAMES = {"temperature_features.temperature_not_null": "notNull", "temperature_features.temperature_null": "null",
             "median_samples": "median"}
    for path, qual, lean, params in (
            ("opendsm/eemeter/models/daily/data.py", "_DailyData._compute_temperature_features", "tempInvalidDaily",
             "(notNull null : Rat)"),
            ("opendsm/eemeter/models/billing/data.py", "_BillingData._compute_temperature_features", "tempInvalidBilling",
             "(notNull null median : Rat)")):
        fn = _function(repo, path, qual)
        parts = []
        for n in ast.walk(fn):
            if isinstance(n, ast.Assign) and ast.unparse(n.targets[0]) == "invalid_temperature_rows":
                parts.append(("=", n.value))
            if isinstance(n, ast.AugAssign) and ast.unparse(n.target) == "invalid_temperature_rows":
                if not isinstance(n.op, (ast.BitOr, ast.BitAnd)):
                    raise Unsupported(path, "invalid_temperature_rows updated with an operator other than |= / &=")
                parts.append(("||" if isinstance(n.op, ast.BitOr) else "&&", n.value))
        if not parts or parts[0][0] != "=" or any(p[0] == "=" for p in parts[1:]):
            raise Unsupported(path, f"{qual}: invalid_temperature_rows is not assigned once and then refined")
        m = _mask(parts[0][1], NAMES, path)
        for o, v in parts[1:]:
            m = f"({m} {o} {_mask(v, NAMES, path)})"
        # the rule applies only to high-frequency feeds: the guard on the median number of readings per day
        guards = [n for n in ast.walk(fn) if isinstance(n, ast.If) and any(
            isinstance(s, ast.Assign) and ast.unparse(s.targets[0]) == "invalid_temperature_rows" for s in n.body)]
        if len(guards) != 1:
            raise Unsupported(path, f"{qual}: the coverage rule is not under exactly one guard")
        g = ast.unparse(guards[0].test)
        okg = ("(temperature_features.temperature_not_null + temperature_features.temperature_null).median() > 1",
               "median_samples > 1")
        if g not in okg:
            raise Unsupported(path, f"{qual}: guard {g!r} of the coverage rule is not `median readings per day > 1`")
        # what is done with the mask: temperature_mean := NaN on those rows, nothing else
        uses = [n for n in ast.walk(fn) if isinstance(n, ast.Assign) and isinstance(n.targets[0], ast.Subscript)
                and "invalid_temperature_rows" in ast.unparse(n.targets[0])]
        if len(uses) != 1 or ast.unparse(uses[0].targets[0]) != "temperature_features.loc[invalid_temperature_rows, 'temperature_mean']" \
                or ast.unparse(uses[0].value) != "np.nan":
            raise Unsupported(path, f"{qual}: the mask is no longer used only to blank temperature_mean")
        out.append(f"/-- `{qual}` ({path}): a day's temperature is blanked when (under `{g}`)\n"
                   + "".join(f"`{'' if o == '=' else o + ' '}{ast.unparse(v)}`\n" for o, v in parts) + "-/\n"
                   f"def {lean} {params} : Bool := {m}\n")
    return ("/- GENERATED by /verif/harness/py2lean (row-rule extractor: AST of the live source) — do not edit. -/\n"
            "namespace EEM.Gen.Thresholds\n\n" + "\n".join(out) + "\nend EEM.Gen.Thresholds\n")
