"""T1 extractor for C17: the preparation plan of the hourly data classes, read from the live source.

From `_HourlyData._set_data`, `_get_contiguous_datetime`, `_interpolate` (models/hourly/data.py), `interpolate`
(common/hourly_interpolation.py) and `remove_duplicates` (eemeter/common/data_processor_utilities.py):

  * `stages`       — the preparation stages of `_set_data` in source order, each recognised from its statement (anything that rebinds or
                     writes `df` and is not recognised is refused);
  * `zeroRule`     — (guard, column, comparison, value) of the zero-usage statement;
  * `dedupKeep`    — the `keep=` of `index.duplicated` in `remove_duplicates`, and that the selection is its negation;
  * `dayEdges`     — the `replace(...)` arguments that round the first / last stamp to whole days, the `freq` of the range, and that
                     the frame is `reindex`ed onto it;
  * `defaultCols`  — the columns interpolated by default and the conditional one;
  * `backupStages` — the fall-back filling methods in order;
  * `flagRule`     — how `interpolated_<col>` is computed: the snapshot of missing cells (taken before any filling), the initial value,
                     and the assignment expression."""
from __future__ import annotations

import ast
import os

from .translate import Unsupported
from .tables import _class_methods, lean_str

D = "opendsm/eemeter/models/hourly/data.py"
I = "opendsm/common/hourly_interpolation.py"
U = "opendsm/eemeter/common/data_processor_utilities.py"


def _u(n):
    return " ".join(ast.unparse(n).split())


def _module_fn(repo, path, name):
    tree = ast.parse(open(os.path.join(repo, path)).read())
    for n in tree.body:
        if isinstance(n, ast.FunctionDef) and n.name == name:
            return n
    raise Unsupported(path, f"function {name} not found")


def _writes_df(stmt):
    """does the statement rebind `df` or write into it?"""
    for n in ast.walk(stmt):
        if isinstance(n, (ast.Assign, ast.AugAssign)):
            for t in (n.targets if isinstance(n, ast.Assign) else [n.target]):
                b = t
                while isinstance(b, (ast.Subscript, ast.Attribute)):
                    b = b.value
                if isinstance(b, ast.Name) and b.id == "df":
                    return True
        if isinstance(n, ast.Call) and any(kw.arg == "inplace" for kw in n.keywords):
            return True
    return False


def prep_plan(repo):
    ms = _class_methods(repo, D, "_HourlyData")
    for need in ("_set_data", "_get_contiguous_datetime", "_interpolate"):
        if need not in ms:
            raise Unsupported(D, f"_HourlyData.{need} not found")
    # ---- stages of _set_data
    stages, zero = [], None
    for s in ms["_set_data"].body:
        if not _writes_df(s):
            if isinstance(s, ast.Return):
                if _u(s) != "return df":
                    raise Unsupported(D, f"_set_data returns {_u(s)!r}")
                stages.append("return")
            continue
        t = _u(s)
        if t == "df = data.copy()":
            stages.append("copy")
        elif isinstance(s, ast.If) and "datetime" in _u(s.test):
            stages.append("index_checks")          # validation / set_index of a 'datetime' column: no cell of a column changes
        elif isinstance(s, ast.If) and _u(s.test) == "df.index.dtype.unit != 'ns'":
            stages.append("ns_index")
        elif isinstance(s, ast.If) and len(s.body) == 1 and not s.orelse and isinstance(s.body[0], ast.Assign) \
                and isinstance(s.body[0].targets[0], ast.Subscript) and "== 0" in _u(s.body[0].targets[0]):
            a = s.body[0]
            sl = a.targets[0].slice
            if not (isinstance(sl, ast.Tuple) and len(sl.elts) == 2 and isinstance(sl.elts[0], ast.Compare)
                    and isinstance(sl.elts[1], ast.Constant)):
                raise Unsupported(D, f"_set_data: zero statement {_u(a)!r}")
            cmp_ = sl.elts[0]
            if not (len(cmp_.ops) == 1 and isinstance(cmp_.ops[0], ast.Eq) and isinstance(cmp_.comparators[0], ast.Constant)):
                raise Unsupported(D, f"_set_data: zero comparison {_u(cmp_)!r}")
            zero = (_u(s.test), sl.elts[1].value, _u(cmp_.left), f"== {cmp_.comparators[0].value!r}", _u(a.value))
            stages.append("zero_to_missing")
        elif t == "df = remove_duplicates(df)":
            stages.append("remove_duplicates")
        elif t == "df = self._get_contiguous_datetime(df)":
            stages.append("contiguous")
        elif t == "df = self._interpolate(df)":
            stages.append("interpolate")
        elif t == "df = self._add_pv_start_date(df)":
            stages.append("pv_start")
        else:
            raise Unsupported(D, f"_set_data: unrecognised statement writing df: {t[:120]!r}")
    if zero is None:
        raise Unsupported(D, "_set_data: the zero-usage statement was not found")
    # ---- remove_duplicates
    rd = [s for s in _module_fn(repo, U, "remove_duplicates").body
          if not (isinstance(s, ast.Expr) and isinstance(s.value, ast.Constant))]
    if len(rd) != 1 or not isinstance(rd[0], ast.Return):
        raise Unsupported(U, "remove_duplicates is not a single return")
    r = rd[0].value
    keep, negated = None, False
    if isinstance(r, ast.Subscript) and isinstance(r.slice, ast.UnaryOp) and isinstance(r.slice.op, ast.Invert):
        negated = True
        c = r.slice.operand
        if isinstance(c, ast.Call) and isinstance(c.func, ast.Attribute) and c.func.attr == "duplicated" \
                and _u(c.func.value) == f"{_u(r.value)}.index":
            keep = "first"   # pandas default
            for kw in c.keywords:
                if kw.arg == "keep":
                    keep = kw.value.value if isinstance(kw.value, ast.Constant) else _u(kw.value)
            if c.args:
                keep = c.args[0].value if isinstance(c.args[0], ast.Constant) else _u(c.args[0])
    if keep is None:
        raise Unsupported(U, f"remove_duplicates returns {_u(r)!r}")
    # ---- whole-day edges
    edges = {}
    freq = None
    reindexed = False
    for s in ms["_get_contiguous_datetime"].body:
        for n in ast.walk(s):
            if isinstance(n, ast.Assign) and isinstance(n.value, ast.Call) and isinstance(n.value.func, ast.Attribute) \
                    and n.value.func.attr == "replace":
                src = _u(n.value.func.value)
                edges[_u(n.targets[0])] = (src, ", ".join(f"{kw.arg}={_u(kw.value)}" for kw in n.value.keywords))
            if isinstance(n, ast.Call) and _u(n.func) == "pd.date_range":
                kws = {kw.arg: _u(kw.value) for kw in n.keywords}
                freq = (kws.get("start"), kws.get("end"), kws.get("freq"))
            if isinstance(n, ast.Assign) and _u(n) == "df = df.reindex(complete_dt)":
                reindexed = True
    if freq is None or len(edges) != 2:
        raise Unsupported(D, "_get_contiguous_datetime: whole-day edges / date_range not recognised")
    # ---- default columns
    cols, cond = None, []
    for n in ast.walk(ms["_interpolate"]):
        if isinstance(n, ast.Assign) and _u(n.targets[0]) == "self._to_be_interpolated_columns" and isinstance(n.value, ast.List):
            cols = [e.value for e in n.value.elts]
        if isinstance(n, ast.If) and len(n.body) == 1 and "self._to_be_interpolated_columns.append(" in _u(n.body[0]):
            cond.append((_u(n.test), n.body[0].value.args[0].value))
    call = [_u(n) for n in ast.walk(ms["_interpolate"]) if isinstance(n, ast.Call) and _u(n.func) == "interpolate"]
    if cols is None or call != ["interpolate(df, columns=self._to_be_interpolated_columns)"]:
        raise Unsupported(D, "_interpolate: default columns / the call of interpolate() not recognised")
    # ---- interpolate(): per-column loop
    fn = _module_fn(repo, I, "interpolate")
    loops = [s for s in fn.body if isinstance(s, ast.For)]
    if len(loops) != 1 or _u(loops[0].target) != "col":
        raise Unsupported(I, "interpolate(): expected one loop over the columns")
    body = loops[0].body
    texts = [_u(s) for s in body]
    snap = [i for i, s in enumerate(body) if isinstance(s, ast.Assign) and _u(s.targets[0]) == "idx_missing"]
    fills = [i for i, s in enumerate(body) if any(isinstance(n, ast.Assign) and _u(n.targets[0]) == "df[col]" for n in ast.walk(s))]
    if len(snap) != 1 or not fills:
        raise Unsupported(I, "interpolate(): snapshot of the missing cells / filling statements not recognised")
    snapshot_first = snap[0] < min(fills)
    methods = None
    branch = []
    for s in body:
        if isinstance(s, ast.For) and _u(s.target) == "method" and isinstance(s.iter, ast.List):
            methods = [e.value for e in s.iter.elts]
            for n in ast.walk(s):
                if isinstance(n, ast.If) and isinstance(n.test, ast.Compare) and _u(n.test.left) == "method":
                    branch.append((n.test.comparators[0].value, _u(n.body[0])))
    if methods is None:
        raise Unsupported(I, "interpolate(): the fall-back loop was not found")
    flag_init = [t for t in texts if t.startswith("df[interp_bool_col] = ")]
    flag_set = [t for t in texts if t.startswith("df.loc[") and t.endswith(", interp_bool_col] = True")]
    if len(flag_init) != 1 or len(flag_set) != 1 or texts.index(flag_set[0]) < max(fills):
        raise Unsupported(I, "interpolate(): flag statements not recognised or not after the last filling statement")
    skips = [_u(s.test) for s in body if isinstance(s, ast.If) and len(s.body) == 1 and isinstance(s.body[0], ast.Continue)]
    L = lean_str

    def lst(xs):
        return "[" + ", ".join(L(x) for x in xs) + "]"

    return ("/- GENERATED by /verif/harness/py2lean (preparation-plan extractor: AST of the live source) — do not edit. -/\n"
            "namespace EEM.Gen.PrepPlan\n\n"
            "/-- stages of `_set_data` that write the frame, in source order -/\n"
            f"def stages : List String := {lst(stages)}\n\n"
            "/-- the zero-usage statement: (guard, column written, expression compared, comparison, value written) -/\n"
            f"def zeroRule : String × String × String × String × String := ({', '.join(L(z) for z in zero)})\n\n"
            "/-- `remove_duplicates`: `keep=` of `index.duplicated`, and the selection is its negation -/\n"
            f"def dedupKeep : String × Bool := ({L(keep)}, {'true' if negated else 'false'})\n\n"
            "/-- whole-day edges: variable ↦ (source, replace arguments) -/\n"
            "def dayEdges : List (String × String × String) := ["
            + ", ".join(f"({L(k)}, {L(v[0])}, {L(v[1])})" for k, v in edges.items()) + "]\n"
            f"def rangeArgs : String × String × String := ({L(freq[0])}, {L(freq[1])}, {L(freq[2])})\n"
            f"def reindexed : Bool := {'true' if reindexed else 'false'}\n\n"
            "/-- columns interpolated by default, and (condition, column) added conditionally -/\n"
            f"def defaultCols : List String := {lst(cols)}\n"
            "def conditionalCols : List (String × String) := [" + ", ".join(f"({L(a)}, {L(b)})" for a, b in cond) + "]\n\n"
            "/-- `interpolate()`: conditions under which a column is skipped -/\n"
            f"def skipConditions : List String := {lst(skips)}\n\n"
            "/-- fall-back methods in order, and the statement each runs -/\n"
            f"def backupStages : List String := {lst(methods)}\n"
            "def backupStatements : List (String × String) := [" + ", ".join(f"({L(a)}, {L(b)})" for a, b in branch) + "]\n\n"
            "/-- the flag: snapshot expression, snapshot taken before any filling, initial value, assignment -/\n"
            f"def flagSnapshot : String := {L(texts[snap[0]])}\n"
            f"def snapshotBeforeFilling : Bool := {'true' if snapshot_first else 'false'}\n"
            f"def flagInit : String := {L(flag_init[0])}\n"
            f"def flagSet : String := {L(flag_set[0])}\n\n"
            "end EEM.Gen.PrepPlan\n")
