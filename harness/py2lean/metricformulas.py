"""C16 (T1): the derived statistics of `BaselineMetrics` (opendsm/common/metrics.py) as Lean
definitions over a record of BASE quantities, read from the AST of the live source.

A derived statistic is a `computed_field_cached_property` whose body is straight-line arithmetic on
other statistics:

    return <expr>
    _v = <expr>; if _v < 1: _v = 1; return _v                      (the ddof clamp)
    <locals>; res = _safe_divide(...); if res is None: return None; return <expr in res>

with <expr> built from `self.<statistic>`, `self.<column>.<statistic>` (column in observed /
predicted / residuals), `self.num_model_params`, `self._min_denominator`, locals, numeric
literals, `+ - * /`, `** 0.5` (square root) and `_safe_divide(a, b, c)` (itself generated:
EEM.Gen.safe_divide).  Statistics computed by pandas (n, mae, r_squared, n_prime, mape, the
column statistics) are BASE fields of the record `MetricBase`; the check ties them to the real
class by correspondence.  A listed statistic whose body leaves this subset is UNSUPPORTED: a broken tie.
"""
import ast
import os
from .translate import Unsupported

PATH = "opendsm/common/metrics.py"
CLASS = "BaselineMetrics"
# statistics translated, in any order (dependencies are sorted out below)
DERIVED = ["n_prime", "ddof", "ddof_autocorr", "nmae", "pnmae", "mbe", "nmbe", "pnmbe", "sse", "mse", "rmse", "rmse_adj",
           "rmse_autocorr_adj", "cvrmse", "cvrmse_adj", "cvrmse_autocorr_adj", "pnrmse", "pnrmse_adj",
           "pnrmse_autocorr_adj", "r_squared_adj"]
# fields of EEM.Model.MetricBase (hand-written structure); `self.<col>.<stat>` is `<col>_<stat>`
BASE = ["n", "num_model_params", "min_denominator", "mae", "r_squared", "residuals_autocorr1",
        "observed_mean", "observed_iqr", "residuals_mean", "residuals_sum_squared"]
COLUMNS = ("observed", "predicted", "residuals")


class _Tr:
    def __init__(self, name, where):
        self.name, self.where = name, where
        self.deps = set()
        self.optional = False          # does the statistic return Optional[float]?

    def fail(self, node, what):
        raise Unsupported(f"{self.where}:{getattr(node, 'lineno', '?')}", f"{CLASS}.{self.name}: {what}: {ast.unparse(node)[:70]}")

    def expr(self, e, env):
        """-> (lean text, is_option)"""
        if isinstance(e, ast.Constant) and isinstance(e.value, (int, float)) and not isinstance(e.value, bool):
            v = e.value
            if isinstance(v, int) or float(v).is_integer():
                return f"({int(v)} : α)", False
            self.fail(e, "non-integer literal")
        if isinstance(e, ast.Name):
            if e.id in env:
                return env[e.id]
            self.fail(e, "unknown local")
        if isinstance(e, ast.Attribute):
            # self.x  |  self.col.x
            if isinstance(e.value, ast.Name) and e.value.id == "self":
                a = e.attr
                if a == "_min_denominator":
                    return "b.min_denominator", False
                if a in DERIVED:
                    self.deps.add(a)
                    return f"({a} b)", a in OPTIONAL
                if a in BASE:
                    return f"b.{a}", False
                self.fail(e, "statistic that is neither derived nor a base field")
            if (isinstance(e.value, ast.Attribute) and isinstance(e.value.value, ast.Name) and e.value.value.id == "self"
                    and e.value.attr in COLUMNS):
                f = f"{e.value.attr}_{e.attr}"
                if f in BASE:
                    return f"b.{f}", False
                self.fail(e, "column statistic that is not a base field")
            self.fail(e, "attribute not understood")
        if isinstance(e, ast.BinOp):
            if isinstance(e.op, ast.Pow):
                if isinstance(e.right, ast.Constant) and e.right.value == 0.5:
                    l, lo = self.expr(e.left, env)
                    if lo:
                        self.fail(e, "power of an optional value")
                    return f"(Carrier.sqrt {l})", False
                self.fail(e, "power other than ** 0.5")
            ops = {ast.Add: "+", ast.Sub: "-", ast.Mult: "*", ast.Div: "/"}
            if type(e.op) not in ops:
                self.fail(e, "operator")
            l, lo = self.expr(e.left, env)
            r, ro = self.expr(e.right, env)
            if lo or ro:
                self.fail(e, "arithmetic on an optional value")
            return f"({l} {ops[type(e.op)]} {r})", False
        if isinstance(e, ast.Call) and isinstance(e.func, ast.Name) and e.func.id == "float" and len(e.args) == 1 and not e.keywords:
            return self.expr(e.args[0], env)                                  # float(x) of a float expression
        if (isinstance(e, ast.Call) and isinstance(e.func, ast.Attribute) and e.func.attr == "autocorr" and not e.args
                and [(k.arg, ast.unparse(k.value)) for k in e.keywords] == [("lag", "1")]
                and ast.unparse(e.func.value) in {"self._df['%s']" % c for c in COLUMNS}):
            col = e.func.value.slice.value
            f = f"{col}_autocorr1"
            if f in BASE:
                return f"b.{f}", False
            self.fail(e, "autocorrelation that is not a base field")
        if isinstance(e, ast.Call) and isinstance(e.func, ast.Name) and e.func.id == "_safe_divide" and len(e.args) == 3 and not e.keywords:
            parts = []
            for a in e.args:
                t, o = self.expr(a, env)
                if o:
                    self.fail(e, "optional argument to _safe_divide")
                parts.append(t)
            return f"(EEM.Gen.safe_divide {parts[0]} {parts[1]} {parts[2]})", True
        self.fail(e, "expression outside the subset")

    def body(self, stmts):
        """-> lean term for the whole method"""
        env = {}
        lets = []
        i = 0
        while i < len(stmts):
            st = stmts[i]
            if isinstance(st, ast.Expr) and isinstance(st.value, ast.Constant) and isinstance(st.value.value, str):
                i += 1
                continue                                                     # docstring
            if isinstance(st, ast.Return):
                if st.value is None:
                    self.fail(st, "bare return")
                t, o = self.expr(st.value, env)
                self.optional = o
                return "".join(lets) + t
            if isinstance(st, ast.Assign) and len(st.targets) == 1 and isinstance(st.targets[0], ast.Name):
                v = st.targets[0].id
                t, o = self.expr(st.value, env)
                ln = "v_" + v.lstrip("_")
                lets.append(f"let {ln} := {t}\n  ")
                env[v] = (ln, o)
                i += 1
                continue
            if isinstance(st, ast.If) and not st.orelse and len(st.body) == 1:
                inner = st.body[0]
                # clamp:  if _v < c: _v = c
                if (isinstance(st.test, ast.Compare) and len(st.test.ops) == 1 and isinstance(st.test.ops[0], ast.Lt)
                        and isinstance(st.test.left, ast.Name) and st.test.left.id in env and not env[st.test.left.id][1]
                        and isinstance(inner, ast.Assign) and len(inner.targets) == 1 and isinstance(inner.targets[0], ast.Name)
                        and inner.targets[0].id == st.test.left.id):
                    v = st.test.left.id
                    bound, bo = self.expr(st.test.comparators[0], env)
                    new, no = self.expr(inner.value, env)
                    if bo or no:
                        self.fail(st, "optional value in a clamp")
                    old = env[v][0]
                    ln = old + "'"
                    lets.append(f"let {ln} := if Arith.ltb {old} {bound} then {new} else {old}\n  ")
                    env[v] = (ln, False)
                    i += 1
                    continue
                # finiteness repair:  if not np.isfinite(_v): _v = c      (x is finite  <=>  x - x == 0)
                if (isinstance(st.test, ast.UnaryOp) and isinstance(st.test.op, ast.Not) and isinstance(st.test.operand, ast.Call)
                        and ast.unparse(st.test.operand.func) == "np.isfinite" and len(st.test.operand.args) == 1
                        and isinstance(st.test.operand.args[0], ast.Name) and st.test.operand.args[0].id in env
                        and not env[st.test.operand.args[0].id][1]
                        and isinstance(inner, ast.Assign) and len(inner.targets) == 1 and isinstance(inner.targets[0], ast.Name)
                        and inner.targets[0].id == st.test.operand.args[0].id):
                    v = inner.targets[0].id
                    new, no = self.expr(inner.value, env)
                    if no:
                        self.fail(st, "optional value in a finiteness repair")
                    old = env[v][0]
                    ln = old + "'"
                    lets.append(f"let {ln} := if Arith.eqb ({old} - {old}) (0 : α) then {old} else {new}\n  ")
                    env[v] = (ln, False)
                    i += 1
                    continue
                # early exit:  if res is None: return None   — the rest is mapped over the option
                if (isinstance(st.test, ast.Compare) and len(st.test.ops) == 1 and isinstance(st.test.ops[0], ast.Is)
                        and isinstance(st.test.left, ast.Name) and st.test.left.id in env and env[st.test.left.id][1]
                        and isinstance(st.test.comparators[0], ast.Constant) and st.test.comparators[0].value is None
                        and isinstance(inner, ast.Return) and isinstance(inner.value, ast.Constant) and inner.value.value is None):
                    v = st.test.left.id
                    opt = env[v][0]
                    env2 = dict(env)
                    env2[v] = ("x_" + v, False)
                    sub = _Tr(self.name, self.where)
                    sub.deps = self.deps
                    rest = sub._rest(stmts[i + 1:], env2)
                    self.optional = True
                    return "".join(lets) + f"({opt}).map fun x_{v} => {rest}"
            self.fail(st, "statement outside the subset")
        self.fail(stmts[-1], "method does not end in a return")

    def _rest(self, stmts, env):
        if len(stmts) == 1 and isinstance(stmts[0], ast.Return) and stmts[0].value is not None:
            t, o = self.expr(stmts[0].value, env)
            if o:
                self.fail(stmts[0], "optional value after the None test")
            return t
        self.fail(stmts[0] if stmts else ast.Pass(), "only a single return may follow `if res is None: return None`")


def _returns_optional(fn):
    return fn.returns is not None and "Optional" in ast.unparse(fn.returns)


OPTIONAL = set()


def metric_formulas(repo):
    tree = ast.parse(open(os.path.join(repo, PATH)).read())
    cls = next((n for n in tree.body if isinstance(n, ast.ClassDef) and n.name == CLASS), None)
    if cls is None:
        raise Unsupported(PATH, f"class {CLASS} not found")
    methods = {m.name: m for m in cls.body if isinstance(m, ast.FunctionDef)}
    OPTIONAL.clear()
    for name in DERIVED:
        if name not in methods:
            raise Unsupported(PATH, f"{CLASS}.{name} not found")
        if _returns_optional(methods[name]):
            OPTIONAL.add(name)
    out, deps = {}, {}
    for name in DERIVED:
        tr = _Tr(name, PATH)
        text = tr.body(methods[name].body)
        if tr.optional != (name in OPTIONAL):
            raise Unsupported(f"{PATH}:{methods[name].lineno}", f"{CLASS}.{name}: annotated {'Optional' if name in OPTIONAL else 'float'} "
                              f"but the body returns {'an optional' if tr.optional else 'a plain'} value")
        out[name], deps[name] = text, sorted(tr.deps)
    # topological order
    order, seen = [], set()

    def visit(n, stack=()):
        if n in seen:
            return
        if n in stack:
            raise Unsupported(PATH, f"cyclic statistics: {' -> '.join(stack + (n,))}")
        for d in deps[n]:
            visit(d, stack + (n,))
        seen.add(n)
        order.append(n)
    for n in DERIVED:
        visit(n)
    defs = []
    for n in order:
        ty = "Option α" if n in OPTIONAL else "α"
        defs.append(f"/-- generated from `{CLASS}.{n}` ({PATH}:{methods[n].lineno}) -/\n"
                    f"def {n} (b : MetricBase α) : {ty} :=\n  {out[n]}\n")
    return ("/- GENERATED by /verif/harness/py2lean (metric-formula extractor: AST of the live source) — do not edit. -/\n"
            "import EEM.Model.MetricBase\nimport EEM.Gen.SafeDivide\n\nset_option linter.unusedVariables false\n\n"
            "namespace EEM.Gen.MetricFormulas\nopen EEM EEM.ArithNotation EEM.Model\n\nsection\nvariable {α : Type} [Carrier α]\n\n"
            + "\n".join(defs) + "\nend\n\nend EEM.Gen.MetricFormulas\n")
