"""Which functions of /repo are translated (T1) and with what signature."""
from .translate import FuncSpec

S = "s"
FULL = "opendsm/eemeter/models/daily/base_models/full_model.py"
BASE = "opendsm/eemeter/models/daily/utilities/base_model.py"
METRICS = "opendsm/common/metrics.py"

DAILY_CURVE = [
    FuncSpec(FULL, "fix_full_model_x", "fix_full_model_x",
             [("x", "list"), ("T_min_seg", S), ("T_max_seg", S)], returns="list"),
    FuncSpec(FULL, "get_full_model_x", "get_full_model_x",
             [("model_key", ("enum", "ModelKey")), ("x", "list"), ("T_min", S), ("T_max", S),
              ("T_min_seg", S), ("T_max_seg", S)], returns="list"),
    FuncSpec(BASE, "get_smooth_coeffs", "get_smooth_coeffs",
             [("hdd_bp", S), ("pct_hdd_k", S), ("cdd_bp", S), ("pct_cdd_k", S), ("min_pct_k", ("const", 0.01))],
             returns="list"),
    FuncSpec(FULL, "full_model", "full_model_elem",
             [("hdd_bp", S), ("hdd_beta", S), ("hdd_k", S), ("cdd_bp", S), ("cdd_beta", S), ("cdd_k", S),
              ("intercept", S), ("T_fit_bnds", "list"), ("T", "vec")],
             returns="s", elementwise=("n", "Ti", "T", "E_tot"),
             module="opendsm.eemeter.models.daily.base_models.full_model"),
]

SAFE_DIVIDE = [
    FuncSpec(METRICS, "_safe_divide", "safe_divide",
             [("numerator", S), ("denominator", S), ("min_denominator", S)], returns="opt_s"),
]

MODULES = {
    "DailyCurve": (DAILY_CURVE, "daily model curve kernels: full_model (per element), get_full_model_x, fix_full_model_x, get_smooth_coeffs"),
    "SafeDivide": (SAFE_DIVIDE, "opendsm/common/metrics.py::_safe_divide"),
}
