"""T1 extractor for C20: the statements of `get_baseline_data` / `get_reporting_data` and of their two warning builders, read from
the live source (`opendsm/eemeter/common/transform.py`).

Per function the body is flattened into (depth, text) lines: a simple statement is its `ast.unparse` text, a compound statement its
header (`if <test>:`, `else:`, `try:`, `except <types>:`), a `raise` only the exception class (the message is not behaviour the
property talks about), the docstring is dropped, and a warning that is appended is reduced to its `qualified_name`.
`EEM.Spec.WindowStatements` holds the frozen lines the hand model `EEM.Model.Window` was written from; `EEM.Props.C20` proves the
regenerated table equal to it, so any change to the window logic — a slice bound, the order of the emptiness check and the blanking
of the last row, a guard of a gap warning, a new early return — breaks that proof and sends the check into its search.

Derived facts, each used by its own theorem:
  * `inputStores`  — statements that store into, delete from or call a mutating method on the parameter `data` (must be none:
                     "the input is never modified");
  * `subscriptWrites` — every assignment through a subscript / attribute in the two window functions (the blanking only);
  * `copies`       — per function how many selections are followed by `.copy()` before the last row is blanked;
  * `blankAfterEmptyCheck` — per function whether `<sel>.iloc[-1] = np.nan` comes after the `dropna().empty` check that raises."""
from __future__ import annotations

import ast
import os

from .translate import Unsupported
from .tables import lean_str

P = "opendsm/eemeter/common/transform.py"
FUNCS = ["_make_baseline_warnings", "get_baseline_data", "_make_reporting_warnings", "get_reporting_data"]
MUTATORS = {"sort_index", "drop", "dropna", "fillna", "update", "insert", "pop", "rename", "reset_index", "set_index", "clip",
            "interpolate", "ffill", "bfill", "replace", "mask", "where", "eval", "drop_duplicates", "sort_values", "set_axis",
            "tz_localize", "tz_convert"}


def _warn_name(call):
    for kw in call.keywords:
        if kw.arg == "qualified_name" and isinstance(kw.value, ast.Constant):
            return kw.value.value
    return None


def _flat(stmts, depth, out, path, loops=False):
    for s in stmts:
        if isinstance(s, ast.Expr) and isinstance(s.value, ast.Constant) and isinstance(s.value.value, str):
            continue  # docstring
        if isinstance(s, ast.If):
            out.append((depth, f"if {ast.unparse(s.test)}:"))
            _flat(s.body, depth + 1, out, path, loops)
            if s.orelse:
                out.append((depth, "else:"))
                _flat(s.orelse, depth + 1, out, path, loops)
        elif isinstance(s, ast.Try):
            out.append((depth, "try:"))
            _flat(s.body, depth + 1, out, path, loops)
            for h in s.handlers:
                out.append((depth, f"except {ast.unparse(h.type) if h.type is not None else ''}:"))
                _flat(h.body, depth + 1, out, path, loops)
            if s.orelse:
                out.append((depth, "else:"))
                _flat(s.orelse, depth + 1, out, path, loops)
            if s.finalbody:
                out.append((depth, "finally:"))
                _flat(s.finalbody, depth + 1, out, path, loops)
        elif isinstance(s, ast.Raise):
            e = s.exc
            name = ast.unparse(e.func if isinstance(e, ast.Call) else e) if e is not None else ""
            out.append((depth, f"raise {name}"))
        elif isinstance(s, ast.Expr) and isinstance(s.value, ast.Call) and isinstance(s.value.func, ast.Attribute) \
                and s.value.func.attr == "append" and s.value.args and isinstance(s.value.args[0], ast.Call) \
                and _warn_name(s.value.args[0]) is not None:
            out.append((depth, f"{ast.unparse(s.value.func.value)}.append(<{_warn_name(s.value.args[0])}>)"))
        elif loops and isinstance(s, (ast.For, ast.While)) and not s.orelse:
            head = (f"for {ast.unparse(s.target)} in {ast.unparse(s.iter)}:" if isinstance(s, ast.For) else f"while {ast.unparse(s.test)}:")
            out.append((depth, " ".join(head.split())))
            _flat(s.body, depth + 1, out, path, loops)
        elif isinstance(s, (ast.For, ast.While, ast.With, ast.FunctionDef, ast.ClassDef, ast.Match)):
            raise Unsupported(path, f"window functions: compound statement {type(s).__name__} is outside the modelled subset")
        else:
            out.append((depth, " ".join(ast.unparse(s).split())))


def _stores_to_data(fn):
    """statements that could modify the caller's object `data`"""
    hits = []
    for n in ast.walk(fn):
        if isinstance(n, (ast.Assign, ast.AugAssign, ast.AnnAssign, ast.Delete)):
            tgts = n.targets if isinstance(n, (ast.Assign, ast.Delete)) else [n.target]
            for t in tgts:
                base = t
                through = False
                while isinstance(base, (ast.Subscript, ast.Attribute)):
                    base = base.value
                    through = True
                # `data.loc[...] = `, `data[...] = `, `data.index = `, `del data[...]`, `data.x += `
                if through and isinstance(base, ast.Name) and base.id == "data":
                    hits.append(" ".join(ast.unparse(n).split()))
        if isinstance(n, ast.Call):
            f = n.func
            if isinstance(f, ast.Attribute) and isinstance(f.value, ast.Name) and f.value.id == "data":
                inplace = any(kw.arg in ("inplace", "copy") and isinstance(kw.value, ast.Constant) and
                              ((kw.arg == "inplace" and kw.value.value is True) or (kw.arg == "copy" and kw.value.value is False))
                              for kw in n.keywords)
                if inplace:
                    hits.append(" ".join(ast.unparse(n).split()))
            # mutating call on an attribute of data: data.index.<x> = is covered above; data.values[...] covered above
    # rebinding the name `data` itself to something derived without copy is not a store into the caller's object
    return hits


def window_statements(repo):
    path = os.path.join(repo, P)
    tree = ast.parse(open(path).read())
    fns = {n.name: n for n in tree.body if isinstance(n, ast.FunctionDef)}
    out = []
    stores, copies, order, subw = [], [], [], []
    for name in FUNCS:
        fn = fns.get(name)
        if fn is None:
            raise Unsupported(P, f"function {name} not found")
        lines = []
        _flat(fn.body, 0, lines, P)
        out.append((name, [a.arg for a in fn.args.args], lines))
        if name.startswith("get_"):
            stores += [(name, t) for t in _stores_to_data(fn)]
            for n in ast.walk(fn):
                if isinstance(n, (ast.Assign, ast.AugAssign)):
                    for t in (n.targets if isinstance(n, ast.Assign) else [n.target]):
                        if isinstance(t, (ast.Subscript, ast.Attribute)):
                            subw.append((name, " ".join(ast.unparse(n).split())))
            texts = [t for _, t in lines]
            copies.append((name, sum(t.count(".copy()") for t in texts)))
            blank = [i for i, t in enumerate(texts) if ".iloc[-1] = np.nan" in t]
            empt = [i for i, t in enumerate(texts) if ".dropna().empty" in t]
            if len(blank) != 1 or len(empt) != 1:
                raise Unsupported(P, f"{name}: expected one emptiness check and one blanking of the last row, found {len(empt)} / {len(blank)}")
            # the raise must be the statement right under the emptiness check
            raises_under = texts[empt[0] + 1].startswith("raise ")
            order.append((name, blank[0] > empt[0] and raises_under))

    def block(name, params, lines):
        body = ",\n".join(f"    ({d}, {lean_str(t)})" for d, t in lines)
        return f"  ({lean_str(name)}, [{', '.join(lean_str(p) for p in params)}], [\n{body}])"

    return ("/- GENERATED by /verif/harness/py2lean (window-statement extractor: AST of the live source) — do not edit. -/\n"
            "namespace EEM.Gen.WindowStatements\n\n"
            "/-- (function, parameters, flattened body as (depth, text)) -/\n"
            "def functions : List (String × List String × List (Nat × String)) := [\n"
            + ",\n".join(block(*f) for f in out) + "]\n\n"
            "/-- statements that store into / mutate in place the caller's `data` -/\n"
            "def inputStores : List (String × String) := ["
            + ", ".join(f"({lean_str(a)}, {lean_str(b)})" for a, b in stores) + "]\n\n"
            "/-- every assignment whose target is a subscript or an attribute (the only ways to write into an existing object) -/\n"
            "def subscriptWrites : List (String × String) := ["
            + ", ".join(f"({lean_str(a)}, {lean_str(b)})" for a, b in subw) + "]\n\n"
            "/-- `.copy()` calls per window function -/\n"
            "def copies : List (String × Nat) := [" + ", ".join(f"({lean_str(a)}, {b})" for a, b in copies) + "]\n\n"
            "/-- the last row is blanked after the emptiness check (whose body raises) -/\n"
            "def blankAfterEmptyCheck : List (String × Bool) := ["
            + ", ".join(f"({lean_str(a)}, {'true' if b else 'false'})" for a, b in order) + "]\n\n"
            "end EEM.Gen.WindowStatements\n")


# --------------------------------------------------------------------------- C06: the statements of the DST functions
DST_PATH = "opendsm/eemeter/models/hourly/model.py"
DST_FUNCS = ["_get_dst_indices", "_transform_dst"]


def dst_statements(repo):
    """the bodies of `_get_dst_indices` and `_transform_dst` flattened as above (loops allowed): `EEM.Model.DstSrc` is a literal
    transcription of `_transform_dst`, statement by statement — `EEM.Spec.DstStatements` freezes the statements it was transcribed from"""
    tree = ast.parse(open(os.path.join(repo, DST_PATH)).read())
    fns = {n.name: n for n in tree.body if isinstance(n, ast.FunctionDef)}
    blocks = []
    for name in DST_FUNCS:
        fn = fns.get(name)
        if fn is None:
            raise Unsupported(DST_PATH, f"function {name} not found")
        lines = []
        _flat(fn.body, 0, lines, DST_PATH, loops=True)
        body = ",\n".join(f"    ({d}, {lean_str(t)})" for d, t in lines)
        blocks.append(f"  ({lean_str(name)}, [{', '.join(lean_str(a.arg) for a in fn.args.args)}], [\n{body}])")
    return ("/- GENERATED by /verif/harness/py2lean (DST-statement extractor: AST of the live source) — do not edit. -/\n"
            "namespace EEM.Gen.DstStatements\n\n"
            "/-- (function, parameters, flattened body as (depth, text)) -/\n"
            "def functions : List (String × List String × List (Nat × String)) := [\n" + ",\n".join(blocks) + "]\n\n"
            "end EEM.Gen.DstStatements\n")
