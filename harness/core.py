"""Shared machinery of ./check: regeneration (T1), Lean build + axiom audit, the driver line
protocol (T2), evidence, known findings, violation reporting."""
from __future__ import annotations

import fcntl
import hashlib
import json
import os
import re
import struct
import subprocess
import sys
import time

VERIF = os.path.dirname(os.path.dirname(os.path.abspath(__file__)))
REPO = os.environ.get("VERIF_REPO", "/repo")
LEAN = os.path.join(VERIF, "lean")
EVID = os.path.join(VERIF, "evidence")
REPLAYS = os.path.join(EVID, "replays")
PY = "/venv/bin/python"
GUARD = "OPENDSM_EEMETER_VERIF"

ALLOWED_AXIOMS = {"propext", "Classical.choice", "Quot.sound"}
FORBIDDEN = re.compile(r"\b(sorry|admit|native_decide|bv_decide|implemented_by|unsafe)\b|^\s*axiom\s|maxHeartbeats\s+0\b")

TRUSTED_BASE = [
    "Lean 4.33.0 kernel (thorough tier: also leanchecker)",
    "axioms: propext, Classical.choice, Quot.sound only (audited by #print axioms on every run); no sorry/admit/native_decide/bv_decide/own axioms",
    "py2lean translator (/verif/harness/py2lean): its reading of the Python subset; exercised on every run because the driver executes the generated definitions against the real functions",
    "correspondence harness: generators, canonicalisation and comparison tolerances in /verif/harness",
    "IEEE doubles vs exact reals: theorems are over R/Q; execution is Float",
]


class Infra(Exception):
    """infrastructure problem -> exit 2, never a violation"""


# --------------------------------------------------------------------------- locking
class LeanLock:
    def __enter__(self):
        os.makedirs(os.path.join(LEAN, ".lake"), exist_ok=True)
        self.f = open(os.path.join(LEAN, ".lake", "verif.lock"), "w")
        fcntl.flock(self.f, fcntl.LOCK_EX)
        return self

    def __exit__(self, *a):
        fcntl.flock(self.f, fcntl.LOCK_UN)
        self.f.close()


# --------------------------------------------------------------------------- T1 regeneration
def regen():
    """Regenerate lean/EEM/Gen from REPO's working tree. Returns (ok, output)."""
    env = dict(os.environ)
    env["PYTHONPATH"] = VERIF + os.pathsep + REPO
    env[GUARD] = "1"
    p = subprocess.run([PY, "-m", "harness.py2lean", "--repo", REPO], cwd=VERIF, env=env,
                       capture_output=True, text=True, timeout=600)
    out = p.stdout + p.stderr
    if p.returncode not in (0, 3):
        raise Infra("py2lean crashed:\n" + out[-3000:])
    return p.returncode == 0, out


def gen_closure(targets):
    """names of the generated modules (EEM.Gen.X -> X) in the import closure of the given Lean modules"""
    import re
    seen, todo, gens = set(), list(targets), set()
    while todo:
        m = todo.pop()
        if m in seen:
            continue
        seen.add(m)
        if m.startswith("EEM.Gen."):
            gens.add(m.split(".")[-1])
        path = os.path.join(LEAN, *m.split(".")) + ".lean"
        if not os.path.exists(path):
            continue
        for line in open(path):
            mm = re.match(r"\s*import\s+(EEM[\w.]*)", line)
            if mm:
                todo.append(mm.group(1))
    return gens


# --------------------------------------------------------------------------- Lean build / audit
def lake_build(targets, timeout=3000):
    p = subprocess.run(["lake", "build", *targets], cwd=LEAN, capture_output=True, text=True, timeout=timeout)
    out = p.stdout + p.stderr
    return p.returncode == 0, out


def first_errors(out, n=6):
    errs = [l for l in out.splitlines() if l.startswith("error:") or "error:" in l[:60]]
    return errs[:n]


def strip_comments(src):
    # remove /- ... -/ (nested not handled; none used) and -- line comments
    src = re.sub(r"/-.*?-/", "", src, flags=re.S)
    return "\n".join(l.split("--")[0] for l in src.splitlines())


def source_audit():
    bad = []
    for root, _, files in os.walk(os.path.join(LEAN, "EEM")):
        for f in files:
            if f.endswith(".lean"):
                p = os.path.join(root, f)
                for i, l in enumerate(strip_comments(open(p).read()).splitlines(), 1):
                    if FORBIDDEN.search(l):
                        bad.append(f"{os.path.relpath(p, LEAN)}:{i}: {l.strip()[:100]}")
    return bad


def theorem_names(module):
    """all `theorem` names declared in a Props module, fully qualified"""
    path = os.path.join(LEAN, *module.split(".")) + ".lean"
    src = strip_comments(open(path).read())
    ns = []
    names = []
    for l in src.splitlines():
        m = re.match(r"\s*namespace\s+(\S+)", l)
        if m:
            ns.append(m.group(1))
            continue
        m = re.match(r"\s*end\s+(\S+)", l)
        if m and ns and ns[-1] == m.group(1):
            ns.pop()
            continue
        m = re.match(r"\s*(?:@\[[^\]]*\]\s*)?(?:private\s+|protected\s+)?theorem\s+(\S+)", l)
        if m:
            names.append(".".join(ns + [m.group(1)]))
    return names


def audit(prop_id, module):
    """#print axioms for every obligation. Returns (obligations, discharged, details)."""
    names = theorem_names(module)
    if not names:
        return [], [], ["no theorems found in " + module]
    path = os.path.join(LEAN, ".lake", f"Audit_{prop_id}.lean")
    with open(path, "w") as f:
        f.write(f"import {module}\n" + "".join(f"#print axioms {n}\n" for n in names))
    p = subprocess.run(["lake", "env", "lean", path], cwd=LEAN, capture_output=True, text=True, timeout=1800)
    out = p.stdout + p.stderr
    discharged, details = [], []
    flat = re.sub(r"\s+", " ", out)
    for n in names:
        m = re.search(r"'" + re.escape(n) + r"' depends on axioms: \[([^\]]*)\]", flat)
        if m:
            ax = {a.strip() for a in m.group(1).split(",") if a.strip()}
            if ax <= ALLOWED_AXIOMS:
                discharged.append(n)
            else:
                details.append(f"{n}: axioms {sorted(ax - ALLOWED_AXIOMS)}")
        elif re.search(r"'" + re.escape(n) + r"' does not depend on any axioms", flat):
            discharged.append(n)
        else:
            details.append(f"{n}: not checked ({out.strip()[:200]})")
    return names, discharged, details


def leanchecker(modules, timeout=3000):
    p = subprocess.run(["lake", "env", "leanchecker", *modules], cwd=LEAN, capture_output=True, text=True, timeout=timeout)
    return p.returncode == 0, (p.stdout + p.stderr)[-2000:]


# --------------------------------------------------------------------------- driver protocol
def fhex(x) -> str:
    return struct.pack(">d", float(x)).hex()


def ofhex(s):
    return None if s is None or s == "-" else fhex(s)


def unhex(s):
    if s == "nan":
        return float("nan")
    return struct.unpack(">d", bytes.fromhex(s))[0]


def run_driver(lines, timeout=1800):
    """Feed ops to the Lean model, one output line per op."""
    if not lines:
        return []
    data = "\n".join(lines) + "\n"
    p = subprocess.run(["lake", "env", "lean", "--run", "Driver.lean"], cwd=LEAN, input=data,
                       capture_output=True, text=True, timeout=timeout)
    outs = [l for l in p.stdout.splitlines() if not l.startswith("Driver.lean:") ]
    # compiler warnings go to stdout before the program output; keep the last len(lines) lines
    if p.returncode != 0 or len(outs) < len(lines):
        raise DriverBroken(f"driver rc={p.returncode}, {len(outs)} lines for {len(lines)} ops\n" + (p.stdout[-1500:] + p.stderr[-1500:]))
    return outs[-len(lines):]


class DriverBroken(Exception):
    pass


def close(a, b, rel=1e-9):
    """float comparison for paths through exp/log/sqrt or pandas reductions"""
    if a != a and b != b:
        return True
    if a == b:
        return True
    if a != a or b != b:
        return False
    return abs(a - b) <= rel * max(1.0, abs(a), abs(b))


# --------------------------------------------------------------------------- findings
def load_findings(prop_id):
    path = os.path.join(VERIF, "known_findings.json")
    if not os.path.exists(path):
        return []
    data = json.load(open(path))
    return [e for e in data.get("findings", []) if e.get("property") == prop_id]


# --------------------------------------------------------------------------- evidence / reporting
def write_json(path, obj):
    os.makedirs(os.path.dirname(path), exist_ok=True)
    tmp = path + ".tmp"
    with open(tmp, "w") as f:
        json.dump(obj, f, indent=1, default=str)
    os.replace(tmp, path)


def write_replay(prop_id, obj):
    blob = json.dumps(obj, sort_keys=True, default=str)
    h = hashlib.sha1(blob.encode()).hexdigest()[:12]
    path = os.path.join(REPLAYS, f"{prop_id}-{h}.json")
    write_json(path, obj)
    return path


def jsonable(x):
    try:
        json.dumps(x)
        return x
    except TypeError:
        return repr(x)
