"""C20 — baseline and reporting windows never leak across the intervention.

T2: real `get_baseline_data` / `get_reporting_data` on hourly / daily / billing (irregular)
series, Series and DataFrame, vs. the Lean model (EEM.Model.Window).  Oracle: the property's
clauses on the implementation's output."""
from __future__ import annotations

import random
import warnings

import numpy as np
import pandas as pd

from .. import core

ID = "C20"
LEAN_MODULE = "EEM.Props.C20"
BUILD_TARGETS = ["EEM.Props.C20"]
MODEL_TARGETS = ["EEM.Model.Window", "EEM.Proto"]
DESIGN_REF = "DESIGN.md §5 C20"
DAY = 86400


def gen_series(rng):
    kind = rng.choice(["hourly", "daily", "billing", "billing", "tiny"])
    t0 = 1546300800 + rng.choice([0, 3600 * 5, DAY * 17])     # 2019-01-01 UTC
    if kind == "hourly":
        n = rng.choice([30, 100, 400])
        ts = [t0 + 3600 * i for i in range(n)]
    elif kind == "daily":
        n = rng.choice([10, 60, 420, 800])
        ts = [t0 + DAY * i for i in range(n)]
    elif kind == "billing":
        n = rng.choice([3, 8, 15, 30])
        ts, t = [], t0
        for _ in range(n):
            ts.append(t)
            t += DAY * rng.choice([27, 28, 30, 31, 33, 61, 90, 15])
    else:
        n = rng.choice([1, 2, 3])
        ts = [t0 + DAY * 10 * i for i in range(n)]
    # drop a chunk (gap) sometimes
    if len(ts) > 8 and rng.random() < 0.4:
        a = rng.randrange(1, len(ts) - 2)
        b = min(len(ts) - 1, a + rng.choice([1, 3, len(ts) // 3]))
        ts = ts[:a] + ts[b:]
    vals = []
    for i in range(len(ts)):
        r = rng.random()
        vals.append(None if r < 0.12 else float(i + 1))
    if rng.random() < 0.05:
        vals = [None] * len(ts)
    return kind, ts, vals


def gen_cut(rng, ts):
    lo, hi = ts[0], ts[-1]
    r = rng.random()
    if r < 0.12 and len(ts) > 2:                               # inside the widest gap, with rows on both sides
        i = max(range(len(ts) - 1), key=lambda k: ts[k + 1] - ts[k])
        return ts[i] + (ts[i + 1] - ts[i]) * rng.choice([1, 2, 3]) // 4
    if r < 0.3:
        return rng.choice(ts)                                  # exactly on a stamp
    if r < 0.4:
        return rng.choice(ts) + rng.choice([-1, 1, 1800, -1800])
    if r < 0.5:
        return lo - rng.choice([1, DAY, 100 * DAY])
    if r < 0.6:
        return hi + rng.choice([1, DAY, 100 * DAY])
    return rng.randrange(lo - DAY, hi + DAY)


def mk(ts, vals, tz, frame):
    # nanosecond resolution, as the data classes produce: with a second-resolution index pandas refuses to slice at an ambiguous
    # local label of another resolution ("non-monotonic index with a missing label") — a pandas quirk, not the code under test
    idx = pd.DatetimeIndex(pd.to_datetime(ts, unit="s", utc=True)).as_unit("ns").tz_convert(tz)
    v = [np.nan if x is None else x for x in vals]
    if frame:
        return pd.DataFrame({"value": v, "temperature": 60.0}, index=idx)
    return pd.Series(v, index=idx, name="value")


def canon(out):
    """canonical rows of a returned Series/DataFrame: (utc seconds, token or None)"""
    if isinstance(out, pd.DataFrame):
        null = out.isna().any(axis=1).to_numpy()
        col = out["value"].to_numpy()
    else:
        null = out.isna().to_numpy()
        col = out.to_numpy()
    secs = (out.index.tz_convert("UTC").tz_localize(None) - pd.Timestamp("1970-01-01")) // pd.Timedelta(seconds=1)
    return [(int(s), None if n else f"{float(c):g}") for s, n, c in zip(secs, null, col)]


def opt(x):
    return "-" if x is None else str(int(x))


def oracle_baseline(args, ts, vals, rows, warns):
    """C20's clauses on what the implementation returned (rows = canonical output)."""
    fails = []
    end, md = args["end"], args["max_days"]
    out_t = [t for t, _ in rows]
    src = dict(zip(ts, vals))
    if end is not None and any(t > end for t in out_t):
        fails.append(("rows_after_requested_end", dict(end=end, rows=[t for t in out_t if t > end][:3])))
    if end is not None and md is not None and not args["overshoot"]:
        ref = end
        if args["ignore_gap"]:
            prior = [t for t in ts if t <= end]
            n = args["n_days"]
            if prior and (n is None or end - n * DAY < prior[-1]):
                ref = prior[-1]
        if any(t < ref - md * DAY for t in out_t):
            fails.append(("rows_earlier_than_max_days", dict(reference=ref, max_days=md, first=out_t[0])))
    if end is not None and md is not None and args["overshoot"] and out_t:
        ref = end
        if args["ignore_gap"]:
            prior = [t for t in ts if t <= end]
            n = args["n_days"]
            if prior and (n is None or end - n * DAY < prior[-1]):
                ref = prior[-1]
        target = ref - md * DAY
        cand = [t for t in ts if t <= end]
        best = min(cand, key=lambda t: (abs(t - target), -t)) if cand else None   # no candidate: rows_after_requested_end fired
        if cand and out_t[0] != best:
            fails.append(("not_nearest_period_boundary", dict(target=target, first=out_t[0], nearest=best)))
    # contiguous slice of the input, values unchanged apart from the blanked final row
    if out_t:
        if out_t[0] not in ts:
            fails.append(("row_not_in_input", dict(t=out_t[0])))
        else:
            i = ts.index(out_t[0])
            if ts[i:i + len(out_t)] != out_t:
                fails.append(("not_contiguous", dict(first=out_t[0], n=len(out_t))))
            for (t, v), sv in zip(rows[:-1], vals[i:i + len(out_t) - 1]):
                if (v is None) != (sv is None) or (v is not None and float(v) != sv):
                    fails.append(("value_changed", dict(t=t, out=v, input=sv)))
                    break
            if rows[-1][1] is not None:
                fails.append(("final_row_not_blanked", dict(t=rows[-1][0])))
    # gap warnings
    if end is not None:
        if ts[-1] < end and "gap_at_baseline_end" not in warns:
            fails.append(("gap_at_end_not_reported", dict(data_end=ts[-1], requested_end=end)))
    if args["start"] is not None:
        if args["start"] < ts[0] and "gap_at_baseline_start" not in warns:
            fails.append(("gap_at_start_not_reported", dict(data_start=ts[0], requested_start=args["start"])))
    return fails


def oracle_reporting(args, ts, vals, rows, warns):
    fails = []
    start, md = args["start"], args["max_days"]
    out_t = [t for t, _ in rows]
    if start is not None and any(t < start for t in out_t):
        fails.append(("rows_before_requested_start", dict(start=start, rows=[t for t in out_t if t < start][:3])))
    if start is not None and md is not None:
        ref = start
        if args["ignore_gap"]:
            later = [t for t in ts if t >= start]
            if later:
                ref = later[0]
        if not args["overshoot"]:
            if any(t > ref + md * DAY for t in out_t):
                fails.append(("rows_later_than_max_days", dict(reference=ref, max_days=md, last=out_t[-1])))
        elif out_t:
            target = ref + md * DAY
            cand = [t for t in ts if t >= start]
            best = min(cand, key=lambda t: (abs(t - target), -t)) if cand else None   # no candidate: rows_before_requested_start fired
            if cand and out_t[-1] != best:
                fails.append(("not_nearest_period_boundary", dict(target=target, last=out_t[-1], nearest=best)))
    if out_t:
        if out_t[0] not in ts:
            fails.append(("row_not_in_input", dict(t=out_t[0])))
        else:
            i = ts.index(out_t[0])
            if ts[i:i + len(out_t)] != out_t:
                fails.append(("not_contiguous", dict(first=out_t[0], n=len(out_t))))
            for (t, v), sv in zip(rows[:-1], vals[i:i + len(out_t) - 1]):
                if (v is None) != (sv is None) or (v is not None and float(v) != sv):
                    fails.append(("value_changed", dict(t=t, out=v, input=sv)))
                    break
            if rows[-1][1] is not None:
                fails.append(("final_row_not_blanked", dict(t=rows[-1][0])))
    if start is not None and start < ts[0] and "gap_at_reporting_start" not in warns:
        fails.append(("gap_at_start_not_reported", dict(data_start=ts[0], requested_start=start)))
    if args["end"] is not None and ts[-1] < args["end"] and "gap_at_reporting_end" not in warns:
        fails.append(("gap_at_end_not_reported", dict(data_end=ts[-1], requested_end=args["end"])))
    return fails


def run_case(case):
    """execute one case on the implementation; returns (canonical line, oracle failures, extra)"""
    from opendsm.eemeter.common.transform import get_baseline_data, get_reporting_data
    from opendsm.eemeter.common.exceptions import NoBaselineDataError, NoReportingDataError
    which, a, ts, vals, tz, frame = case["which"], case["args"], case["ts"], case["vals"], case["tz"], case["frame"]
    data = mk(ts, vals, tz, frame)
    before = data.copy(deep=True)

    def T(x):
        # the limits are INSTANTS: they may be written in another zone than the data (same instant, other offset)
        if x is None:
            return None
        t = pd.Timestamp(x, unit="s", tz="UTC").tz_convert(case.get("limit_tz") or tz)
        return t.to_pydatetime() if case.get("limit_py") else t
    try:
        if which == "baseline":
            out, w = get_baseline_data(data, start=T(a["start"]), end=T(a["end"]), max_days=a["max_days"],
                                       allow_billing_period_overshoot=a["overshoot"],
                                       n_days_billing_period_overshoot=a["n_days"],
                                       ignore_billing_period_gap_for_day_count=a["ignore_gap"])
        else:
            out, w = get_reporting_data(data, start=T(a["start"]), end=T(a["end"]), max_days=a["max_days"],
                                        allow_billing_period_overshoot=a["overshoot"],
                                        ignore_billing_period_gap_for_day_count=a["ignore_gap"])
    except (NoBaselineDataError, NoReportingDataError, ValueError, IndexError, OverflowError) as e:
        name = type(e).__name__
        modified = not before.equals(data)
        fails = [("input_modified", {})] if modified else []
        # an empty selection must raise the dedicated error; nothing else may escape
        if name in ("IndexError", "OverflowError"):
            fails.append(("crash_" + name, dict(error=str(e)[:80])))
        if name == "ValueError" and not (a["max_days"] is not None and (a["start"] if which == "baseline" else a["end"]) is not None):
            fails.append(("unexpected_ValueError", dict(error=str(e)[:80])))
        return "err " + name, fails, dict(error=name)
    rows = canon(out)
    names = [x.qualified_name.split(".")[-1] for x in w]
    short = ["gap_at_end" if n.endswith("_end") else "gap_at_start" for n in names]
    fails = (oracle_baseline if which == "baseline" else oracle_reporting)(a, ts, vals, rows, names)
    if not before.equals(data) or not before.index.equals(data.index):
        fails.append(("input_modified", {}))
    if type(out) is not type(data):
        fails.append(("type_changed", dict(out=type(out).__name__)))
    line = "ok " + " ".join(f"{t}:{'-' if v is None else v}" for t, v in rows) + " |" + "".join(" " + s for s in short)
    return line, fails, dict(n=len(rows), warnings=short)


def case_line(case):
    a = case["args"]
    rows = " ".join(f"{t}:{'-' if v is None else format(v, 'g')}" for t, v in zip(case["ts"], case["vals"]))
    if case["which"] == "baseline":
        return (f"baseline {opt(a['start'])} {opt(a['end'])} {opt(a['max_days'])} {int(a['overshoot'])} {opt(a['n_days'])} "
                f"{int(a['ignore_gap'])} {rows}")
    return f"reporting {opt(a['start'])} {opt(a['end'])} {opt(a['max_days'])} {int(a['overshoot'])} {int(a['ignore_gap'])} {rows}"


def gen_case(rng):
    kind, ts, vals = gen_series(rng)
    which = rng.choice(["baseline", "reporting"])
    md = rng.choice([None, 0, 1, 30, 365, 10000, rng.randrange(1, 400)])
    cut = gen_cut(rng, ts) if rng.random() < 0.9 else None
    other = None
    if md is None and rng.random() < 0.5:
        other = gen_cut(rng, ts)
    if rng.random() < 0.03:          # the rejected argument combination
        md, other = 30, gen_cut(rng, ts)
    a = dict(max_days=md, overshoot=rng.random() < 0.4, ignore_gap=rng.random() < 0.35,
             n_days=rng.choice([None, None, 0, 7, 45, 400]))
    if which == "baseline":
        a.update(end=cut, start=other)
    else:
        a.update(start=cut, end=other)
        a["n_days"] = None
    return dict(which=which, args=a, ts=ts, vals=vals, kind=kind,
                tz=rng.choice(["UTC", "America/Los_Angeles", "Asia/Kolkata"]), frame=rng.random() < 0.4,
                limit_tz=rng.choice([None, None, None, "UTC", "America/Chicago", "Australia/Sydney", "Asia/Kolkata"]),
                limit_py=rng.random() < 0.2)


def signature(case, extra):
    a = case["args"]
    return (case["which"], case["kind"], a["max_days"] is None, a["overshoot"], a["ignore_gap"], a["n_days"] is None,
            extra.get("error"), tuple(extra.get("warnings", [])), case["frame"],
            "same_zone" if (case.get("limit_tz") or case["tz"]) == case["tz"] else "other_zone", bool(case.get("limit_py")))


def classify(case, fail, findings):
    """which listed finding (if any) explains this oracle failure"""
    a = case["args"]
    for e in findings:
        if e.get("status") != "finding":
            continue
        if e["id"] == "C20-F1" and fail[0] in ("gap_at_end_not_reported", "gap_at_start_not_reported") \
                and (a["overshoot"] or a["ignore_gap"]):
            return e["id"]
    return None


def run(ctx):
    warnings.filterwarnings("ignore")
    rng = random.Random(ctx["seed"] * 15485863 + 20)
    n = int((1200 if ctx["tier"] == "quick" else 60000) * ctx.get("budget_scale", 1))
    res = dict(evaluations=0, disagreements=[], oracle_failures=[], finding_instances={}, samples=[], hist={}, traces=0)
    sigs = set()
    lines, expect, cases = [], [], []
    corpus = core_corpus()
    for i in range(n + len(corpus)):
        case = corpus[i] if i < len(corpus) else gen_case(rng)
        line, fails, extra = run_case(case)
        res["evaluations"] += 1
        sigs.add(signature(case, extra))
        res["hist"][case["which"] + ":" + extra.get("error", "ok")] = res["hist"].get(case["which"] + ":" + extra.get("error", "ok"), 0) + 1
        for f in fails:
            fid = classify(case, f, ctx.get("findings", []))
            if fid:
                d = res["finding_instances"].setdefault(fid, dict(count=0, example=None))
                d["count"] += 1
                if d["example"] is None:
                    d["example"] = dict(case=case, clause=f[0])
            else:
                res["oracle_failures"].append(dict(clause=f[0], detail=f[1], case=case))
                break
        lines.append(case_line(case))
        expect.append(line)
        cases.append(case)
        if len(res["samples"]) < 3 and i >= len(corpus):
            res["samples"].append(dict(case=dict(case, ts=case["ts"][:5], vals=case["vals"][:5]), impl=line[:200]))
    for case in subsecond_cases():
        res["evaluations"] += 1
        fs = run_subsecond(case)
        res["hist"]["subsecond:" + case["unit"]] = res["hist"].get("subsecond:" + case["unit"], 0) + 1
        if fs:
            res["oracle_failures"].append(dict(clause=fs[0][0], detail=fs[0][1], case=case))
    if ctx.get("model_ok", True):
        outs = core.run_driver(lines)
        for out, exp, case in zip(outs, expect, cases):
            res["traces"] += 1
            if out.strip() != exp.strip():
                res["disagreements"].append(dict(case=shrink_repr(case), lean=out[:300], impl=exp[:300]))
    res["distinct_nontrivial"] = len(sigs)
    res["rule"] = ("hourly/daily/billing(irregular)/tiny series with gaps and NaN rows, Series and DataFrame, three timezones; cut instants "
                   "on a stamp, next to one, inside, before and after the data; max_days in {None,0,1,30,365,10^4,random}; all combinations of "
                   "the overshoot options. distinct = (function, series kind, max_days None?, overshoot, ignore_gap, n_days None?, error, "
                   "warnings, frame?)")
    return res


def shrink_repr(case):
    c = dict(case)
    if len(c["ts"]) > 40:
        c = dict(c, ts=c["ts"][:20] + ["..."] + c["ts"][-20:], vals="...")
    return c


def core_corpus():
    t0 = 1577836800
    ts = [t0 + DAY * i for i in range(10)]
    vals = [float(i) for i in range(10)]
    base = dict(kind="daily", ts=ts, vals=vals, tz="UTC", frame=False)
    A = lambda **k: dict(dict(start=None, end=None, max_days=365, overshoot=False, n_days=None, ignore_gap=False), **k)  # noqa
    return [
        dict(base, which="baseline", args=A(end=t0 - 30 * DAY)),
        dict(base, which="baseline", args=A(end=t0 - 30 * DAY, ignore_gap=True)),
        dict(base, which="baseline", args=A(end=t0 + 4 * DAY + 43200, max_days=2)),
        dict(base, which="baseline", args=A(end=t0 + 4 * DAY + 43200, max_days=2, overshoot=True)),
        dict(base, which="baseline", args=A(end=t0 + 4 * DAY, max_days=0)),
        dict(base, which="baseline", args=A(end=t0 + 40 * DAY, max_days=None)),
        dict(base, which="reporting", args=A(start=t0 + 3 * DAY, max_days=2)),
        dict(base, which="reporting", args=A(start=t0 + 30 * DAY)),
        # the seeded C20 change: long gap before `end`, rows after it, tolerance smaller than the gap
        dict(kind="billing", tz="UTC", frame=False, which="baseline",
             ts=[t0, t0 + 30 * DAY, t0 + 140 * DAY, t0 + 170 * DAY], vals=[1.0, 2.0, 3.0, 4.0],
             args=A(end=t0 + 135 * DAY, max_days=30, ignore_gap=True, n_days=45)),
    ] + dst_edge_corpus()


def dst_edge_corpus():
    """limits whose UTC offset differs from the offset `max_days` away (the clocks changed in between), on a series with hourly rows
    around the far edge of the window: the window is `max_days` x 24 ELAPSED hours whatever type the limit has (pandas Timestamp or
    python datetime, in the data's zone or not)"""
    out = []
    A = lambda **k: dict(dict(start=None, end=None, max_days=365, overshoot=False, n_days=None, ignore_gap=False), **k)  # noqa
    for tz, local in (("America/Chicago", "2021-03-10"), ("America/Chicago", "2021-11-04"), ("Australia/Sydney", "2021-10-05")):
        lim = int(pd.Timestamp(local, tz=tz).timestamp())
        for which in ("baseline", "reporting"):
            far = lim - 365 * DAY if which == "baseline" else lim + 365 * DAY
            ts = sorted(set([far + 3600 * h for h in range(-3, 4)] + [lim + 3600 * h for h in range(-2, 3)] +
                            [min(lim, far) + DAY * d for d in range(5, 360, 20)]))
            vals = [float(i + 1) for i in range(len(ts))]
            for limit_py in (True, False):
                out.append(dict(kind="hourly", ts=ts, vals=vals, tz=tz, frame=False, which=which, limit_tz=tz, limit_py=limit_py,
                                args=A(end=lim) if which == "baseline" else A(start=lim)))
    return out


def subsecond_cases():
    """limits with a sub-second part (a logged intervention instant) on indexes of second / millisecond / microsecond resolution
    (epoch feeds): the comparison is between INSTANTS whatever the resolutions of index and limit are"""
    out = []
    base = int(pd.Timestamp("2021-06-20 12:00:00", tz="UTC").timestamp())
    for unit in ("s", "ms", "us"):
        for frac_ms, on_stamp in ((250, True), (400, True), (250, False)):
            for which in ("reporting", "baseline"):
                for md in (10, None):
                    out.append(dict(subsecond=True, unit=unit, frac_ms=frac_ms, which=which, max_days=md, base=base,
                                    on_stamp=on_stamp, frame=(unit == "ms")))
    return out


def run_subsecond(case):
    """independent oracle: the property's clauses evaluated with pandas Timestamp comparisons on the returned index"""
    from opendsm.eemeter.common.transform import get_baseline_data, get_reporting_data
    base, unit, md, which = case["base"], case["unit"], case["max_days"], case["which"]
    ts = [base + 3600 * h for h in range(-24 * 15, 24 * 15 + 1)]
    idx = pd.DatetimeIndex(pd.to_datetime(ts, unit="s", utc=True)).as_unit(unit)
    vals = np.arange(len(ts), dtype=float) + 1.0
    data = pd.DataFrame({"value": vals, "temperature": 60.0}, index=idx) if case["frame"] else pd.Series(vals, index=idx, name="value")
    before = data.copy(deep=True)
    lim = pd.Timestamp(base if case["on_stamp"] else base + 1800, unit="s", tz="UTC") + pd.Timedelta(milliseconds=case["frac_ms"])
    fails = []
    try:
        if which == "reporting":
            out, w = get_reporting_data(data, start=lim, max_days=md)
            lo, hi = lim, (lim + pd.Timedelta(days=md) if md is not None else None)
        else:
            out, w = get_baseline_data(data, end=lim, max_days=md)
            lo, hi = (lim - pd.Timedelta(days=md) if md is not None else None), lim
    except Exception as e:  # noqa
        return [("subsecond_limit_rejected", dict(error=f"{type(e).__name__}: {e}"[:120]))]
    oi = out.index
    if lo is not None and len(oi) and oi.min() < lo:
        fails.append(("rows_before_requested_start" if which == "reporting" else "rows_earlier_than_max_days",
                      dict(limit=str(lo), first_row=str(oi.min()))))
    if hi is not None and len(oi) and oi.max() > hi:
        fails.append(("rows_after_requested_end" if which == "baseline" else "rows_later_than_max_days",
                      dict(limit=str(hi), last_row=str(oi.max()))))
    want = data.index[(data.index >= lo if lo is not None else True) & (data.index <= hi if hi is not None else True)]
    if not oi.equals(want):
        fails.append(("selection_is_not_the_rows_within_the_limits", dict(rows=len(oi), expected=len(want))))
    if not before.equals(data):
        fails.append(("input_modified", {}))
    # a requested end 0.4 s past the last datum is a gap
    if which == "baseline" and md is None:
        last = data.index.max()
        out2, w2 = get_baseline_data(data, end=last + pd.Timedelta(milliseconds=case["frac_ms"]), max_days=None)
        if not any(x.qualified_name.endswith("gap_at_baseline_end") for x in w2):
            fails.append(("gap_not_reported", dict(requested_end=str(last + pd.Timedelta(milliseconds=case["frac_ms"])), data_end=str(last))))
    return fails


def replay_finding(entry):
    case = entry["witness"]["case"]
    _, fails, _ = run_case(case)
    return any(f[0] == entry["witness"]["clause"] for f in fails)


def replay(obj):
    case = obj.get("case")
    if not case:
        return []
    if case.get("subsecond"):
        return run_subsecond(case)
    _, fails, _ = run_case(case)
    return fails


LEVEL_TEXT = ("Lean 4 theorems about an executable model of get_baseline_data/get_reporting_data on a time-sorted series of arbitrary "
              "length: no returned row lies beyond the requested end/start, none earlier/later than max_days from the reference instant, "
              "the nearest-boundary rule under overshoot, the result is a contiguous slice of the input with values unchanged except the "
              "blanked final row, the warning and error conditions. The model is tied to the real functions by a differential run over "
              "Series and DataFrames with gaps, NaN rows and every option combination, and by a translator table: the statements of both "
              "window functions and their warning builders are re-extracted from the source on every run (Gen/WindowStatements) and "
              "proved equal to the reviewed statements the model was written from, with no store into the caller's object.")
LEVEL_NOTE = ("Trusted: Lean kernel + standard axioms; the hand model of pandas label slicing on a monotonic index (takeWhile/dropWhile), "
              "get_indexer(nearest) (ties to the later stamp) and NaT comparisons, validated by T2 only; unsorted or duplicated indexes are "
              "outside the model; input-unmodified is checked dynamically (snapshot before/after) and syntactically (no store through the "
              "parameter in the extracted statements; aliasing through pandas views is covered by the dynamic check only).")
TECHNIQUE = "Lean 4 proof (list lemmas over an executable model) + statement table regenerated from the source + differential correspondence"
ASSUMPTIONS = ["index sorted ascending (pandas requires a monotonic index for label slices)",
               "a start derived from max_days is not a 'requested limit' for the start-gap warning (the code warns for an explicit start only)"]
