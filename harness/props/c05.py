"""C05 — the counterfactual never depends on reporting-period consumption.

T2: the shared predict-frame correspondence (real DailyModel/BillingModel._predict vs. the Lean
model) on paired frames that differ only in the observed column.  Oracle: paired public predict()
runs for every family (daily, billing, hourly, CalTRACK hourly) — observed as metered, rescaled,
shuffled, partly NaN, all NaN, exact zeros, column absent — must give identical predictions
wherever both are produced (spans include DST changes; each variant is built from its own copy
of the input frames)."""
from __future__ import annotations

import random
import warnings

import numpy as np
import pandas as pd

from .. import core
from . import pframe

ID = "C05"
LEAN_MODULE = "EEM.Props.C05"
BUILD_TARGETS = ["EEM.Props.C05"]
MODEL_TARGETS = ["EEM.Model.PredictFrame", "EEM.Model.Dst", "EEM.Model.Splits", "EEM.Proto"]
DESIGN_REF = "DESIGN.md §5 C05"
TZ = "America/Chicago"


def variants(obs: pd.Series, rng):
    """alterations of the observed series (each a fresh object)"""
    n = len(obs)
    out = {"as_metered": obs.copy(), "scaled_3.5": obs * 3.5, "scaled_tiny": obs * 1e-3}
    sh = obs.to_numpy().copy()
    rng.shuffle(sh)
    out["shuffled"] = pd.Series(sh, index=obs.index, name=obs.name)
    part = obs.copy()
    part.iloc[rng.sample(range(n), max(1, n // 10))] = np.nan
    out["partly_nan"] = part
    out["all_nan"] = pd.Series(np.nan, index=obs.index, name=obs.name)
    z = obs.copy()
    z.iloc[rng.sample(range(n), max(1, n // 50))] = 0.0
    out["exact_zero_reads"] = z
    out["times_zero"] = obs * 0.0
    # sign and magnitude patterns (net-metered sites export: usage can be negative)
    out["negated"] = -obs
    out["some_negative"] = obs.where(np.arange(n) % 7 != 3, -obs)
    out["absolute"] = obs.abs()
    out["huge"] = obs.abs() * 1e6 + 1e3
    out["absent"] = None
    return out


def compare(ref, other, name, fam, res, extra, variant_series=None):
    """predictions equal wherever both are produced"""
    a, b = ref["predicted"], other["predicted"]
    common = a.index.intersection(b.index)
    av, bv = a.loc[common].to_numpy(dtype=float), b.loc[common].to_numpy(dtype=float)
    both = np.isfinite(av) & np.isfinite(bv)
    res["evaluations"] += 1
    if (len(common) != len(a.index) or len(common) != len(b.index)) and fam in ("daily", "billing") and variant_series is not None and len(variant_series):
        vs = variant_series
        if pd.isna(vs.iloc[0]) or pd.isna(vs.iloc[-1]):
            # C05-F1: the span is trimmed to the valid usage; rows can only be lost in one block at the start and / or the end
            extra_rows = a.index.symmetric_difference(b.index)
            inner_lo, inner_hi = (common.min(), common.max()) if len(common) else (None, None)
            at_edges = len(common) > 0 and all((x < inner_lo) or (x > inner_hi) for x in extra_rows)
            limit = 2 if fam == "daily" else 80          # billing: up to one (bi-monthly) period and its final day
            if at_edges and len(extra_rows) <= limit:
                d = res["finding_instances"].setdefault("C05-F1", dict(count=0, example=None))
                d["count"] += 1
                if d["example"] is None:
                    d["example"] = dict(family=fam, variant=name, rows_ref=len(a), rows_variant=len(b),
                                        rows_only_in_one=[str(x) for x in list(extra_rows)[:4]], **extra)
                return
    if fam == "billing" and name == "absent" and len(common):
        # without any meter data the reporting span is the weather span; with reads it is the read calendar: the ROWS differ by
        # construction (which days are reported), the VALUES on the common days must not
        a, b = a.loc[common], b.loc[common]
    if len(common) != len(a.index) or len(common) != len(b.index):
        res["oracle_failures"].append(dict(clause="prediction_rows_depend_on_observed", family=fam, variant=name, rows_ref=len(a), rows_variant=len(b), **extra))
        return
    diff = np.nonzero(both & (av != bv))[0]
    if len(diff) and fam == "daily" and variant_series is not None and len(variant_series):
        # C05-F1: from_series trims the temperature to the span of VALID usage, so when the first / last usage readings of a
        # sub-daily series are NaN the first / last day's mean temperature (and prediction) is taken over fewer hours
        vs = variant_series
        edge_nan_first, edge_nan_last = bool(pd.isna(vs.iloc[0])), bool(pd.isna(vs.iloc[-1]))
        edge_rows = set()
        if edge_nan_first:
            edge_rows.add(0)
        if edge_nan_last:
            edge_rows.update({len(common) - 1, len(common) - 2})
        if edge_rows and set(int(i) for i in diff) <= edge_rows:
            d = res["finding_instances"].setdefault("C05-F1", dict(count=0, example=None))
            d["count"] += 1
            if d["example"] is None:
                i = int(diff[0])
                d["example"] = dict(family=fam, variant=name, stamp=str(common[i]), reference=float(av[i]), with_variant=float(bv[i]),
                                    leading_nan=edge_nan_first, trailing_nan=edge_nan_last, **extra)
            return
    if len(diff):
        i = int(diff[0])
        res["oracle_failures"].append(dict(clause="prediction_depends_on_observed", family=fam, variant=name, stamp=str(common[i]),
                                           reference=float(av[i]), with_variant=float(bv[i]), rows_differing=int(len(diff)), **extra))
    elif fam in ("hourly", "caltrack"):
        # these families predict every row from weather alone: a prediction must not disappear either
        lost = np.nonzero(np.isfinite(av) != np.isfinite(bv))[0]
        if len(lost):
            i = int(lost[0])
            res["oracle_failures"].append(dict(clause="prediction_presence_depends_on_observed", family=fam, variant=name, stamp=str(common[i]),
                                               reference=float(av[i]), with_variant=float(bv[i]), rows_differing=int(len(lost)), **extra))


def run(ctx):
    warnings.filterwarnings("ignore")
    from opendsm.eemeter.models.daily.model import DailyModel
    from opendsm.eemeter.models.billing.model import BillingModel
    from opendsm.eemeter.models.hourly.model import HourlyModel
    from opendsm.eemeter.models.daily.data import DailyReportingData
    from opendsm.eemeter.models.billing.data import BillingReportingData
    from opendsm.eemeter.models.hourly.data import HourlyReportingData
    from .c04 import synth_hourly
    from .c06 import fitted_hourly

    rng = random.Random(ctx["seed"] * 472882027 + 5)
    thorough = ctx["tier"] == "thorough"
    scale = ctx.get("budget_scale", 1)
    res = dict(evaluations=0, disagreements=[], oracle_failures=[], finding_instances={}, samples=[], hist={}, traces=0)
    sigs = set()
    dsettings = DailyModel().settings.model_dump()
    bsettings = BillingModel().settings.model_dump()
    bsettings.update(developer_mode=True, silent_developer_mode=True)

    def shaped_doc(combo, settings):
        doc = pframe.make_doc(combo, TZ, settings)
        for i, k in enumerate(doc["submodels"]):
            doc["submodels"][k]["coefficients"].update(model_type="hdd_tidd_cdd", hdd_bp=55.0, hdd_beta=0.7 + i, cdd_bp=68.0, cdd_beta=1.1)
        return doc

    # ---- daily and billing, public API
    spans = [("2021-03-01", 40), ("2021-10-20", 30), ("2021-01-01", 365)] + ([("2020-02-10", 200)] if thorough else [])
    for start, days in spans[: (2 if not thorough and scale == 1 else 9)]:
        idx = pd.date_range(pd.Timestamp(start, tz=TZ), periods=24 * days, freq="h")
        temp = pd.Series(55 + 22 * np.sin(np.arange(len(idx)) / 8760 * 6.283 - 2) + 5 * np.sin(np.arange(len(idx)) / 24 * 6.283), index=idx, name="temperature")
        obs = pd.Series(1.0 + np.abs(np.sin(np.arange(len(idx)) / 24.0)), index=idx, name="observed")
        combo = rng.choice(["fw-su_sh_wi", "fw-sh_wi__wd-su__we-su"])
        dm = DailyModel.from_dict(shaped_doc(combo, dsettings))
        outs = {}
        vseries = variants(obs, rng)
        # always exercise the edge: a variant whose first three and last two usage readings are missing
        edge = obs.copy()
        edge.iloc[:3] = np.nan
        edge.iloc[-2:] = np.nan
        vseries["edge_nan"] = edge
        for name, v in vseries.items():
            try:
                rd = DailyReportingData.from_series(None if v is None else v.copy(), temp.copy(), is_electricity_data=True)
                outs[name] = dm.predict(rd)
            except Exception as e:  # noqa
                res["hist"][f"daily_variant_failed:{name}:{type(e).__name__}"] = res["hist"].get(f"daily_variant_failed:{name}:{type(e).__name__}", 0) + 1
        for name, o in outs.items():
            if name != "absent" and "absent" in outs:
                compare(outs["absent"], o, name, "daily", res, dict(start=start, days=days), variant_series=vseries.get(name))
            sigs.add(("daily", name))
        # billing: reads every ~30 days
        reads = pd.date_range(idx[0], idx[-1], freq="30D")
        if len(reads) >= 3:
            meter = pd.Series([round(rng.uniform(300, 600), 1) for _ in reads], index=reads, name="observed")
            meter.iloc[-1] = np.nan
            bm = BillingModel.from_dict(shaped_doc(combo, bsettings))
            bouts = {}
            bvariants = variants(meter.iloc[:-1], rng)
            for name, v in bvariants.items():
                try:
                    vv = None if v is None else pd.concat([v, meter.iloc[-1:]])
                    rd = BillingReportingData.from_series(vv, temp.copy(), is_electricity_data=True)
                    bouts[name] = bm.predict(rd)
                except Exception as e:  # noqa
                    res["hist"][f"billing_variant_failed:{name}:{type(e).__name__}"] = res["hist"].get(f"billing_variant_failed:{name}:{type(e).__name__}", 0) + 1
            for name, o in bouts.items():
                if name != "as_metered" and "as_metered" in bouts:
                    compare(bouts["as_metered"], o, name, "billing", res, dict(start=start, days=days), variant_series=bvariants.get(name))
                sigs.add(("billing", name))

    # ---- hourly (fitted on a full synthetic year: every month and weekday covered); the second model is fitted on an
    # exporting (net-metered) meter without irradiance, so that part of its counterfactual is NEGATIVE
    hm = fitted_hourly()
    from opendsm.eemeter.models.hourly.data import HourlyBaselineData
    exp_df = synth_hourly(days=365, seed=2)
    hod = exp_df.index.hour.to_numpy()
    exp_df["observed"] = exp_df["observed"] - 3.2 * np.clip(np.sin((hod - 6) / 12 * np.pi), 0, None)
    hm_exp = HourlyModel().fit(HourlyBaselineData(exp_df, is_electricity_data=False), ignore_disqualification=True)
    hourly_models = [("ordinary", hm.to_json(), True)] + [("exporting", hm_exp.to_json(), False)]
    # a baseline that covers every month and weekday, but whose March Saturdays each lack 13 daytime hours of usage (a meter outage on
    # every Saturday of one month): still every calendar cell is covered, so the property's hypothesis holds
    gap_df = synth_hourly(days=365, seed=3)
    # the site has distinct weekday and weekend load shapes (otherwise every calendar cell looks alike and any matching agrees)
    wk_bump = lambda ix: 1.2 * ((ix.dayofweek >= 5) & (ix.hour >= 9) & (ix.hour < 17))  # noqa
    gap_df["observed"] = gap_df["observed"] + wk_bump(gap_df.index)
    gmask = (gap_df.index.month == 3) & (gap_df.index.dayofweek == 5) & (gap_df.index.hour >= 7) & (gap_df.index.hour < 20)
    gap_df.loc[gmask, "observed"] = np.nan
    try:
        hm_gap = HourlyModel().fit(HourlyBaselineData(gap_df, is_electricity_data=True), ignore_disqualification=True)
        hourly_models.append(("saturday_outages_in_march", hm_gap.to_json(), True))
    except Exception as e:  # noqa
        res["hist"]["hourly_gap_baseline_fit_failed:" + type(e).__name__] = 1
    plan = [(hmod, sp) for hmod in hourly_models[:2]
            for sp in ([("2021-03-08", 14), ("2021-10-31", 10)] + ([("2021-06-01", 60)] if thorough else []))][: (3 if not thorough else 99)]
    plan += [(hmod, ("2021-03-01", 21)) for hmod in hourly_models[2:]]
    for (mname, hjs, electric), (start, days) in plan:
        idx = pd.date_range(pd.Timestamp(start, tz=TZ), periods=24 * days, freq="h")
        h = np.arange(len(idx))
        temp = pd.Series(55 + 20 * np.sin(h / 24 * 6.283), index=idx, name="temperature")
        obs = pd.Series(1.5 + 0.5 * np.sin(h / 12.0) ** 2, index=idx, name="observed")
        if mname == "saturday_outages_in_march":
            obs = obs + wk_bump(idx)          # the reporting period has the site's weekend shape too
        outs = {}
        for name, v in variants(obs, rng).items():
            df = pd.DataFrame({"temperature": temp.copy()})
            if v is not None:
                df["observed"] = v.copy()
            try:
                m = HourlyModel.from_json(hjs)
                outs[name] = m.predict(HourlyReportingData(df, is_electricity_data=electric), ignore_disqualification=True)
            except Exception as e:  # noqa
                res["oracle_failures"].append(dict(clause="predict_raises_for_variant", family="hourly", variant=name, start=start, days=days, model=mname,
                                                   error=f"{type(e).__name__}: {str(e)[:100]}"))
        for name, o in outs.items():
            if name != "absent" and "absent" in outs:
                compare(outs["absent"], o, name, "hourly", res, dict(start=start, days=days, model=mname))
            sigs.add(("hourly", mname, name))
        if "absent" in outs:
            res["hist"][f"hourly_{mname}_negative_predictions"] = int((outs["absent"]["predicted"] < 0).sum())

    # ---- overlapping exports: the reporting frame is the concatenation of two exports that re-state some timestamps; the later
    # export carries a REVISED temperature.  The data classes keep the first row of a timestamp (C17), so the weather of a
    # duplicated timestamp is the first export's — whatever the usage column of either copy holds.
    for (mname, hjs, electric) in hourly_models[: (1 if not thorough else 2)]:
        for order in ("appended", "sorted"):
            start, days = "2021-05-03", 10
            idx = pd.date_range(pd.Timestamp(start, tz=TZ), periods=24 * days, freq="h")
            h = np.arange(len(idx))
            temp = pd.Series(55 + 20 * np.sin(h / 24 * 6.283), index=idx, name="temperature")
            obs = pd.Series(1.5 + 0.5 * np.sin(h / 12.0) ** 2, index=idx, name="observed")
            ov = slice(24 * 6, 24 * 8)                                   # two days re-stated by the second export
            a = pd.DataFrame({"temperature": temp, "observed": obs})
            b = pd.DataFrame({"temperature": temp.iloc[ov] + 9.0, "observed": obs.iloc[ov] * 1.1})
            dvars = {"absent": None, "complete": (a["observed"].copy(), b["observed"].copy())}
            blank = a["observed"].copy()
            blank.iloc[ov] = np.nan
            dvars["blank_on_first_copy"] = (blank, b["observed"].copy())
            dvars["blank_on_first_copy_x0.5"] = (blank * 0.5, b["observed"] * 0.5)
            dvars["blank_on_second_copy"] = (a["observed"].copy(), b["observed"] * np.nan)
            outs = {}
            for name, v in dvars.items():
                fa, fb = a[["temperature"]].copy(), b[["temperature"]].copy()
                if v is not None:
                    fa["observed"], fb["observed"] = v[0], v[1]
                df = pd.concat([fa, fb])
                if order == "sorted":
                    df = df.sort_index(kind="stable")
                try:
                    m = HourlyModel.from_json(hjs)
                    outs[name] = m.predict(HourlyReportingData(df, is_electricity_data=electric), ignore_disqualification=True)
                    res["evaluations"] += 1
                except Exception as e:  # noqa
                    res["hist"][f"hourly_dup_failed:{name}:{type(e).__name__}"] = res["hist"].get(f"hourly_dup_failed:{name}:{type(e).__name__}", 0) + 1
            for name, o in outs.items():
                if name != "absent" and "absent" in outs:
                    compare(outs["absent"], o, "overlapping_exports:" + name, "hourly", res, dict(start=start, days=days, model=mname, order=order))
                sigs.add(("hourly_dup", mname, name, order))
    # the same for the daily family (duplicates are removed by `_set_data` of the daily classes)
    for order in ("appended", "sorted"):
        start, days = "2021-04-05", 40
        idx = pd.date_range(pd.Timestamp(start, tz=TZ), periods=days, freq="D")
        T = pd.Series(45 + 25 * np.sin(np.arange(days) / 9.0), index=idx, name="temperature")
        O = pd.Series(20 + 5 * np.cos(np.arange(days) / 5.0), index=idx, name="observed")
        ov = slice(30, 36)
        a = pd.DataFrame({"temperature": T, "observed": O})
        b = pd.DataFrame({"temperature": T.iloc[ov] + 11.0, "observed": O.iloc[ov] * 1.2})
        blank = a["observed"].copy()
        blank.iloc[ov] = np.nan
        dvars = {"complete": (a["observed"].copy(), b["observed"].copy()), "scaled": (a["observed"] * 3.0, b["observed"] * 3.0),
                 "blank_on_first_copy": (blank, b["observed"].copy()), "blank_on_second_copy": (a["observed"].copy(), b["observed"] * np.nan)}
        outs = {}
        for name, v in dvars.items():
            fa, fb = a[["temperature"]].copy(), b[["temperature"]].copy()
            fa["observed"], fb["observed"] = v[0], v[1]
            df = pd.concat([fa, fb])
            if order == "sorted":
                df = df.sort_index(kind="stable")
            try:
                rd = DailyReportingData(df, is_electricity_data=True)
                m = DailyModel.from_dict(shaped_doc("fw-su_sh_wi", dsettings))
                outs[name] = m.predict(rd)
                res["evaluations"] += 1
            except Exception as e:  # noqa
                res["hist"][f"daily_dup_failed:{name}:{type(e).__name__}"] = res["hist"].get(f"daily_dup_failed:{name}:{type(e).__name__}", 0) + 1
        # a blanked usage day has no prediction (C07); where both runs predict, the values must agree
        for name, o in outs.items():
            if name != "complete" and "complete" in outs:
                ra, rb = outs["complete"], o
                common = ra.index.intersection(rb.index)
                av, bv = ra.loc[common, "predicted"].to_numpy(dtype=float), rb.loc[common, "predicted"].to_numpy(dtype=float)
                both = np.isfinite(av) & np.isfinite(bv)
                bad = np.flatnonzero(both & (av != bv))
                if len(bad):
                    i = int(bad[0])
                    res["oracle_failures"].append(dict(clause="prediction_depends_on_observed", family="daily", variant="overlapping_exports:" + name,
                                                       stamp=str(common[i]), reference=float(av[i]), with_variant=float(bv[i]),
                                                       rows_differing=int(len(bad)), order=order))
            sigs.add(("daily_dup", name, order))

    # ---- CalTRACK hourly
    try:
        from opendsm.eemeter.models.hourly_caltrack.wrapper import HourlyModel as CTModel
        from opendsm.eemeter.models.hourly_caltrack.data import HourlyBaselineData as CTB, HourlyReportingData as CTR
        ct = CTModel().fit(CTB(synth_hourly(days=365), is_electricity_data=True))
        for start, days in [("2021-03-08", 14)] + ([("2021-10-25", 21)] if thorough else []):
            idx = pd.date_range(pd.Timestamp(start, tz=TZ), periods=24 * days, freq="h")
            h = np.arange(len(idx))
            temp = pd.Series(55 + 20 * np.sin(h / 24 * 6.283), index=idx, name="temperature")
            obs = pd.Series(1.5 + 0.5 * np.sin(h / 12.0) ** 2, index=idx, name="observed")
            outs = {}
            for name, v in variants(obs, rng).items():
                df = pd.DataFrame({"temperature": temp.copy()})
                if v is not None:
                    df["observed"] = v.copy()
                try:
                    outs[name] = ct.predict(CTR(df, is_electricity_data=True))
                except Exception as e:  # noqa
                    res["oracle_failures"].append(dict(clause="predict_raises_for_variant", family="caltrack", variant=name, start=start,
                                                       error=f"{type(e).__name__}: {str(e)[:100]}"))
            for name, o in outs.items():
                if name != "absent" and "absent" in outs:
                    compare(outs["absent"], o, name, "caltrack", res, dict(start=start, days=days))
                sigs.add(("caltrack", name))
    except Exception as e:  # noqa
        res["hist"]["caltrack_unavailable:" + type(e).__name__] = 1

    # ---- T2: paired synthetic frames through _predict and the Lean model
    lines, expect = [], []
    smap = {i + 1: dsettings["season"][m_] for i, m_ in enumerate(pframe.MONTHS)}
    wlabs = [dsettings["weekday_weekend"][d_] for d_ in pframe.DAYS]
    mode = pframe.detect_mask_mode(DailyModel, pframe.make_doc("fw-su_sh_wi", TZ, dsettings))
    for k in range(int((25 if not thorough else 800) * scale)):
        n = rng.choice([2, 20, 120])
        idx = pd.date_range(pd.Timestamp(2021, rng.randrange(1, 13), rng.randrange(1, 28), tz=TZ), periods=n, freq="D")
        T = np.array([np.nan if rng.random() < 0.1 else round(rng.uniform(0, 100), 1) for _ in range(n)])
        combo = rng.choice(["fw-su_sh_wi", "fw-sh_wi__wd-su__we-su", "wd-su_sh_wi__we-su_sh_wi"])
        model = DailyModel.from_dict(pframe.make_doc(combo, TZ, dsettings))
        base = None
        for name in ("absent", "a", "b"):
            df = pd.DataFrame({"temperature": T}, index=idx)
            if name != "absent":
                df["observed"] = [np.nan if rng.random() < 0.15 else round(rng.uniform(1, 50), 2) for _ in range(n)]
            o = model._predict(df.copy())
            res["evaluations"] += 1
            if base is None:
                base = o
            else:
                compare(base, o, "synthetic_" + name, "daily", res, dict(split=combo, rows=n))
            lines.append(pframe.frame_line(mode, name != "absent", combo, wlabs, smap, df))
            expect.append(pframe.canon_out(o, name != "absent", combo.split("__")))
        sigs.add(("pair", combo, n > 2))
    if ctx.get("model_ok", True):
        outs_ = core.run_driver(lines)
        for o_, e_ in zip(outs_, expect):
            res["traces"] += 1
            if o_.strip() != e_.strip():
                res["disagreements"].append(dict(op="pframe", lean=o_[:300], impl=e_[:300]))
    res["samples"] = [dict(family="daily", variants=list(variants(pd.Series([1.0, 2.0, 3.0]), random.Random(0)).keys())), dict(model_line=lines[0][:160] if lines else None)]
    res["distinct_nontrivial"] = len(sigs)
    res["rule"] = ("paired public predict() runs per family (daily, billing, hourly fitted on a full year, CalTRACK hourly) over spans that include "
                   "DST changes, observed as metered / x3.5 / x0.001 / shuffled / 10% NaN / all NaN / exact zero reads / x0 / negated / partly negative / absolute / huge / column absent (hourly also with a model fitted on an exporting meter, whose counterfactual is partly negative), "
                   "every variant built from its own copies of the input; paired synthetic frames through _predict and the Lean model. "
                   "distinct = (family, variant), (split, size)")
    return res


def replay_finding(entry):
    """C05-F1 witness: leading NaN usage readings change the first day's temperature of DailyReportingData.from_series"""
    from opendsm.eemeter.models.daily.data import DailyReportingData
    w = entry["witness"]
    idx = pd.date_range(pd.Timestamp(w["start"], tz=w["tz"]), periods=24 * w["days"], freq="h")
    temp = pd.Series(55 + 22 * np.sin(np.arange(len(idx)) / 8760 * 6.283 - 2) + 5 * np.sin(np.arange(len(idx)) / 24 * 6.283), index=idx, name="temperature")
    obs = pd.Series(1.0 + np.abs(np.sin(np.arange(len(idx)) / 24.0)), index=idx, name="observed")
    obs.iloc[: w["leading_nan_readings"]] = np.nan
    a = DailyReportingData.from_series(None, temp.copy(), is_electricity_data=True).df["temperature"].iloc[0]
    b = DailyReportingData.from_series(obs, temp.copy(), is_electricity_data=True).df["temperature"].iloc[0]
    return bool(a != b)


def replay(obj):
    r = run(dict(tier="quick", seed=obj.get("seed", 0), model_ok=False, findings=[]))
    return r["oracle_failures"]


LEVEL_TEXT = ("Lean 4 theorems (daily/billing): on the executable model of _predict's frame assembly every produced prediction is the curve of "
              "the routed sub-model at the row's temperature — a function of temperature, calendar and the stored model only; two rows "
              "with equal weather get equal predictions whatever their usage cells and whether or not a usage column exists; usage can only "
              "remove a prediction. For the hourly and CalTRACK families the numeric cores are parameters: non-interference is established "
              "by paired public predict() runs (oracle), not by proof — partial for those families. T1 (all five model classes): every statement on a "
              "predict path that mentions the usage column is re-extracted from the source on every run (Gen/UsageReads) and proved equal to a frozen, "
              "reviewed list with the role of each site (mask, row filter, aggregation into itself, fit-only, matching of calendar cells the baseline "
              "never saw, CalTRACK uncertainty): theorem C05_src_usage_reads_are_the_reviewed_ones.")
LEVEL_NOTE = ("Trusted: Lean kernel + standard axioms; hand model of the frame assembly validated by T2; for hourly/CalTRACK only the "
              "paired-run oracle speaks (the feature pipeline and ElasticNet/WLS are not modelled); hourly premise: the baseline covers "
              "every calendar month and weekday (the synthetic year does).")
TECHNIQUE = ("Lean 4 proof (non-interference on the daily/billing frame model; the statements that touch the usage column on every predict path, "
             "re-extracted from the source on every run, are proved to be exactly the reviewed list) + paired-run differential oracle for all four families")
ASSUMPTIONS = ["routing reads the calendar only (C13)", "hourly and CalTRACK numeric cores are external parameters (partial)"]
