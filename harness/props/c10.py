"""C10 — sufficiency verdicts are exactly the published criteria.

T2: the real Daily/Billing/Hourly SufficiencyCriteria (called by the data classes; the frame they
receive and the verdict they return are captured by wrapping `check_sufficiency_*` inside this
process) vs. the Lean model (`EEM.Model.Sufficiency.verdict`) on the same frame.
Oracle: an independent evaluation of the published criteria from the GENERATED INPUT (local days,
hours present per day, local calendar months), compared with `data.disqualification`."""
from __future__ import annotations

import math
import random
import warnings
from fractions import Fraction

import numpy as np
import pandas as pd

from .. import core
from .c08 import minute, quiet

ID = "C10"
LEAN_MODULE = "EEM.Props.C10"
BUILD_TARGETS = ["EEM.Props.C10"]
MODEL_TARGETS = ["EEM.Model.Sufficiency", "EEM.Model.SufficiencyPlan"]
DESIGN_REF = "DESIGN.md §5 C10"

P = "eemeter.sufficiency_criteria."
ZONES = ["America/New_York", "Europe/Berlin", "Australia/Sydney", "America/Los_Angeles", "Asia/Tokyo", "UTC", "Pacific/Auckland", "America/Chicago"]
CAPTURED = []


def _install_capture():
    from opendsm.eemeter.common import sufficiency_criteria as sc
    for cls, fam in ((sc.DailySufficiencyCriteria, "daily"), (sc.BillingSufficiencyCriteria, "billing"), (sc.HourlySufficiencyCriteria, "hourly")):
        for name in ("check_sufficiency_baseline", "check_sufficiency_reporting"):
            f = cls.__dict__.get(name)
            if f is None or getattr(f, "_verif_wrapped", False):
                continue

            def make(orig, fam=fam, name=name):
                def wrapped(self):
                    frame = self.data.copy()
                    r = orig(self)
                    CAPTURED.append(dict(family=fam, which=name, frame=frame, reporting=bool(self.is_reporting_data),
                                         electric=bool(self.is_electricity_data), n_days_total=self.n_days_total,
                                         dq=sorted(w.qualified_name for w in self.disqualification)))
                    return r
                wrapped._verif_wrapped = True
                return wrapped
            setattr(cls, name, make(f))


# --------------------------------------------------------------------------- generation
def gen_daily(rng: random.Random):
    tz = rng.choice(ZONES)
    n = rng.choice([250, 300, 327, 328, 329, 330, 340, 350, 364, 365, 366, 367, 400, 420])
    start = pd.Timestamp(rng.choice(["2021-01-01", "2021-03-01", "2021-11-10", "2020-10-20", "2021-06-30", "2021-02-14"]), tz=tz)
    baseline = rng.random() < 0.7
    electric = rng.random() < 0.6
    need = math.ceil(0.9 * n)                      # valid days needed when the whole span counts
    slack = n - need
    style = rng.choice(["perfect", "meter_at_line", "meter_under", "temp_at_line", "temp_under", "both_mixed", "month_edge", "partial_hours", "ends_missing"])
    miss_obs, miss_temp_days, partial = set(), set(), {}
    interior = list(range(1, n - 1))
    if style == "meter_at_line":
        miss_obs.update(rng.sample(interior, max(0, slack - 1)))
    elif style == "meter_under":
        miss_obs.update(rng.sample(interior, slack + rng.choice([0, 1, 2])))
    elif style == "temp_at_line":
        miss_temp_days.update(rng.sample(interior, max(0, slack - 1)))
    elif style == "temp_under":
        miss_temp_days.update(rng.sample(interior, slack + rng.choice([0, 1, 2])))
    elif style == "both_mixed":
        k = slack + rng.choice([-2, -1, 0, 1])
        ds = rng.sample(interior, max(0, k))
        miss_obs.update(ds[: len(ds) // 2])
        miss_temp_days.update(ds[len(ds) // 2:])
    elif style == "month_edge":
        # a block of missing temperature days touching the first / last local day of a calendar month
        days = pd.date_range(start, periods=n, freq="D")
        # (the block must stay inside the series: 4 <= i, so that "the last days of the previous month" are not negative positions,
        # which Python would read as the END of the series — leading / trailing missing temperature is trimmed by the class by design)
        mstarts = [i for i, d in enumerate(days) if d.day == 1 and 4 < i < n - 6]
        if mstarts:
            i0 = rng.choice(mstarts)
            k = rng.choice([3, 4])
            if rng.random() < 0.5:
                miss_temp_days.update(range(i0, i0 + k))               # first days of the month
            else:
                miss_temp_days.update(range(i0 - k, i0))               # last days of the previous month
    elif style == "partial_hours":
        for d in rng.sample(interior, min(len(interior), rng.choice([5, slack, slack + 2]))):
            partial[d] = rng.choice([21, 22, 12, 13, 2])                # hours PRESENT that day
    elif style == "ends_missing":
        k = rng.choice([1, 3, 10])
        miss_obs.update(range(0, k) if rng.random() < 0.5 else range(n - k, n))
    negatives = sorted(rng.sample(interior, 2)) if (not electric and rng.random() < 0.3) else []
    extreme = rng.random() < 0.2
    return dict(kind="daily", tz=tz, start=start.isoformat(), n=n, baseline=baseline, electric=electric, style=style,
                miss_obs=sorted(miss_obs), miss_temp_days=sorted(miss_temp_days), partial={str(k): v for k, v in partial.items()},
                negatives=negatives, extreme=extreme,
                entry=rng.choice(["frame", "from_series"] + (["daily_frame"] if not partial else [])))


def build_daily(case):
    from opendsm.eemeter.models.daily.data import DailyBaselineData, DailyReportingData
    tz, n = case["tz"], case["n"]
    start = pd.Timestamp(case["start"]).tz_convert(tz)
    days = pd.date_range(start, periods=n, freq="D")
    end = (days[-1].tz_localize(None) + pd.Timedelta(days=1)).tz_localize(tz)
    hours = pd.date_range(days[0], end, freq="h", inclusive="left")
    obs = 10.0 + (np.arange(n) % 9)
    if case["extreme"]:
        obs[n // 2] = 500.0
    for i in case["negatives"]:
        obs[i] = -3.0
    for i in case["miss_obs"]:
        obs[i] = np.nan
    meter = pd.Series(obs, index=days, name="observed")
    temp = pd.Series(50.0 + (np.arange(len(hours)) % 24), index=hours, name="temperature")
    dlabel = hours.strftime("%Y-%m-%d")
    dstr = days.strftime("%Y-%m-%d")
    for i in case["miss_temp_days"]:
        temp[dlabel == dstr[i]] = np.nan
    for k, present in case["partial"].items():
        idx = np.where(dlabel == dstr[int(k)])[0]
        temp.iloc[idx[present:]] = np.nan
    cls = DailyBaselineData if case["baseline"] else DailyReportingData
    CAPTURED.clear()
    if case["entry"] == "daily_frame":
        # a frame at daily frequency: one temperature value per day (the day's mean), no sub-daily readings at all
        dtemp = pd.Series(50.0 + (np.arange(n) % 24), index=days, name="temperature")
        for i in case["miss_temp_days"]:
            dtemp.iloc[i] = np.nan
        data = quiet(cls, pd.DataFrame({"temperature": dtemp, "observed": meter}), is_electricity_data=case["electric"])
        return data, days, days, meter, dtemp
    if case["entry"] == "from_series":
        data = quiet(cls.from_series, meter, temp, is_electricity_data=case["electric"])
    else:
        frame = temp.to_frame().join(meter, how="left")
        if case.get("dup_first_nan"):
            # duplicated timestamps: on these days a provisional record (no usage yet) precedes the final one. The classes keep the
            # FIRST record of a timestamp (CalTRACK 2.3.2.2), so these days count as days without usage
            stamps = [days[i] for i in case["dup_first_nan"]]
            prov = frame.loc[stamps].copy()
            prov["observed"] = np.nan
            frame = pd.concat([prov, frame]).sort_index(kind="stable")
            meter = meter.copy()
            meter.loc[stamps] = np.nan
        data = quiet(cls, frame, is_electricity_data=case["electric"])
    return data, days, hours, meter, temp


def expected_daily(case, days, hours, meter, temp):
    """the published criteria evaluated on the generated input"""
    n = case["n"]
    dlabel = pd.Series(hours.strftime("%Y-%m-%d"), index=hours)
    grp = temp.notna().groupby(dlabel.values)
    present = grp.sum()
    total = grp.count() + (temp.isna().groupby(dlabel.values).sum() * 0)     # count() of bool series counts all
    total = temp.groupby(dlabel.values).size()
    dstr = list(days.strftime("%Y-%m-%d"))
    obs_valid = [not math.isnan(v) for v in meter.values]
    temp_present = [2 * int(present[d]) > int(total[d]) for d in dstr]                      # the 50 % rule
    temp_cov_ok = [Fraction(int(present[d]), int(total[d])) > Fraction(9, 10) for d in dstr]  # the 90 % hourly coverage rule
    complete = [o and t for o, t in zip(obs_valid, temp_present)] if case["baseline"] else temp_present
    if not case["baseline"]:
        # reporting frames keep the observed column only when some usage exists; usage NaN then also breaks completeness
        complete = [o and t for o, t in zip(obs_valid, temp_present)] if any(obs_valid) else temp_present
    exp = set()
    if not any(complete):
        return {P + "no_data"}, None
    first, last = complete.index(True), n - 1 - complete[::-1].index(True)
    n_total = last - first + 1                       # local calendar days, inclusive
    both = [o and t for o, t in zip(obs_valid, temp_cov_ok)] if case["baseline"] else temp_cov_ok
    # every row counts one day, the last row of the frame counts none (its period is open-ended)
    cnt = lambda m: sum(1 for x in m[:-1] if x)
    if case["baseline"] and not case["electric"] and any(v < 0 for v in meter.values if not math.isnan(v)):
        exp.add(P + "negative_meter_values")
    if case["baseline"] and (n_total > 365 or n_total < 329):
        exp.add(P + "incorrect_number_of_total_days")
    if 10 * cnt(both) < 9 * n_total:
        exp.add(P + "too_many_days_with_missing_data")
    if case["baseline"] and 10 * cnt(obs_valid) < 9 * n_total:
        exp.add(P + "too_many_days_with_missing_meter_data")
    if 10 * cnt(temp_cov_ok) < 9 * n_total:
        exp.add(P + "too_many_days_with_missing_temperature_data")
    months = {}
    for d, tp in zip(days, temp_present):
        months.setdefault(d.month, []).append(tp)
    if any(10 * sum(v) < 9 * len(v) for v in months.values()):
        exp.add(P + "missing_monthly_temperature_data")
    return exp, dict(n_days_total=n_total, first=dstr[first], last=dstr[last], valid_both=cnt(both), valid_meter=cnt(obs_valid), valid_temp=cnt(temp_cov_ok))


def gen_billing(rng: random.Random):
    tz = rng.choice(ZONES)
    start = pd.Timestamp(rng.choice(["2021-01-05", "2020-11-17", "2021-03-02"]), tz=tz)
    n = rng.choice([11, 12, 13])
    lens = [rng.choice([28, 29, 30, 31, 32, 33]) for _ in range(n)]
    if rng.random() < 0.3:
        lens[rng.randrange(n)] = rng.choice([12, 40])          # an off-cycle period
    return dict(kind="billing", style=rng.choice(["perfect", "temp_block", "temp_scattered", "missing_bill"]), tz=tz, start=start.isoformat(),
                lens=lens, baseline=rng.random() < 0.7, electric=rng.random() < 0.6, k=rng.choice([20, 36, 37, 38, 60]))


def build_billing(case):
    from opendsm.eemeter.models.billing.data import BillingBaselineData, BillingReportingData
    tz = case["tz"]
    start = pd.Timestamp(case["start"]).tz_convert(tz)
    dates = [start]
    for L in case["lens"]:
        dates.append((dates[-1].tz_localize(None) + pd.Timedelta(days=L)).tz_localize(tz))
    vals = [300.0 + 10 * i for i in range(len(case["lens"]))] + [np.nan]
    if case["style"] == "missing_bill":
        vals[len(vals) // 2] = np.nan
    meter = pd.Series(vals, index=pd.DatetimeIndex(dates), name="observed")
    hours = pd.date_range(dates[0], dates[-1], freq="h")
    temp = pd.Series(50.0 + (np.arange(len(hours)) % 24), index=hours, name="temperature")
    r = random.Random(case["k"])
    if case["style"] == "temp_block":
        i0 = r.randrange(24 * 20, len(hours) - 24 * 70)
        temp.iloc[i0:i0 + 24 * case["k"]] = np.nan
    elif case["style"] == "temp_scattered":
        for d in r.sample(range(5, len(hours) // 24 - 5), case["k"]):
            temp.iloc[24 * d:24 * d + 24] = np.nan
    cls = BillingBaselineData if case["baseline"] else BillingReportingData
    CAPTURED.clear()
    data = quiet(cls.from_series, meter, temp, is_electricity_data=case["electric"])
    return data


def gen_hourly(rng: random.Random):
    tz = rng.choice(ZONES)
    n_days = rng.choice([329, 340, 365])
    start = pd.Timestamp(rng.choice(["2021-01-01", "2021-03-01", "2020-11-10"]), tz=tz)
    style = rng.choice(["perfect", "month_edge_temp", "month_edge_obs", "scattered", "temp_only", "usage_20pct_missing", "usage_5pct_missing"])
    baseline = rng.random() < 0.6 and style != "temp_only"
    return dict(kind="hourly", tz=tz, start=start.isoformat(), n_days=n_days, style=style, baseline=baseline,
                electric=rng.random() < 0.6, k=rng.choice([70, 71, 72, 73, 74, 75]), at_start=rng.random() < 0.5,
                month_pick=rng.randrange(1, 9),
                # optional irradiance column (solar sites): absent / complete / a block of missing hours at a month edge
                # (72 of 720 hours is exactly the 90 % line; 96 = four days is clearly under it, 48 clearly over)
                ghi=rng.choice([None, None, "complete", "gap", "gap", "gap"]), ghi_k=rng.choice([48, 70, 71, 72, 73, 74, 75, 96]),
                ghi_month_pick=rng.randrange(1, 9))


def build_hourly(case):
    from opendsm.eemeter.models.hourly.data import HourlyBaselineData, HourlyReportingData
    tz = case["tz"]
    start = pd.Timestamp(case["start"]).tz_convert(tz)
    end = (start.tz_localize(None) + pd.Timedelta(days=case["n_days"])).tz_localize(tz)
    idx = pd.date_range(start, end, freq="h", inclusive="left")
    obs = pd.Series(1.0 + (np.arange(len(idx)) % 7), index=idx, name="observed")
    temp = pd.Series(50.0 + (np.arange(len(idx)) % 24), index=idx, name="temperature")
    firsts = [i for i, t in enumerate(idx) if t.day == 1 and t.hour == 0 and 200 < i < len(idx) - 200]
    k = case["k"]
    if firsts and case["style"] in ("month_edge_temp", "month_edge_obs"):
        i0 = firsts[case["month_pick"] % len(firsts)]
        sl = slice(i0, i0 + k) if case["at_start"] else slice(i0 - k, i0)
        # single missing hours, every other hour, so that nothing is interpolated away as a short gap? (the class
        # marks every filled hour as interpolated and the sufficiency frame blanks them again)
        if case["style"] == "month_edge_temp":
            temp.iloc[sl] = np.nan
        else:
            obs.iloc[sl] = np.nan
    elif case["style"] == "scattered":
        r = random.Random(case["k"])
        for i in r.sample(range(10, len(idx) - 10), 400):
            temp.iloc[i] = np.nan
    elif case["style"] in ("usage_20pct_missing", "usage_5pct_missing"):
        step = 5 if case["style"] == "usage_20pct_missing" else 20
        obs.iloc[np.arange(7, len(idx) - 7, step)] = np.nan
    cls = HourlyBaselineData if case["baseline"] else HourlyReportingData
    CAPTURED.clear()
    extra = []
    case["_ghi_present"] = None
    if case.get("ghi"):
        ghi = pd.Series(np.maximum(0.0, 600.0 * np.sin((np.arange(len(idx)) % 24 - 6) / 12 * np.pi)), index=idx, name="ghi")
        if case["ghi"] == "gap" and firsts:
            j0 = firsts[case["ghi_month_pick"] % len(firsts)]
            ghi.iloc[j0:j0 + case["ghi_k"]] = np.nan
        extra = [ghi]
        case["_ghi_present"] = ghi.notna().values
    if case["style"] == "temp_only":
        obs[:] = np.nan
        data = quiet(cls, pd.concat([temp] + extra, axis=1), is_electricity_data=case["electric"])
    else:
        data = quiet(cls, pd.concat([obs, temp] + extra, axis=1), is_electricity_data=case["electric"])
    return data, idx, obs, temp


def expected_hourly(case, idx, obs, temp):
    """the published criteria hour by hour; months are LOCAL calendar months.  Reporting data is judged on temperature alone
    (meter data is optional for the reporting classes)."""
    exp = set()
    tp = temp.notna().values
    op = obs.notna().values
    base = case["baseline"]
    complete = (tp & op) if base else tp
    if not complete.any():
        return {P + "no_data"}, None
    wall = idx.tz_localize(None)
    first, last = int(np.argmax(complete)), len(complete) - 1 - int(np.argmax(complete[::-1]))
    n_total = (wall[last] - wall[first]).days + 1
    hours = lambda m: int(np.sum(m[:-1])) // 24            # every row counts 1/24 day, the last row none; int() floors
    both = (tp & op) if base else tp
    if base and (n_total > 365 or n_total < 329):
        exp.add(P + "incorrect_number_of_total_days")
    if 10 * hours(both) < 9 * n_total:
        exp.add(P + "too_many_days_with_missing_data")
    if base and 10 * hours(op) < 9 * n_total:
        exp.add(P + "too_many_days_with_missing_meter_data")
    if 10 * hours(tp) < 9 * n_total:
        exp.add(P + "too_many_days_with_missing_temperature_data")
    months = {}
    for t, a, b in zip(idx, tp, op):
        m = months.setdefault(t.month, [0, 0, 0])
        m[0] += 1
        m[1] += int(a)
        m[2] += int(b)
    if any(10 * m[1] < 9 * m[0] for m in months.values()):
        exp.add(P + "missing_monthly_temperature_data")
    if base and any(10 * m[2] < 9 * m[0] for m in months.values()):
        exp.add(P + "missing_monthly_meter_data")
    gp = case.get("_ghi_present")
    if gp is not None:
        # irradiance, when supplied, is held to the same monthly 90 % line — for baseline AND reporting data
        gm = {}
        for t, g in zip(idx, gp):
            m = gm.setdefault(t.month, [0, 0])
            m[0] += 1
            m[1] += int(g)
        if any(10 * m[1] < 9 * m[0] for m in gm.values()):
            exp.add(P + "missing_monthly_ghi_data")
    return exp, dict(n_days_total=n_total, valid_both=hours(both), valid_meter=hours(op), valid_temp=hours(tp))


# --------------------------------------------------------------------------- frame -> model rows
def frame_rows(cap):
    f = cap["frame"]
    cols = set(f.columns)
    obs = f["observed"] if "observed" in cols else pd.Series(np.nan, index=f.index)
    nn = f["temperature_not_null"] if "temperature_not_null" in cols else pd.Series(np.nan, index=f.index)
    nl = f["temperature_null"] if "temperature_null" in cols else pd.Series(np.nan, index=f.index)
    ratio = (nn / (nn + nl)).values
    comp = f.notna().all(axis=1).values
    ghi = f["ghi"].notna().values if "ghi" in cols else None
    rows = []
    for i, t in enumerate(f.index):
        o = obs.iloc[i]
        rows.append(",".join([str(minute(t.tz_localize(None))), str(t.month), "1" if not pd.isna(o) else "0", "1" if (not pd.isna(o) and o < 0) else "0",
                              "1" if not pd.isna(f["temperature"].iloc[i]) else "0",
                              "1" if (not math.isnan(ratio[i]) and ratio[i] > 0.9) else "0",
                              "-" if ghi is None else ("1" if ghi[i] else "0"), "1" if comp[i] else "0"]))
    return rows


DQ_KNOWN = {"no_data", "negative_meter_values", "incorrect_number_of_total_days", "too_many_days_with_missing_data",
            "too_many_days_with_missing_meter_data", "too_many_days_with_missing_temperature_data",
            "missing_monthly_temperature_data", "missing_monthly_meter_data", "missing_monthly_ghi_data"}


def one_case(case, res, sigs, lines, metas):
    res["evaluations"] += 1
    small = dict(case)
    try:
        if case["kind"] == "daily":
            data, days, hours, meter, temp = build_daily(case)
            exp, info = expected_daily(case, days, hours, meter, temp)
            compare_names = None
        elif case["kind"] == "billing":
            # billing frames: verdict function vs the real BillingSufficiencyCriteria on the captured frame (correspondence only)
            data = build_billing(case)
            exp, info, compare_names = set(), None, set()
        else:
            data, idx, obs, temp = build_hourly(case)
            exp, info = expected_hourly(case, idx, obs, temp)
            compare_names = None
    except Exception as e:  # noqa
        res["oracle_failures"].append(dict(case=small, clause="accepted", detail=dict(error=f"{type(e).__name__}: {e}"[:300])))
        return
    got = {w.qualified_name for w in data.disqualification}
    warn = {w.qualified_name for w in data.warnings}
    res["hist"][f"{case['kind']}:{case['style']}"] = res["hist"].get(f"{case['kind']}:{case['style']}", 0) + 1
    # every reported disqualification counts: a name outside the published criteria (an off-cycle read, an extreme value, ... reported
    # as a disqualification instead of a warning) is "reported although no criterion is violated"
    g2 = set(got)
    outside = sorted(x for x in got if not (x.startswith(P) and x[len(P):] in DQ_KNOWN))
    if outside:
        # (also for billing frames, whose verdict is otherwise compared through the captured frame only)
        res["oracle_failures"].append(dict(case=small, clause="disqualification_outside_the_published_criteria",
                                           detail=dict(reported=outside, note="off-cycle reads, extreme values, UTC indexes and unverifiable "
                                                       "temperature coverage are warnings; they never change the verdict")))
        g2 -= set(outside)
    if compare_names is not None:
        g2, e2 = g2 & compare_names, exp & compare_names
    else:
        e2 = exp
    sigs.add((case["kind"], case["style"], case.get("baseline"), case.get("electric"), tuple(sorted(x[len(P):] for x in g2))))
    if g2 != e2:
        res["oracle_failures"].append(dict(case=small, clause="verdict_is_exactly_the_violated_criteria",
                                           detail=dict(reported_not_violated=sorted(g2 - e2), violated_not_reported=sorted(e2 - g2),
                                                       reference=info, captured_n_days_total=[c["n_days_total"] for c in CAPTURED][-1:])))
    if case.get("extreme") and case.get("baseline") and not (P + "extreme_values_detected") in warn and not math.isnan(500.0):
        if case["n"] // 2 not in case["miss_obs"]:
            res["oracle_failures"].append(dict(case=small, clause="extreme_values_are_a_warning", detail=dict(warnings=sorted(warn))))
    for cap in CAPTURED[-1:]:
        lines.append(" ".join(["suff", cap["family"], "1" if cap["which"] == "check_sufficiency_reporting" else "0",
                               "1" if cap["reporting"] else "0", "1" if cap["electric"] else "0"] + frame_rows(cap)))
        metas.append((small, cap["dq"], cap["n_days_total"]))


def run(ctx):
    warnings.filterwarnings("ignore")
    _install_capture()
    rng = random.Random(ctx["seed"] * 31337 + 10)
    thorough = ctx["tier"] == "thorough"
    scale = ctx.get("budget_scale", 1)
    res = dict(evaluations=0, disagreements=[], oracle_failures=[], finding_instances={}, samples=[], hist={}, traces=0)
    sigs = set()
    lines, metas = [], []
    for case in ctx.get("corpus", []):
        one_case(case, res, sigs, lines, metas)
    # directed, every run: a month's temperature coverage one day under the 90 % line (25 of 28 days), one of the days also
    # without usage, on a span that contains the spring clock change only, as a daily-frequency frame and as an hourly one
    for tzname in ("America/Chicago", "Europe/Berlin"):
        for entry in ("daily_frame", "frame", "from_series"):
            for miss_obs in ([72], [72, 80], []):
                one_case(dict(kind="daily", tz=tzname, start=pd.Timestamp("2020-12-01", tz=tzname).isoformat(), n=335, baseline=True,
                              electric=True, style="month_line_spring_span", miss_obs=miss_obs, miss_temp_days=[71, 72, 73], partial={},
                              negatives=[], extreme=False, entry=entry), res, sigs, lines, metas)
    # directed, every run: duplicated timestamps whose first record has no usage, on enough days to cross the 90 % line
    for tzname in ("America/Chicago", "Asia/Tokyo"):
        one_case(dict(kind="daily", tz=tzname, start=pd.Timestamp("2021-01-01", tz=tzname).isoformat(), n=340, baseline=True, electric=True,
                      style="provisional_records_first", miss_obs=[], miss_temp_days=[], partial={}, negatives=[], extreme=False, entry="frame",
                      dup_first_nan=list(range(20, 300, 7))), res, sigs, lines, metas)
    # directed, every run: a billing calendar with one off-cycle period (12 days) and one with a 40-day period
    for off in (12, 40):
        one_case(dict(kind="billing", style="perfect", tz="America/Chicago", start=pd.Timestamp("2021-01-05", tz="America/Chicago").isoformat(),
                      lens=[30, 31, 29, off, 30, 31, 30, 31, 30, 31, 30, 31], baseline=True, electric=True, k=20), res, sigs, lines, metas)
    # directed, every run: the irradiance criterion on both data classes, just on and just under the 90 % line
    for baseline in (True, False):
        for ghi_k in (72, 73):
            case = gen_hourly(rng)
            case.update(style="perfect", baseline=baseline, ghi="gap", ghi_k=ghi_k)
            one_case(case, res, sigs, lines, metas)
    n = int((44 if not thorough else 700) * scale)
    for i in range(n):
        case = gen_hourly(rng) if i % 11 == 10 else (gen_billing(rng) if i % 11 in (4, 8) else gen_daily(rng))
        one_case(case, res, sigs, lines, metas)
        if len(res["samples"]) < 3:
            res["samples"].append(case)
    if ctx.get("model_ok", True) and lines:
        outs = core.run_driver(lines)
        for out, (small, dq, ndt) in zip(outs, metas):
            res["traces"] += 1
            if not out.startswith("ok "):
                res["disagreements"].append(dict(op="suff", case=small, model_out=out[:200]))
                continue
            parts = out[3:].split(" ")
            model_n = parts[0].split("=")[1]
            model_dq = sorted(P + x for x in parts[1:] if x)
            impl_dq = sorted(x for x in dq if x.startswith(P) and x[len(P):] in DQ_KNOWN)
            if model_dq != impl_dq or (model_n != "none" and ndt is not None and not (isinstance(ndt, float) and math.isnan(ndt)) and int(model_n) != int(ndt)):
                res["disagreements"].append(dict(op="suff", case=small, lean=dict(n_days_total=model_n, dq=model_dq),
                                                 impl=dict(n_days_total=ndt, dq=impl_dq)))
    res["distinct_nontrivial"] = len(sigs)
    res["rule"] = ("daily data classes (baseline/reporting, electric/gas, frame/from_series, eight zones) on spans 250-420 days with missing usage "
                   "days, missing temperature days and partially covered days placed so that each 90 % fraction is one under / at / one over the "
                   "line, blocks of missing temperature touching the first / last local day of a calendar month, negative and extreme values, "
                   "missing days at either end; hourly data classes with blocks of 70-75 missing hours at a local month edge; distinct = new "
                   "(kind, style, class flags, reported set)")
    return res


def _run_case(case):
    _install_capture()
    res = dict(evaluations=0, disagreements=[], oracle_failures=[], finding_instances={}, samples=[], hist={}, traces=0)
    one_case(case, res, set(), [], [])
    return res


def replay_finding(entry):
    r = _run_case(entry["witness"]["case"])
    return bool(r["finding_instances"].get(entry["id"])) or bool(r["oracle_failures"])


def replay(obj):
    return _run_case(obj["case"])["oracle_failures"]


LEVEL_TEXT = ("Lean 4 theorems about the verdict function of SufficiencyCriteria: a disqualification is in the reported list if and only if its "
              "criterion is violated (all nine names, every frame with a complete row), the 90 % tests are the exact integer comparison "
              "10*n_valid < 9*n_total, the length test is the closed interval 329..365, valid-day counts are monotone in the validity mask and "
              "equal the number of valid rows on whole-day frames. The verdict function is compared with the real classes on the frames the data "
              "classes hand them; the data classes' verdicts are compared with the criteria evaluated on the generated input. "
              "T1: the *plan* of the three criteria classes is re-extracted from the source on every run (Gen/SufficiencyPlan: the _check_* methods each "
              "entry point runs, in order, and for every disqualification the guard around its append - boolean structure, comparison operator, "
              "threshold with field defaults and local constants folded - plus the criteria class, flag and entry point used by each of the six data "
              "classes); theorem C10_src_plan_is_verdict proves that interpreting that plan yields exactly the model's verdict for every family, "
              "entry point and flag, C10_src_reported_iff_violated restates 'reported iff violated' on the source's plan, "
              "C10_src_call_sites_consistent that every data class calls the entry point matching the flag it passes, "
              "C10_src_warning_checks_never_disqualify that the warning-only checks cannot change the verdict.")
LEVEL_NOTE = ("Hand model of sufficiency_criteria.py, its verdict structure tied to the source by T1 (the plan); the quantities the guards compare "
              "(valid-day fractions, monthly coverage, count of negative readings) are recognised by the text of their defining expressions and "
              "validated by T2 only; the reduction of a frame row to the fields the checks read is done by the harness; float "
              "division n_valid/float(n_total) vs exact rationals is outside the theorem (T2 covers thresholds one under / at / one over). "
              "Frames are captured by wrapping check_sufficiency_* inside the harness process.")
TECHNIQUE = ("Lean 4 proof (membership iff criterion for every disqualification, exact rational thresholds; the plan regenerated from the source "
             "on every run is proved equal to the model's verdict) + differential correspondence with the sufficiency classes")
ASSUMPTIONS = ["n_valid/float(n_total) < 0.9 agrees with the exact comparison for n_total <= 10^6 (argued in DESIGN.md, exercised at the thresholds)",
               "requested_start / requested_end are not passed by the data classes and are not modelled",
               "hourly frames: interpolated hours count as missing (the sufficiency frame blanks them), as in the class"]
