"""C18 — CalTRACK hourly: each hour belongs to its own month; bin features sum to T.

T1: weight tables / prediction mapping re-extracted from the live code (Gen/CaltrackTables).
T2: real `segment_time_series`, `SegmentedModel.predict` (with stub segment models, so no fit
is needed), `compute_temperature_bin_features`, the feature processors' occupancy masking and
`compute_time_features` vs. the Lean model."""
from __future__ import annotations

import datetime as dt
import itertools
import random
import zoneinfo

import numpy as np
import pandas as pd

from .. import core
from ..core import fhex, unhex

ID = "C18"
LEAN_MODULE = "EEM.Props.C18"
BUILD_TARGETS = ["EEM.Props.C18"]
MODEL_TARGETS = ["EEM.Model.Caltrack", "EEM.Model.DailyCurve", "EEM.Proto"]
MONTHS = ["jan", "feb", "mar", "apr", "may", "jun", "jul", "aug", "sep", "oct", "nov", "dec"]
TYPES = ["single", "one_month", "three_month", "three_month_weighted"]
CAND = [30, 45, 55, 65, 75, 90]


ABBR = ["jan", "feb", "mar", "apr", "may", "jun", "jul", "aug", "sep", "oct", "nov", "dec"]


def expected_fit_name(m):
    return "-".join([MONTHS[(m - 2) % 12], MONTHS[m - 1], MONTHS[m % 12]]) + "-weighted"


class StubSegmentModel:
    """stands in for a fitted CalTRACKSegmentModel: predicts a constant that identifies it"""
    def __init__(self, name, code):
        self.segment_name = name
        self.code = code

    def predict(self, data):
        return pd.Series(float(self.code), index=data.index)


def local_secs(idx):
    """wall-clock seconds since 1970-01-01 of each stamp (utc + offset in force)"""
    utc = idx.tz_convert("UTC").tz_localize(None)
    secs = ((utc - pd.Timestamp("1970-01-01")) // pd.Timedelta(seconds=1)).to_numpy()
    off = np.array([int(t.utcoffset().total_seconds()) for t in idx])
    return secs + off


def run(ctx):
    from opendsm.eemeter.models.hourly_caltrack.segmentation import segment_time_series, SegmentedModel
    from opendsm.eemeter.models.hourly_caltrack.model import _PredictionSegmentInfo
    from opendsm.eemeter.common.features import compute_temperature_bin_features, compute_time_features

    rng = random.Random(ctx["seed"] * 7919 + 18)
    thorough = ctx["tier"] == "thorough"
    scale = ctx.get("budget_scale", 1)
    zones = ["America/Chicago", "UTC"] + (["Australia/Sydney", "Asia/Kolkata", "America/St_Johns", "Europe/London"] if thorough or scale > 1 else [])
    years = [2020] + ([2019] if thorough or scale > 1 else [])
    res = dict(evaluations=0, disagreements=[], oracle_failures=[], finding_instances={}, samples=[],
               hist={}, traces=0)
    sigs = set()
    lines, metas = [], []

    # ---- (1) segmentation rows, prediction routing and hour-of-week for every hour of the year(s)
    all_fit = [expected_fit_name(m) for m in range(1, 13)]
    info = _PredictionSegmentInfo("three_month_weighted")
    for zone, year in itertools.product(zones, years):
        idx = pd.date_range(f"{year}-01-01", f"{year + 1}-01-01", freq="h", tz=zone, inclusive="left")
        ls = local_secs(idx)
        res["hist"][f"hours[{zone},{year}]"] = len(idx)
        # thin the per-hour model queries: every hour near month boundaries / DST, every 7th elsewhere
        day_of_month = idx.day.to_numpy()
        keep = (day_of_month <= 1) | (day_of_month >= 28) | (np.arange(len(idx)) % 7 == 0)
        if thorough:
            keep[:] = True
        for ty in TYPES:
            w = segment_time_series(idx, ty)
            cols = list(w.columns)
            vals = w.to_numpy()
            for i in np.nonzero(keep)[0]:
                lines.append(f"segrow {ty} {int(ls[i])}")
                metas.append(("segrow", ty, str(idx[i]), cols, vals[i]))
            # oracle on the implementation, every hour
            if ty == "three_month_weighted":
                months = idx.month.to_numpy()
                for i in range(len(idx)):
                    m = int(months[i])
                    exp = {expected_fit_name(m): 1.0, expected_fit_name((m - 2) % 12 + 1): 0.5,
                           expected_fit_name(m % 12 + 1): 0.5}
                    got = {c: float(v) for c, v in zip(cols, vals[i]) if v != 0}
                    res["evaluations"] += 1
                    if got != exp:
                        res["oracle_failures"].append(dict(clause="fit_weights", zone=zone, stamp=str(idx[i]),
                                                           got=got, expected=exp))
                        break
        # prediction routing through the real SegmentedModel.predict with stub models
        for fitted in ([all_fit] + ([all_fit[:5] + all_fit[7:]] if True else [])):
            models = [StubSegmentModel(n, 4 ** all_fit.index(n)) for n in fitted]
            sm = SegmentedModel(models, prediction_segment_type=info.prediction_segment_type,
                                prediction_segment_name_mapping=info.prediction_segment_name_mapping,
                                prediction_feature_processor=lambda name, data, **kw: data,
                                prediction_feature_processor_kwargs={})
            temp = pd.Series(60.0, index=idx)
            pred = sm.predict(idx, temp).result["predicted_usage"].to_numpy()
            months = idx.month.to_numpy()
            ftag = "ALL" if len(fitted) == 12 else ",".join(fitted)
            for i in range(len(idx)):
                m = int(months[i])
                own = expected_fit_name(m)
                exp = float(4 ** all_fit.index(own)) if own in fitted else float("nan")
                res["evaluations"] += 1
                if not (pred[i] == exp or (pred[i] != pred[i] and exp != exp)):
                    res["oracle_failures"].append(dict(clause="predict_own_month", zone=zone, stamp=str(idx[i]),
                                                       predicted_code=float(pred[i]), expected_code=exp,
                                                       note="prediction of hour is not exactly its own month's segment model with weight 1"))
                    break
            for i in np.nonzero(keep)[0][::5]:
                lines.append(f"contribs {int(ls[i])} {ftag}")
                metas.append(("contribs", str(idx[i]), pred[i], all_fit))
        # hour of week
        tf = compute_time_features(idx)
        how = tf["hour_of_week"].astype(int).to_numpy()
        for i in range(len(idx)):
            t = idx[i]
            py = t.to_pydatetime()
            exp = 24 * py.weekday() + py.hour
            res["evaluations"] += 1
            if how[i] != exp:
                res["oracle_failures"].append(dict(clause="hour_of_week", zone=zone, stamp=str(t), got=int(how[i]), expected=exp))
                break
        sigs.add(("how_values", len(set(how.tolist()))))
        for i in np.nonzero(keep)[0]:
            lines.append(f"how {int(ls[i])}")
            metas.append(("how", str(idx[i]), int(how[i]), int(idx[i].month), int(idx[i].year), int(idx[i].day)))
        sigs.add(("zone", zone, year))

    # ---- (1b) the weight of an hour does not depend on what else the index contains: partial and non-contiguous indexes
    # (a baseline that does not reach into some month must still give that month's neighbours their half weight)
    partial_windows = [("two weeks of january", [("2020-01-06", "2020-01-20")]), ("feb..dec", [("2019-02-01", "2020-01-01")]),
                       ("one day", [("2020-07-04", "2020-07-05")]), ("across a month edge", [("2020-03-20", "2020-04-10")]),
                       ("two separate stretches", [("2020-02-10", "2020-02-20"), ("2020-09-25", "2020-10-05")])]
    for zone in zones[: (2 if not thorough else 6)]:
        for label, stretches in partial_windows:
            idx = pd.DatetimeIndex([]).tz_localize(zone)
            for a, b in stretches:
                idx = idx.append(pd.date_range(a, b, freq="h", tz=zone, inclusive="left"))
            months = idx.month.to_numpy()
            for drop in (False, True):
                try:
                    w = segment_time_series(idx, "three_month_weighted", drop_zero_weight_segments=drop)
                except Exception as e:  # noqa
                    res["oracle_failures"].append(dict(clause="fit_weights_partial_index_raises", zone=zone, index=label, drop_zero_weight_segments=drop,
                                                       error=f"{type(e).__name__}: {str(e)[:100]}"))
                    continue
                cols = list(w.columns)
                vals = w.to_numpy()
                want_cols = set()
                bad = None
                for i in range(len(idx)):
                    m = int(months[i])
                    exp = {expected_fit_name(m): 1.0, expected_fit_name((m - 2) % 12 + 1): 0.5, expected_fit_name(m % 12 + 1): 0.5}
                    want_cols |= set(exp)
                    got = {c: float(v) for c, v in zip(cols, vals[i]) if v != 0}
                    res["evaluations"] += 1
                    if got != exp and bad is None:
                        bad = dict(clause="fit_weights", zone=zone, index=label, drop_zero_weight_segments=drop, stamp=str(idx[i]), got=got, expected=exp)
                if bad is not None:
                    res["oracle_failures"].append(bad)
                elif drop and set(cols) != want_cols:
                    res["oracle_failures"].append(dict(clause="fit_segments_kept", zone=zone, index=label, kept=sorted(cols), expected=sorted(want_cols)))
                sigs.add(("partial_index", label, drop))
                if not drop:
                    ls_p = local_secs(idx)
                    for i in range(0, len(idx), 29):
                        lines.append(f"segrow three_month_weighted {int(ls_p[i])}")
                        metas.append(("segrow", "three_month_weighted", str(idx[i]), cols, vals[i]))

    # ---- (1c) the same instants seen from several zones, one after the other in this process (a portfolio pulled from a UTC store and
    # converted per site): each site's hours belong to ITS local months, whatever was segmented before
    idx_u = pd.date_range("2020-12-20", "2021-02-10", freq="h", tz="UTC", inclusive="left")
    for zone in ["UTC", "America/Los_Angeles", "Asia/Kolkata", "Pacific/Auckland", "UTC"]:
        idx = idx_u.tz_convert(zone)
        months = idx.month.to_numpy()
        for ty in ("three_month_weighted", "one_month"):
            w = segment_time_series(idx, ty)
            cols = list(w.columns)
            vals = w.to_numpy()
            for i in range(len(idx)):
                m = int(months[i])
                if ty == "three_month_weighted":
                    exp = {expected_fit_name(m): 1.0, expected_fit_name((m - 2) % 12 + 1): 0.5, expected_fit_name(m % 12 + 1): 0.5}
                else:
                    exp = None
                got = {c: float(v) for c, v in zip(cols, vals[i]) if v != 0}
                res["evaluations"] += 1
                bad = (got != exp) if exp is not None else (len(got) != 1 or not any(ABBR[m - 1] in c.lower() for c in got))
                if bad:
                    res["oracle_failures"].append(dict(clause="fit_weights", zone=zone, segment_type=ty, index="same instants as the other zones (UTC range converted)",
                                                       stamp=str(idx[i]), got=got, expected=exp if exp is not None else f"full weight in the segment of month {m} only"))
                    break
        sigs.add(("same_instants_other_zone", zone))

    # invalid segment type
    try:
        segment_time_series(pd.date_range("2020-01-01", periods=3, freq="h", tz="UTC"), "bogus")
        impl_bad = "no error"
    except ValueError:
        impl_bad = "ValueError"
    lines.append("segrow bogus 0")
    metas.append(("segbad", impl_bad))

    # ---- (2) temperature bins: all 64 subsets of the candidate endpoints x temperatures on/between/beyond
    temps = sorted(set([float(e) for e in CAND] + [e + d for e in CAND for d in (-0.5, 0.5, 1e-9, -1e-9)] +
                       [-40.0, 0.0, 29.999, 120.0, 200.5] + [round(rng.uniform(-30, 130), rng.choice([0, 2, 6])) for _ in range(int(20 * scale))]))
    subsets = [list(s) for r in range(7) for s in itertools.combinations(CAND, r)]
    tser = pd.Series(temps + [np.nan], index=pd.date_range("2020-01-01", periods=len(temps) + 1, freq="h", tz="UTC"))
    for es in subsets:
        df = compute_temperature_bin_features(tser, [float(e) for e in es])
        arr = df.to_numpy()
        sigs.add(("bins", len(es)))
        for i, T in enumerate(temps):
            row = arr[i]
            res["evaluations"] += 1
            if abs(float(np.sum(row)) - T) > 1e-9 * max(1.0, abs(T)):
                res["oracle_failures"].append(dict(clause="bins_sum_to_T", T=T, endpoints=es, features=row.tolist()))
                break
            # filled in order
            edges = [-np.inf] + [float(e) for e in es] + [np.inf]
            okfill = True
            for j in range(1, len(row)):
                width_prev = edges[j] - edges[j - 1]
                if row[j] > 0 and j - 1 > 0 and row[j - 1] != width_prev:
                    okfill = False
                if row[j] < 0 or (j < len(row) - 1 and row[j] > edges[j + 1] - edges[j]):
                    okfill = False
            if not okfill:
                res["oracle_failures"].append(dict(clause="bins_filled_in_order", T=T, endpoints=es, features=row.tolist()))
                break
            lines.append("bins " + " ".join(fhex(v) for v in [T] + es))
            metas.append(("bins", T, es, row))
        if not np.all(np.isnan(arr[-1])):
            res["oracle_failures"].append(dict(clause="bins_nan_masked", endpoints=es, features=arr[-1].tolist()))

    # ---- (3) occupancy masking through the real fit feature processor
    from opendsm.eemeter.models.hourly_caltrack.model import caltrack_hourly_fit_feature_processor
    idx = pd.date_range("2020-03-02", periods=168, freq="h", tz="UTC")
    tvals = [round(rng.uniform(20, 100), 1) for _ in range(168)]
    seg = pd.DataFrame({"meter_value": 1.0, "temperature_mean": tvals, "hour_of_week": pd.Categorical(range(168)),
                        "weight": 1.0}, index=idx)
    for _ in range(3 if not thorough else 12):
        occ = [rng.randint(0, 1) for _ in range(168)]
        occ_lookup = pd.DataFrame({"seg": occ}, index=pd.Categorical(range(168)))
        e_o = sorted(rng.sample(CAND, rng.randint(0, 6)))
        e_u = sorted(rng.sample(CAND, rng.randint(0, 6)))
        ob = pd.DataFrame({"seg": [e in e_o for e in CAND]}, index=pd.Series(CAND, name="bin_endpoints"))
        ub = pd.DataFrame({"seg": [e in e_u for e in CAND]}, index=pd.Series(CAND, name="bin_endpoints"))
        f = caltrack_hourly_fit_feature_processor("seg", seg.copy(), occ_lookup, ob, ub)
        oc = [c for c in f.columns if c.endswith("_occupied")]
        uc = [c for c in f.columns if c.endswith("_unoccupied")]
        fo, fu = f[oc].to_numpy(), f[uc].to_numpy()
        for i in range(168):
            res["evaluations"] += 1
            if np.any(fo[i] != 0) and np.any(fu[i] != 0):
                res["oracle_failures"].append(dict(clause="occupied_unoccupied_exclusive", hour=i, occupancy=occ[i],
                                                   occupied=fo[i].tolist(), unoccupied=fu[i].tolist()))
                break
            lines.append(f"occbins {occ[i]} {fhex(tvals[i])} {len(e_o)} " + " ".join(fhex(e) for e in e_o + e_u))
            metas.append(("occbins", occ[i], tvals[i], e_o, e_u, list(fo[i]) + list(fu[i])))
        sigs.add(("occ", len(e_o), len(e_u)))

    # ---- model side
    if ctx.get("model_ok", True):
        outs = core.run_driver(lines)
        for out, meta in zip(outs, metas):
            res["traces"] += 1
            kind = meta[0]
            if kind == "segrow":
                _, ty, stamp, cols, vals = meta
                exp = "ok " + " ".join(f"{c}:{int(round(float(v) * 2))}" for c, v in zip(cols, vals))
                if out != exp:
                    res["disagreements"].append(dict(op="segrow", type=ty, stamp=stamp, lean=out[:300], impl=exp[:300]))
            elif kind == "segbad":
                if out != "ok ValueError" or meta[1] != "ValueError":
                    res["disagreements"].append(dict(op="segrow bogus", lean=out, impl=meta[1]))
            elif kind == "contribs":
                _, stamp, code, all_fit_ = meta
                parts = out[3:].split() if out.startswith("ok") else None
                val = float("nan")
                if parts is not None and parts:
                    val = sum(4 ** all_fit_.index(p.split(":")[0]) * int(p.split(":")[1]) / 2 for p in parts)
                if not (val == code or (val != val and code != code)):
                    res["disagreements"].append(dict(op="contribs", stamp=stamp, lean=out, impl_code=float(code)))
            elif kind == "how":
                _, stamp, how_i, month, year, day = meta
                f = out.split()
                if len(f) < 7 or int(f[1]) != how_i or int(f[2]) != month or int(f[5]) != year or int(f[6]) != day:
                    res["disagreements"].append(dict(op="how", stamp=stamp, lean=out, impl=[how_i, month, year, day]))
            elif kind == "bins":
                _, T, es, row = meta
                cells = out[3:].split()
                if len(cells) != len(row) or any(c != fhex(v) and unhex(c) != float(v) for c, v in zip(cells, row)):
                    res["disagreements"].append(dict(op="bins", T=T, endpoints=es, lean=[unhex(c) for c in cells], impl=list(map(float, row))))
            elif kind == "occbins":
                _, o, T, e_o, e_u, row = meta
                cells = out[3:].split()
                if len(cells) != len(row) or any(unhex(c) != float(v) for c, v in zip(cells, row)):
                    res["disagreements"].append(dict(op="occbins", occ=o, T=T, e_o=e_o, e_u=e_u,
                                                     lean=[unhex(c) for c in cells], impl=list(map(float, row))))
    res["samples"] = [dict(op=m[0], detail=core.jsonable([str(x)[:80] for x in m[1:4]])) for m in metas[:2]] + \
                     [dict(op="bins", T=temps[3], endpoints=CAND)]
    res["distinct_nontrivial"] = len(sigs)
    res["exhaustive"] = thorough
    res["rule"] = ("every hour of the listed (zone, year) pairs x the four segmentation types (oracle on every hour; model "
                   "queried on all hours near month ends and every 7th otherwise, all hours in the thorough tier); prediction routing "
                   "through the real SegmentedModel.predict with stub segment models, with all and with some segments fitted; all 64 "
                   "subsets of the candidate endpoints x temperatures on, next to, between and beyond them; occupancy masking through "
                   "the real fit feature processor. distinct = (zone, year), number of endpoints, occupancy layouts, hour-of-week value count")
    return res


def replay_finding(entry):
    return False


def replay(obj):
    # re-run the quick oracle; the witness names the clause
    r = run(dict(tier="quick", seed=0, model_ok=False))
    return [f for f in r["oracle_failures"] if f.get("clause") == obj.get("clause")] or r["oracle_failures"]

DESIGN_REF = "DESIGN.md §5 C18"
LEVEL_TEXT = ("Lean 4 theorems: the segmentation weight tables and the prediction segment mapping are re-extracted from the live "
              "code on every run and the partition / own-month routing facts are closed by `decide` over the complete tables; "
              "bin features sum to T and fill in order for every sorted endpoint list and every real temperature (induction); "
              "occupied/unoccupied exclusivity; hour-of-week = 24*weekday+hour in [0,168) for every instant and all 168 values occur. "
              "The hand models (segment_time_series row lookup by local month, SegmentedModel.predict combination, bins, masking, "
              "calendar arithmetic) are tied to the real functions by an exhaustive differential run over every hour of the year(s).")
LEVEL_NOTE = ("Trusted: Lean kernel + standard axioms; the table extractor (evaluates the weight functions on one timestamp per "
              "calendar month: that they depend on the local month only is validated by T2 on every hour); hand models of pandas "
              "reindex/sum(min_count=1)/merge; a missing occupancy value (NaN) is outside the exclusivity theorem.")
TECHNIQUE = "Lean 4 proof (decide over regenerated tables; induction over endpoint lists over R) + exhaustive differential correspondence"
ASSUMPTIONS = ["per-segment regression (statsmodels WLS) is a parameter: routing is proved for any per-segment predictor",
               "occupancy lookup covers the hour of week (NaN occupancy excluded from the exclusivity clause)"]
