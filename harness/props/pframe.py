"""Shared by C05/C06/C07: drive the real `DailyModel._predict` / `predict` and the Lean model
`EEM.Model.PredictFrame` on the same frames."""
from __future__ import annotations

import datetime as dt
import itertools
import math
import random

import numpy as np
import pandas as pd

from ..core import fhex

MONTHS = ["january", "february", "march", "april", "may", "june", "july", "august", "september",
          "october", "november", "december"]
DAYS = ["monday", "tuesday", "wednesday", "thursday", "friday", "saturday", "sunday"]


def tidd(c, f_unc=1.0):
    return dict(coefficients=dict(model_type="tidd", intercept=c, hdd_bp=None, hdd_beta=None, hdd_k=None,
                                  cdd_bp=None, cdd_beta=None, cdd_k=None),
                temperature_constraints=dict(T_min=0.0, T_max=100.0, T_min_seg=10.0, T_max_seg=90.0), f_unc=f_unc)


def make_doc(combo, tz, settings):
    comps = combo.split("__")
    return dict(submodels={c: tidd(float(i + 1)) for i, c in enumerate(comps)},
                info=dict(error={}, baseline_timezone=tz, disqualification=[], warnings=[]), settings=settings)


def detect_mask_mode(model_cls, doc):
    """measure how the masking statement of _predict behaves on the current tree"""
    m = model_cls.from_dict(doc)
    idx = pd.date_range("2021-03-01", periods=3, freq="D", tz=doc["info"]["baseline_timezone"])
    df = pd.DataFrame({"temperature": [np.nan, np.inf, 50.0], "observed": [1.0, 2.0, 3.0]}, index=idx)
    out = m._predict(df.copy())
    o = out["observed"].to_numpy()
    if o[0] == 1.0:
        return "noOp"
    if o[1] == 2.0:
        return "nanOnly"
    return "nonFinite"


def cell_tok(x):
    x = float(x)
    if x != x:
        return "n"
    if math.isinf(x):
        return "i"
    return fhex(x)


def frame_line(mode, has_obs, combo, wlabs, season_of_month, df):
    parts = ["pframe", mode, "1" if has_obs else "0", combo, ",".join(wlabs)]
    secs = (df.index.tz_convert("UTC").tz_localize(None) - pd.Timestamp("1970-01-01")) // pd.Timedelta(seconds=1)
    obs = df["observed"].to_numpy(dtype=float) if has_obs else np.zeros(len(df))
    for s, ts, T, o in zip(secs, df.index, df["temperature"].to_numpy(dtype=float), obs):
        d = dt.date(ts.year, ts.month, ts.day)
        parts += [str(int(s)), season_of_month[ts.month], str(d.weekday() + 1), cell_tok(T), cell_tok(o) if has_obs else "n"]
    return " ".join(parts)


def canon_out(out, has_obs, comps):
    """canonical output rows of the implementation, same shape as the driver's"""
    secs = (out.index.tz_convert("UTC").tz_localize(None) - pd.Timestamp("1970-01-01")) // pd.Timedelta(seconds=1)
    rows = []
    obs = out["observed"].to_numpy(dtype=float) if has_obs and "observed" in out.columns else [None] * len(out)
    for s, T, o, p, sp in zip(secs, out["temperature"].to_numpy(dtype=float), obs, out["predicted"].to_numpy(dtype=float),
                              out["model_split"]):
        if p != p:
            pred = "-"
        else:
            # the sub-models are flat with intercept = 1 + position of the component
            k = int(round(p)) - 1
            pred = comps[k] if 0 <= k < len(comps) and p == float(k + 1) and sp == comps[k] else f"?{p}/{sp}"
        rows.append(f"{int(s)}:{cell_tok(T)}:{cell_tok(o) if has_obs else 'x'}:{pred}")
    return "ok " + " ".join(rows)
