"""C17 — hourly data preparation keeps what was measured and flags what was filled.

T2: real HourlyBaselineData / HourlyReportingData on on-the-hour inputs (4 days - 2 years, any
start/end hour, NaN cells, absent rows, duplicated and unsorted rows, zeros, with/without ghi,
electric/gas, several zones incl. frames that start or end on a DST day) vs. the Lean model
(EEM.Model.HourlyPrep: dedupe, zero rule, reindex, keep/fill/flag pattern).  Oracle: data.df cell
by cell against the input — index is exactly the whole local days from the first to the last
supplied day, supplied finite values unchanged, filled <=> flagged, nothing missing unless a
column was empty, first duplicate wins."""
from __future__ import annotations

import datetime as dt
import random
import warnings

import numpy as np
import pandas as pd

from .. import core
from ..core import fhex

ID = "C17"
LEAN_MODULE = "EEM.Props.C17"
BUILD_TARGETS = ["EEM.Props.C17"]
MODEL_TARGETS = ["EEM.Model.HourlyPrep", "EEM.Proto"]
DESIGN_REF = "DESIGN.md §5 C17"
ZONES = ["America/Chicago", "America/New_York", "UTC", "Australia/Sydney", "Europe/London", "Asia/Kolkata", "America/Los_Angeles"]
DST_END_DAYS = {"America/New_York": ["2021-11-07", "2021-03-14"], "America/Los_Angeles": ["2021-03-14", "2021-11-07"],
                "Australia/Sydney": ["2022-04-03", "2021-10-03"], "Europe/London": ["2021-10-31", "2021-03-28"],
                "America/Chicago": ["2021-11-07", "2021-03-14"]}


def expected_index(tz, first_ts, last_ts):
    """every existing local hour from 00:00 of the first supplied local day to 23:xx of the last, on the real clock"""
    z = first_ts.tz
    d0 = first_ts.date()
    d1 = last_ts.date()
    start = pd.Timestamp(dt.datetime.combine(d0, dt.time(0))).tz_localize(z, ambiguous=True, nonexistent="shift_forward")
    end_excl = pd.Timestamp(dt.datetime.combine(d1 + dt.timedelta(days=1), dt.time(0))).tz_localize(z, ambiguous=True, nonexistent="shift_forward")
    idx = pd.date_range(start.tz_convert("UTC"), end_excl.tz_convert("UTC"), freq="h", inclusive="left").tz_convert(z)
    return idx[(idx.date >= d0) & (idx.date <= d1)]


def gen_input(rng, thorough):
    tz = rng.choice(ZONES)
    days = rng.choice([4, 5, 10, 30, 120] + ([400, 730] if thorough else []))
    start_hour = rng.choice([0, 0, 5, 13, 23])
    end_trim = rng.choice([0, 0, 3, 11, 23])
    if tz in DST_END_DAYS and rng.random() < 0.35:          # frame that ENDS (or starts) on a DST day
        end_day = pd.Timestamp(rng.choice(DST_END_DAYS[tz]))
        first = end_day - pd.Timedelta(days=days - 1)
        if rng.random() < 0.25:
            first = end_day                                   # starts on it instead
    else:
        first = pd.Timestamp(2021, rng.randrange(1, 13), rng.randrange(1, 28))
    start = first.tz_localize(tz, ambiguous=True, nonexistent="shift_forward") + pd.Timedelta(hours=start_hour)
    # end: last local day `days` later at 23:00 minus trim (wall clock through UTC arithmetic)
    last_day = (first + pd.Timedelta(days=days - 1)).date()
    end = pd.Timestamp(dt.datetime.combine(last_day, dt.time(23))).tz_localize(tz, ambiguous=False, nonexistent="shift_forward") - pd.Timedelta(hours=end_trim)
    if end <= start:
        end = start + pd.Timedelta(hours=30)
    idx = pd.date_range(start.tz_convert("UTC"), end.tz_convert("UTC"), freq="h").tz_convert(tz)
    n = len(idx)
    h = np.arange(n)
    df = pd.DataFrame({"temperature": np.round(55 + 20 * np.sin(h / 24 * 6.283) + rng.random(), 3),
                       "observed": np.round(1.0 + np.abs(np.sin(h / 12.0)) + rng.random() * 0.1, 4)}, index=idx)
    with_ghi = rng.random() < 0.3
    if with_ghi:
        df["ghi"] = np.round(np.maximum(0, 500 * np.sin((h % 24 - 6) / 12 * np.pi)), 2)
    electric = rng.random() < 0.6
    if rng.random() < 0.3:
        # a net-metered site: usage goes negative while the panels export (legitimate for electricity; for gas it only
        # raises a sufficiency flag, the values are still the supplied ones)
        df["observed"] = np.round(df["observed"] - 1.6, 4)
    # NaN cells, zeros
    for col in df.columns:
        for _ in range(rng.randrange(0, 6)):
            a = rng.randrange(0, n)
            df.iloc[a:a + rng.choice([1, 1, 2, 7, 30]), df.columns.get_loc(col)] = np.nan
    for _ in range(rng.randrange(0, 4)):
        df.iloc[rng.randrange(0, n), df.columns.get_loc("observed")] = 0.0
    if rng.random() < 0.08:
        df[rng.choice(list(df.columns))] = np.nan            # a whole column empty
    # absent rows (never the first or the last: they define the span)
    if n > 10:
        drop = set()
        for _ in range(rng.randrange(0, 5)):
            a = rng.randrange(1, n - 1)
            drop |= set(range(a, min(n - 1, a + rng.choice([1, 3, 26]))))
        df = df.drop(df.index[sorted(drop)])
    # duplicated rows (different values: the first must win) and unsorted order
    dup_first = {}
    if rng.random() < 0.5 and len(df) > 5:
        pos = sorted(rng.sample(range(len(df)), min(3, len(df))))
        dups = df.iloc[pos].copy()
        dups["temperature"] = dups["temperature"] + 100.0
        df = pd.concat([df, dups])                            # duplicates come AFTER the originals: originals are first
    if rng.random() < 0.3:
        df = df.sample(frac=1.0, random_state=rng.randrange(10 ** 6))   # unsorted; order among duplicates is then arbitrary but known
    return tz, df, electric, with_ghi


def first_values(df):
    """first row (input order) of each timestamp"""
    return df[~df.index.duplicated(keep="first")]


def run(ctx):
    warnings.filterwarnings("ignore")
    from opendsm.eemeter.models.hourly.data import HourlyBaselineData, HourlyReportingData
    rng = random.Random(ctx["seed"] * 179424673 + 17)
    thorough = ctx["tier"] == "thorough"
    n_cases = int((60 if not thorough else 2500) * ctx.get("budget_scale", 1))
    res = dict(evaluations=0, disagreements=[], oracle_failures=[], finding_instances={}, samples=[], hist={}, traces=0)
    findings = {e["id"] for e in ctx.get("findings", []) if e.get("status") == "finding"}
    sigs = set()
    lines, expect = [], []
    def complete_unordered(j):
        """every hour of whole local days present (NaN cells allowed), delivered out of chronological order: newest first, two
        exports appended later-first, or shuffled — the frame must still come back as the ascending whole-day range"""
        tz = ZONES[j % len(ZONES)]
        days = [3, 40, 61][j % 3]
        first = pd.Timestamp(2021, 1 + (5 * j) % 12, 1 + (7 * j) % 27)
        start = first.tz_localize(tz, ambiguous=True, nonexistent="shift_forward")
        end = pd.Timestamp(dt.datetime.combine((first + pd.Timedelta(days=days - 1)).date(), dt.time(23))).tz_localize(tz, ambiguous=False, nonexistent="shift_forward")
        idx = pd.date_range(start.tz_convert("UTC"), end.tz_convert("UTC"), freq="h").tz_convert(tz)
        h = np.arange(len(idx))
        df = pd.DataFrame({"temperature": np.round(50 + 15 * np.sin(h / 24 * 6.283), 3), "observed": np.round(2.0 + np.abs(np.sin(h / 12.0)), 4)}, index=idx)
        df.iloc[5:8, 0] = np.nan
        how = ["newest_first", "later_export_first", "shuffled"][(j // 3) % 3]
        if how == "newest_first":
            df = df.iloc[::-1]
        elif how == "later_export_first":
            df = pd.concat([df.iloc[len(df) // 2:], df.iloc[: len(df) // 2]])
        else:
            df = df.sample(frac=1.0, random_state=j)
        return tz, df, bool(j % 2), False

    n_directed = 9 if not thorough else 27
    for k in range(n_cases + n_directed):
        tz, df, electric, with_ghi = gen_input(rng, thorough) if k >= n_directed else complete_unordered(k)
        cls = HourlyBaselineData if k % 2 == 0 else HourlyReportingData
        desc = dict(zone=tz, rows=len(df), first=str(df.index.min()), last=str(df.index.max()), electric=electric, ghi=with_ghi, data_class=cls.__name__,
                    sorted=bool(df.index.is_monotonic_increasing), duplicated=int(df.index.duplicated().sum()))
        try:
            obj = cls(df.copy(), is_electricity_data=electric)
        except Exception as e:  # noqa
            res["hist"]["rejected:" + type(e).__name__] = res["hist"].get("rejected:" + type(e).__name__, 0) + 1
            continue
        out = obj.df
        res["evaluations"] += 1
        fv = first_values(df)
        exp_idx = expected_index(tz, df.index.min(), df.index.max())
        fails = []
        if not out.index.equals(exp_idx):
            extra = out.index.difference(exp_idx)
            missing = exp_idx.difference(out.index)
            f_ = ("index_is_not_the_whole_local_days", dict(extra_rows=[str(x) for x in extra[:3]], missing_rows=[str(x) for x in missing[:3]],
                                                            rows_out=len(out), rows_expected=len(exp_idx)))
            if "C06-F4" in findings and len(extra) == 1 and len(missing) <= 1:
                d_ = res["finding_instances"].setdefault("C06-F4", dict(count=0, example=None))
                d_["count"] += 1
                d_["example"] = d_["example"] or dict(case=desc, detail=f_[1])
            else:
                fails.append(f_)
        cols = ["temperature", "observed"] + (["ghi"] if with_ghi else [])
        common = fv.index.intersection(out.index)
        for col in cols:
            src = fv.loc[common, col].to_numpy(dtype=float)
            if col == "observed" and electric:
                src = np.where(src == 0, np.nan, src)
            got = out.loc[common, col].to_numpy(dtype=float)
            sup = np.isfinite(src)
            bad = sup & (got != src)
            if bad.any():
                i = int(np.nonzero(bad)[0][0])
                fails.append(("supplied_value_changed", dict(column=col, stamp=str(common[i]), supplied=float(src[i]), output=float(got[i]))))
            flag = out[f"interpolated_{col}"].to_numpy(dtype=bool) if f"interpolated_{col}" in out.columns else None
            if flag is None:
                fails.append(("flag_column_missing", dict(column=col)))
                continue
            # supplied mask on the OUTPUT index
            sup_out = pd.Series(False, index=out.index)
            sup_out.loc[common] = sup
            val = out[col].to_numpy(dtype=float)
            should = (~sup_out.to_numpy()) & np.isfinite(val)
            if not np.array_equal(flag, should):
                i = int(np.nonzero(flag != should)[0][0])
                fails.append(("flag_is_not_filled", dict(column=col, stamp=str(out.index[i]), flagged=bool(flag[i]), supplied=bool(sup_out.iloc[i]),
                                                        value=float(val[i]))))
            if sup.any() and not np.isfinite(val).all():
                fails.append(("value_remains_missing", dict(column=col, missing=int((~np.isfinite(val)).sum()))))
            if not sup.any() and np.isfinite(val).any():
                fails.append(("values_invented_for_empty_column", dict(column=col)))
        for f in fails[:1]:
            res["oracle_failures"].append(dict(clause=f[0], detail=f[1], case=desc))
        sigs.add((tz, desc["sorted"], desc["duplicated"] > 0, electric, with_ghi, len(out) > 24 * 21, len(out) > 24 * 3))
        # model: dedupe + zero rule + reindex + keep/fill/flag pattern for one column
        col = rng.choice(cols)
        secs = ((df.index.tz_convert("UTC").tz_localize(None) - pd.Timestamp("1970-01-01")) // pd.Timedelta(seconds=1)).to_numpy()
        vals = df[col].to_numpy(dtype=float)
        osecs = ((out.index.tz_convert("UTC").tz_localize(None) - pd.Timestamp("1970-01-01")) // pd.Timedelta(seconds=1)).to_numpy()
        if len(df) <= 900:
            lines.append(f"hprep {1 if (electric and col == 'observed') else 0} {int(osecs[0])} {int(osecs[-1])} " +
                         " ".join(f"{int(s)}:{'-' if v != v else fhex(v)}" for s, v in zip(secs, vals)))
            flag = out[f"interpolated_{col}"].to_numpy(dtype=bool)
            val = out[col].to_numpy(dtype=float)
            expect.append("ok " + "".join(("F" if f else ("P" if np.isfinite(v) else "M")) for f, v in zip(flag, val)))
        if len(res["samples"]) < 3:
            res["samples"].append(desc)
    if ctx.get("model_ok", True) and lines:
        outs = core.run_driver(lines)
        for o, e in zip(outs, expect):
            res["traces"] += 1
            if o.strip() != e.strip():
                i = next((j for j, (a, b) in enumerate(zip(o, e)) if a != b), -1)
                res["disagreements"].append(dict(op="hprep", first_difference_at=i, lean=o[max(0, i - 20):i + 20], impl=e[max(0, i - 20):i + 20]))
    res["distinct_nontrivial"] = len(sigs)
    res["rule"] = ("on-the-hour frames of 4 days to 4 months (thorough: to 2 years) in seven zones, any start/end hour, 35% ending or starting on "
                   "a DST day, NaN runs of 1-30 cells per column, exact zeros, whole-column-empty, absent rows, duplicated rows with different "
                   "values, shuffled order, with/without ghi, electric/gas, both data classes. distinct = (zone, sorted?, duplicates?, electric?, "
                   "ghi?, length class)")
    return res


def replay_finding(entry):
    return False


def replay(obj):
    r = run(dict(tier="quick", seed=obj.get("seed", 0), model_ok=False, findings=[]))
    return r["oracle_failures"]


LEVEL_TEXT = ("Lean 4 theorems about an executable model of the column preparation, for EVERY choice of the values the filling stages "
              "propose, any number of autocorrelation rounds, any column length and any pattern of missing cells: every supplied value is "
              "unchanged at its position; no supplied value is flagged and a cell is flagged exactly when it was missing and is now present; "
              "if any cell of the column was supplied nothing remains missing (ffill then bfill totalise); zeros become missing for "
              "electricity; the first duplicate wins; the index has no gaps. The model's keep/fill/flag pattern, dedupe, zero rule and "
              "reindex are tied to the real data classes by a differential run, and by a translator table: the preparation plan (order of the "
              "stages of _set_data, the zero rule, keep= of the duplicate removal, the whole-day edges, the fall-back stages and the flag "
              "statements) is re-extracted from the source on every run (Gen/PrepPlan) and proved to be the plan the model composes.")
LEVEL_NOTE = ("Trusted: Lean kernel + standard axioms; the values of filled cells are outside the property and the model; the construction of "
              "the first/last instant of the local days (Timestamp.replace) is checked by the oracle only — known finding C06-F4 for days whose "
              "23:00 does not exist.")
TECHNIQUE = "Lean 4 proof (list inductions for every proposal function) + preparation plan regenerated from the source + differential correspondence + cell-by-cell oracle"
ASSUMPTIONS = ["inputs are on the hour", "the autocorrelation stage only writes currently-missing cells (x.loc[nan_series_idx]) — validated by the oracle"]
