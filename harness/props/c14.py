"""C14 — approved-method settings are locked unless developer mode is explicit.

T1: field tables (name, nesting, developer flag, default) and default dumps re-extracted from the
live pydantic classes.  T2: the real constructors (settings classes and model classes) on every
field x alternative values x developer_mode {absent, False, True} x key spelling x dict vs object,
every PAIR (any field, developer field), vs. the Lean lock model.  Oracle: accepted exactly when
no developer-only field deviates (or developer_mode is True) and the values are valid; defaults
equal the frozen approved constants; stored settings are the ones the model was built with."""
from __future__ import annotations

import copy
import enum
import io
import contextlib
import itertools
import json
import os
import random
import typing
import warnings

from .. import core
from ..py2lean.tables import canon_value, flat_defaults, settings_families

ID = "C14"
LEAN_MODULE = "EEM.Props.C14"
BUILD_TARGETS = ["EEM.Props.C14"]
MODEL_TARGETS = ["EEM.Model.SettingsTree", "EEM.Gen.SettingsTables", "EEM.Proto"]
DESIGN_REF = "DESIGN.md §5 C14"


def leaves(cls, prefix=()):
    from opendsm.common.base_settings import BaseSettings
    out = []
    for k, f in cls.model_fields.items():
        ann = f.annotation
        if isinstance(ann, type) and issubclass(ann, BaseSettings):
            out += leaves(ann, prefix + (k,))
        else:
            out.append((prefix + (k,), f, cls))
    return out


def alternatives(path, f):
    """valid alternative values of the right type (different from the default) + invalid ones"""
    d = f.default
    ann = f.annotation
    name = path[-1]
    valid, invalid = [], []
    if isinstance(d, bool):
        valid = [not d]
        invalid = ["maybe"]
    elif isinstance(d, enum.Enum):
        valid = [m.value for m in type(d) if m != d][:2]
        invalid = ["not_an_option"]
    elif isinstance(d, (int, float)) and not isinstance(d, bool):
        cands = [d * 2, d / 2, d + 1, d - 1, 0.5, 3, -50, 0.3]
        valid = cands
        invalid = ["text"]
    elif isinstance(d, str):
        if name in ("alpha_final",):
            valid = [2.0, 1.5]
        elif len(path) > 1 and path[0] == "season":
            valid = [x for x in ("summer", "shoulder", "winter") if x != d][:2]
            invalid = ["monsoon"]
        elif len(path) > 1 and path[0] == "weekday_weekend":
            valid = [x for x in ("weekday", "weekend") if x != d]
            invalid = ["holiday"]
        else:
            valid = []
    elif isinstance(d, list):
        if all(isinstance(x, float) for x in d):
            valid = [[1.0, 1.0]]
            invalid = [[1.0], [0.0, 1.0]]
        else:
            valid = []
    elif d is None:
        valid = [[1.4, 0.89]] if name == "reduce_splits_num_std" else []
    return valid, invalid


def nest(path, value, spell):
    d = value
    for k in reversed(path):
        d = {spell(k): d}
    return d


def merge(a, b):
    out = dict(a)
    for k, v in b.items():
        if k in out and isinstance(out[k], dict) and isinstance(v, dict):
            out[k] = merge(out[k], v)
        else:
            out[k] = v
    return out


def construct(cls, kwargs):
    """returns ('accept', obj) | ('reject', exc name)"""
    buf = io.StringIO()
    try:
        with contextlib.redirect_stdout(buf):
            o = cls(**kwargs)
        return "accept", o
    except Exception as e:  # noqa  (pydantic ValidationError wraps the ValueError of the lock)
        return "reject", type(e).__name__


def hx(s):
    return s.encode().hex()


def flat_of(dump):
    rows = []

    def walk(prefix, d):
        for k, v in d.items():
            if isinstance(v, dict):
                walk(prefix + [str(k)], v)
            else:
                rows.append((".".join(prefix + [str(k)]), canon_value(v)))
    walk([], dump)
    return rows


def run(ctx):
    warnings.filterwarnings("ignore")
    rng = random.Random(ctx["seed"] * 67867967 + 14)
    thorough = ctx["tier"] == "thorough"
    res = dict(evaluations=0, disagreements=[], oracle_failures=[], finding_instances={}, samples=[], hist={}, traces=0)
    sigs = set()
    lines, expect, descs = [], [], []
    fams = settings_families()

    # ---- defaults are the approved constants (frozen copy in /verif)
    approved = json.load(open(os.path.join(core.VERIF, "harness", "approved_settings.json")))
    live = flat_defaults()
    for fam, rows in approved.items():
        res["evaluations"] += 1
        got = {k: v for k, v in live.get(fam, [])}
        exp = {k: v for k, v in rows}
        if got != exp:
            diff = {k: (exp.get(k), got.get(k)) for k in set(exp) | set(got) if exp.get(k) != got.get(k)}
            res["oracle_failures"].append(dict(clause="defaults_are_approved", family=fam, differing=dict(list(diff.items())[:5]),
                                               note="constructed without arguments; (approved, live)"))
    spellings = [lambda k: k, lambda k: k.upper(), lambda k: "  " + k.capitalize() + " "]

    def check(fam, cls, overrides, dm, spell, expect_valid=True, as_object=False):
        """overrides: list of (path, value). dm in (None, False, True)."""
        kw = {}
        for path, v in overrides:
            kw = merge(kw, nest(path, v, spell))
        if dm is not None:
            kw[spell("developer_mode")] = dm
        if as_object:
            st, o = construct(cls, kw)
            # object input: pass an already constructed (developer-mode) settings object's dump back in
        verdict, o = construct(cls, kw)
        res["evaluations"] += 1
        dev_changed = [p for p, v in overrides if leafmap[fam][p].json_schema_extra["developer"]
                       and canon_value(v) != canon_value(leafmap[fam][p].default)]
        should_accept = expect_valid and (bool(dm) or not dev_changed)
        if expect_valid is not None and (verdict == "accept") != should_accept:
            res["oracle_failures"].append(dict(clause="lock" if expect_valid else "invalid_value_accepted", family=fam,
                                               kwargs=core.jsonable(kw), developer_mode=dm, verdict=verdict, detail=str(o)[:60],
                                               developer_fields_changed=[".".join(p) for p in dev_changed]))
        if expect_valid:
            lines.append(f"lock {fam} {1 if dm else 0} " + " ".join(
                f"{hx('.'.join(spell(k) for k in p))}={hx(canon_value(v))}" for p, v in overrides))
            expect.append("ok " + verdict)
            descs.append(dict(family=fam, overrides=[(".".join(p), core.jsonable(v)) for p, v in overrides], developer_mode=dm))
        return verdict, o

    leafmap = {fam: {p: f for p, f, _ in leaves(cls)} for fam, cls in fams.items()}
    for fam, cls in fams.items():
        lv = leaves(cls)
        dev_leaves = [(p, f) for p, f, _ in lv if f.json_schema_extra["developer"]]
        res["hist"][f"{fam}_leaves"] = len(lv)
        res["hist"][f"{fam}_dev_leaves"] = len(dev_leaves)
        # cross-field validity: a changed value can be rejected for reasons other than the lock; learn validity under developer mode
        for p, f, _ in lv:
            if p[-1] in ("developer_mode",):
                continue
            valid, invalid = alternatives(p, f)
            for v in valid:
                ok_dev, _ = construct(cls, merge(nest(p, v, lambda k: k), {"developer_mode": True, "silent_developer_mode": True}))
                if ok_dev != "accept":
                    continue                     # not a valid configuration at all (range / cross-field rule): not a lock case
                for dm in (None, False, True):
                    for spell in (spellings if thorough else spellings[:1] + [rng.choice(spellings[1:])]):
                        check(fam, cls, [(p, v)], dm, spell)
                sigs.add((fam, f.json_schema_extra["developer"], len(p)))
            for v in invalid:
                check(fam, cls, [(p, v)], True, spellings[0], expect_valid=False)
        # every PAIR (any leaf, developer leaf): a second setting must never unlock the first
        for (p1, f1, _), (p2, f2) in itertools.product(lv, dev_leaves):
            if p1 == p2 or p1[-1] == "developer_mode":
                continue
            v1s, _ = alternatives(p1, f1)
            v2s, _ = alternatives(p2, f2)
            if not v1s or not v2s:
                continue
            v1, v2 = v1s[0], v2s[0]
            ok_dev, _ = construct(cls, merge(merge(nest(p1, v1, lambda k: k), nest(p2, v2, lambda k: k)),
                                             {"developer_mode": True, "silent_developer_mode": True}))
            if ok_dev != "accept":
                continue
            check(fam, cls, [(p1, v1), (p2, v2)], None, spellings[0])
            sigs.add((fam, "pair", f1.json_schema_extra["developer"]))

    # ---- model classes: settings recorded in a stored model are the ones it was built with
    from opendsm.eemeter.models.daily.model import DailyModel
    from opendsm.eemeter.models.billing.model import BillingModel
    for mk, kwargs in [(lambda s: DailyModel(settings=s), {"season": {"january": "summer"}, "uncertainty_alpha": 0.2}),
                       (lambda s: DailyModel(model="legacy", settings=s), {"weekday_weekend": {"friday": "weekend"}}),
                       (lambda s: BillingModel(settings=s), {"uncertainty_alpha": 0.05}),
                       (lambda s: DailyModel(settings=s), {"developer_mode": True, "silent_developer_mode": True, "cvrmse_threshold": 0.5,
                                                           "split_selection": {"criteria": "aic"}})]:
        m = mk(copy.deepcopy(kwargs))
        dump = m.settings.model_dump()
        res["evaluations"] += 1

        def sub(a, b):
            return all((k in b) and (sub(v, b[k]) if isinstance(v, dict) else canon_value(b[k]) == canon_value(v))
                       for k, v in a.items() if k != "silent_developer_mode")
        if not sub(kwargs, dump):
            res["oracle_failures"].append(dict(clause="recorded_settings_are_built_settings", given=kwargs, recorded=core.jsonable(dump)))
        try:
            DailyModel(settings={"cvrmse_threshold": 0.5})
            res["oracle_failures"].append(dict(clause="lock", api="DailyModel(settings={'cvrmse_threshold': 0.5})", verdict="accept"))
        except Exception:  # noqa
            pass

    # ---- settings OBJECTS handed to the model constructors (any profile's class, default or with a free field changed): the model
    # must refuse them, or be in developer mode, or carry exactly the approved constants of ITS OWN profile
    fam_of = {"DailyModel()": "daily", "DailyModel(legacy)": "legacy", "BillingModel()": "billing"}
    ctors = {"DailyModel()": lambda s: DailyModel(settings=s), "DailyModel(legacy)": lambda s: DailyModel(model="legacy", settings=s),
             "BillingModel()": lambda s: BillingModel(settings=s)}
    approved_by_fam = {fam: {k: v for k, v in rows} for fam, rows in approved.items()}
    # the profile a constructor uses is the class of the settings it builds without arguments (BillingModel builds the legacy
    # daily profile; the weighted billing model builds BillingSettings)
    for cname, ctor in ctors.items():
        try:
            cls0 = type(ctor({}).settings)
            fam_of[cname] = next((f for f, c in fams.items() if c is cls0), fam_of[cname])
        except Exception:  # noqa
            pass
    for cname, ctor in ctors.items():
        for sname, scls in fams.items():
            for extra in ({}, {"uncertainty_alpha": 0.25}):
                res["evaluations"] += 1
                try:
                    obj = scls(**extra)
                except Exception:  # noqa
                    continue
                try:
                    m = ctor(obj)
                except Exception:  # noqa
                    sigs.add(("settings_object", cname, sname, "refused"))
                    continue
                dump = m.settings.model_dump()
                sigs.add(("settings_object", cname, sname, "accepted"))
                if dump.get("developer_mode"):
                    continue
                want = approved_by_fam.get(fam_of[cname], {})
                got_flat = {k: v for k, v in flat_of(dump)}
                diff = {k: (want[k], got_flat.get(k)) for k in want if k not in ("uncertainty_alpha",) and got_flat.get(k) != want[k]}
                if diff:
                    res["oracle_failures"].append(dict(clause="lock", api=f"{cname} given a {scls.__name__} object {extra}", verdict="accept",
                                                       developer_mode=False, constants_differing_from_approved=dict(list(diff.items())[:6])))

    # ---- the settings a fit derives from the model's own (update_daily_settings, called by _fit_components / _final_fit): whatever was
    # derived before, for whichever profile, the result is the given settings with exactly the requested fields changed
    try:
        from opendsm.eemeter.models.daily.utilities.settings import update_daily_settings
        updates = [{"DEVELOPER_MODE": True, "SILENT_DEVELOPER_MODE": True, "REGULARIZATION_ALPHA": 0.0},
                   {"developer_mode": True, "silent_developer_mode": True, "alpha_final_type": None, "final_bounds_scalar": None}]
        order = [f for f in ("daily", "legacy", "billing") if f in fams]
        for fam in order + order[::-1] + order:
            base = fams[fam]()
            for u in updates:
                res["evaluations"] += 1
                try:
                    got = update_daily_settings(base, dict(u)).model_dump()
                except Exception as e:  # noqa
                    res["hist"][f"update_daily_settings_raised:{fam}:{type(e).__name__}"] = 1
                    continue
                want = base.model_dump()
                want.update({k.lower(): v for k, v in u.items()})
                diff = {k: (canon_value(want[k]), canon_value(got[k])) for k in want if k in got and canon_value(got[k]) != canon_value(want[k])}
                if diff:
                    res["oracle_failures"].append(dict(clause="settings_used_by_the_fit_are_the_models_own", profile=fam, update=list(u),
                                                       differing=dict(list(diff.items())[:6]),
                                                       note="(given settings + update, returned by update_daily_settings); sequence daily, legacy, billing, reversed, again"))
                    break
        sigs.add(("update_daily_settings", len(order)))
    except ImportError:
        res["disagreements"].append(dict(op="internal_api", detail="update_daily_settings is gone"))

    # ---- NESTED settings objects: every settings-valued field of every profile given an OBJECT of each nested settings class found
    # in any profile (default-constructed), without developer mode: refuse, or carry the approved constants of the model's own profile
    import pydantic as _pyd
    nested_classes = {}
    for sname, scls in fams.items():
        for k, f in scls.model_fields.items():
            try:
                v = getattr(scls(), k)
            except Exception:  # noqa
                continue
            if isinstance(v, _pyd.BaseModel):
                nested_classes[type(v).__name__] = type(v)
                for sub in type(v).__mro__:
                    if isinstance(sub, type) and issubclass(sub, _pyd.BaseModel) and sub.__module__ == type(v).__module__ and sub is not _pyd.BaseModel:
                        nested_classes.setdefault(sub.__name__, sub)
    for cname, ctor in ctors.items():
        own_cls = fams.get(fam_of[cname]) or list(fams.values())[0]
        for k, f in own_cls.model_fields.items():
            try:
                if not isinstance(getattr(own_cls(), k), _pyd.BaseModel):
                    continue
            except Exception:  # noqa
                continue
            for nname, ncls in nested_classes.items():
                res["evaluations"] += 1
                try:
                    nobj = ncls()
                    m = ctor({k: nobj})
                except Exception:  # noqa
                    sigs.add(("nested_object", cname, k, nname, "refused"))
                    continue
                dump = m.settings.model_dump()
                sigs.add(("nested_object", cname, k, nname, "accepted"))
                if dump.get("developer_mode"):
                    continue
                want = approved_by_fam.get(fam_of[cname], {})
                got_flat = {kk: v for kk, v in flat_of(dump)}
                diff = {kk: (want[kk], got_flat.get(kk)) for kk in want if got_flat.get(kk) != want[kk]}
                if diff:
                    res["oracle_failures"].append(dict(clause="lock", api=f"{cname} given settings={{'{k}': {nname}()}} (a nested settings OBJECT)", verdict="accept",
                                                       developer_mode=False, constants_differing_from_approved=dict(list(diff.items())[:6])))

    if ctx.get("model_ok", True):
        outs = core.run_driver(lines)
        for out, exp, d in zip(outs, expect, descs):
            res["traces"] += 1
            if out != exp:
                res["disagreements"].append(dict(case=d, lean=out, impl=exp))
    res["samples"] = descs[:2] + [descs[-1]] if descs else []
    res["distinct_nontrivial"] = len(sigs)
    res["exhaustive"] = True
    res["rule"] = ("every leaf of the daily, legacy and billing settings trees x its valid alternative values x developer_mode {absent, False, "
                   "True} x key spellings (lower, UPPER, padded/capitalised), one invalid value per leaf, and every pair (any leaf, developer "
                   "leaf) without developer mode; validity of a combination is learnt from the constructor under developer mode. distinct = "
                   "(family, developer leaf?, depth) and pair kinds")
    return res


def replay_finding(entry):
    return False


def replay(obj):
    r = run(dict(tier="quick", seed=obj.get("seed", 0), model_ok=False, findings=[]))
    return r["oracle_failures"]


LEVEL_TEXT = ("Lean 4 theorems: the developer lock is proved for EVERY settings tree by structural induction (accepted without developer "
              "mode => every developer leaf at every depth holds its default; any deviation => rejected); on the trees re-extracted from the "
              "live pydantic classes it is closed exhaustively by kernel evaluation (every developer field locked, every non-developer field "
              "free, defaults accepted); the default dumps of all five families equal a frozen approved copy. The lock model is tied to the "
              "real constructors by an exhaustive differential run incl. all (field, developer field) pairs.")
LEVEL_NOTE = ("Trusted: Lean kernel + standard axioms; the table extractor (reads model_fields, json_schema_extra, defaults); pydantic's "
              "type/range validation and the cross-field validators are not modelled (validity is learnt from the constructor under "
              "developer mode and checked by the oracle only); the frozen approved constants in /verif are today's defaults; the hourly "
              "settings have no developer-only fields (the lock is vacuous there).")
TECHNIQUE = "Lean 4 proof (structural induction over arbitrary settings trees; decide +kernel over regenerated tables) + exhaustive differential correspondence"
ASSUMPTIONS = ["a configuration is 'valid' when the constructor accepts it under developer_mode=True",
               "canonical comparison of values: enums by value, numbers as floats, strings lower-cased/stripped"]
