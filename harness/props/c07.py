"""C07 — observed and predicted usage are masked together so savings sums are unbiased.

T2: the real `DailyModel._predict` / `BillingModel._predict` on frames with every pattern of
{finite, NaN, inf} temperature x {finite, NaN, absent column} observed (pattern-exhaustive for
short frames, random for long ones), and the public `predict` on real data objects, vs. the
Lean model EEM.Model.PredictFrame run with the MEASURED masking mode.  Oracle: both-or-neither,
masking of observed on days without temperature, column sums vs row-wise sums (daily and
aggregated)."""
from __future__ import annotations

import itertools
import random
import warnings

import numpy as np
import pandas as pd

from .. import core
from ..core import close
from . import pframe

ID = "C07"
LEAN_MODULE = "EEM.Props.C07"
BUILD_TARGETS = ["EEM.Props.C07"]
MODEL_TARGETS = ["EEM.Model.PredictFrame", "EEM.Model.Splits", "EEM.Proto"]
DESIGN_REF = "DESIGN.md §5 C07"

SPLITS = ["fw-su_sh_wi", "fw-sh_wi__wd-su__we-su", "wd-su_sh_wi__we-su_sh_wi", "fw-sh__fw-su__fw-wi"]


def oracle(out, has_obs, obs_in_finite_or_nan=True):
    """C07 on a returned frame"""
    fails = []
    if not has_obs:
        return fails
    T = out["temperature"].to_numpy(dtype=float)
    o = out["observed"].to_numpy(dtype=float)
    p = out["predicted"].to_numpy(dtype=float)
    for i in range(len(out)):
        if np.isinf(o[i]):
            continue                      # non-finite usage is outside the property's quantifier
        if not np.isfinite(T[i]) and not np.isnan(o[i]):
            fails.append(("missing_temperature_not_masked", dict(row=str(out.index[i]), temperature=float(T[i]), observed=float(o[i]))))
            break
        if np.isnan(o[i]) != np.isnan(p[i]):
            fails.append(("both_or_neither", dict(row=str(out.index[i]), temperature=float(T[i]), observed=float(o[i]), predicted=float(p[i]))))
            break
    fin = ~np.isinf(o)
    a = float(np.nansum(o[fin])) - float(np.nansum(p[fin]))
    b = float(np.nansum((o - p)[fin]))
    if not close(a, b, 1e-9):
        fails.append(("column_sums_vs_rowwise", dict(sum_observed_minus_sum_predicted=a, sum_of_rowwise_savings=b)))
    return fails


def run(ctx):
    warnings.filterwarnings("ignore")
    from opendsm.eemeter.models.daily.model import DailyModel
    from opendsm.eemeter.models.billing.model import BillingModel
    from opendsm.eemeter.models.daily.data import DailyReportingData
    from opendsm.eemeter.models.billing.data import BillingReportingData

    rng = random.Random(ctx["seed"] * 49979687 + 7)
    thorough = ctx["tier"] == "thorough"
    scale = ctx.get("budget_scale", 1)
    res = dict(evaluations=0, disagreements=[], oracle_failures=[], finding_instances={}, samples=[], hist={}, traces=0)
    sigs = set()
    lines, expect, descs = [], [], []
    tz = "America/Chicago"
    dsettings = DailyModel().settings.model_dump()
    bsettings = BillingModel().settings.model_dump()
    bsettings.update(developer_mode=True, silent_developer_mode=True)
    smap = {i + 1: dsettings["season"][m] for i, m in enumerate(pframe.MONTHS)}
    wlabs = [dsettings["weekday_weekend"][d] for d in pframe.DAYS]
    mode = pframe.detect_mask_mode(DailyModel, pframe.make_doc("fw-su_sh_wi", tz, dsettings))
    res["hist"]["mask_mode_measured"] = mode
    findings = {e["id"]: e for e in ctx.get("findings", []) if e.get("status") == "finding"}

    def one(model, combo, df, has_obs, label):
        comps = combo.split("__")
        out = model._predict(df.copy())
        res["evaluations"] += 1
        fails = oracle(out, has_obs)
        for f in fails[:1]:
            res["oracle_failures"].append(dict(clause=f[0], detail=f[1], frame=dict(
                index=[str(t) for t in df.index[:8]], temperature=[float(x) for x in df["temperature"][:8]],
                observed=[float(x) for x in df["observed"][:8]] if has_obs else None, split=combo, kind=label)))
        lines.append(pframe.frame_line(mode, has_obs, combo, wlabs, smap, df))
        expect.append(pframe.canon_out(out, has_obs, comps))
        descs.append(dict(split=combo, kind=label, rows=len(df), has_observed=has_obs))

    # ---- (1) pattern-exhaustive short frames through _predict
    L = 4 if not thorough else 5
    tvals = [55.0, np.nan, np.inf]
    ovals = [3.0, np.nan]
    start = pd.Timestamp("2021-06-04", tz=tz)      # Fri, Sat, Sun, Mon...: crosses a weekend in summer
    combo = "fw-sh_wi__wd-su__we-su"
    dm = DailyModel.from_dict(pframe.make_doc(combo, tz, dsettings))
    bm = BillingModel.from_dict(pframe.make_doc(combo, tz, bsettings))
    for tp in itertools.product(tvals, repeat=L):
        idx = pd.date_range(start, periods=L, freq="D")
        for has_obs in (True, False):
            opats = itertools.product(ovals, repeat=L) if has_obs else [None]
            for op in opats:
                df = pd.DataFrame({"temperature": list(tp)}, index=idx)
                if has_obs:
                    df["observed"] = list(op)
                one(dm if rng.random() < 0.7 else bm, combo, df, has_obs, "pattern")
                sigs.add(("pattern", tuple(np.isnan(tp)), tuple(np.isinf(tp)), None if op is None else tuple(np.isnan(op))))
    # ---- (2) long random frames, all splits, incl. -inf and inf usage
    for k in range(int((30 if not thorough else 2000) * scale)):
        n = rng.choice([1, 2, 30, 200, 400])
        idx = pd.date_range(pd.Timestamp(2020 + rng.randrange(2), rng.randrange(1, 13), rng.randrange(1, 28), tz=tz), periods=n, freq="D")
        T = np.array([rng.choice([np.nan, np.inf, -np.inf]) if rng.random() < 0.15 else round(rng.uniform(0, 100), 1) for _ in range(n)])
        # finite but extreme temperatures (a feed's missing-value code such as 999.9 / -9999, absolute zero, a huge number): they are
        # finite, so the day is predicted and keeps its usage like any other day
        for i in range(n):
            if rng.random() < 0.06:
                T[i] = rng.choice([999.9, 9999.0, -9999.0, -459.67, 151.0, -150.5, 1e6])
        # exactly 0 degF on every day of one day type (a whole-degree feed in a cold snap), or on every day: zero is a temperature
        zmode = rng.random()
        if zmode < 0.12:
            T[np.asarray(idx.dayofweek >= 5) & np.isfinite(T)] = 0.0
        elif zmode < 0.2:
            T[np.asarray(idx.dayofweek < 5) & np.isfinite(T)] = 0.0
        elif zmode < 0.25:
            T[np.isfinite(T)] = 0.0
        has_obs = rng.random() < 0.75
        df = pd.DataFrame({"temperature": T}, index=idx)
        if has_obs:
            df["observed"] = [rng.choice([np.nan, np.nan, np.inf]) if rng.random() < 0.12 else round(rng.uniform(1, 50), 2) for _ in range(n)]
        combo = rng.choice(SPLITS)
        doc_d = pframe.make_doc(combo, tz, dsettings)
        model = DailyModel.from_dict(doc_d) if k % 2 == 0 else BillingModel.from_dict(pframe.make_doc(combo, tz, bsettings))
        one(model, combo, df, has_obs, "random")
        sigs.add(("random", n > 30, has_obs, combo))

    # ---- (3) public API on real data objects: hourly temperature with day-long gaps, usage with gaps
    for k in range(int((4 if not thorough else 60) * scale)):
        n_days = rng.choice([40, 120, 380])
        idx = pd.date_range(pd.Timestamp(2020, rng.randrange(1, 13), rng.randrange(1, 28), tz=tz), periods=24 * n_days, freq="h")
        t = pd.Series(55 + 20 * np.sin(np.arange(len(idx)) / 8760 * 6.283), index=idx, name="temperature")
        for _ in range(rng.randrange(1, 4)):
            a = rng.randrange(0, len(idx) - 72)
            t.iloc[a:a + 24 * rng.choice([1, 2, 3])] = np.nan
        obs = pd.Series(np.round(np.abs(np.sin(np.arange(len(idx)) / 24.0)) + 1.0, 3), index=idx, name="observed")
        for _ in range(rng.randrange(1, 4)):
            a = rng.randrange(0, len(idx) - 72)
            obs.iloc[a:a + 24 * rng.choice([1, 2])] = np.nan
        combo = rng.choice(SPLITS)
        try:
            rd = DailyReportingData.from_series(obs, t, is_electricity_data=True)
        except Exception as e:  # noqa  (acceptance by the data class is C10's subject)
            res["hist"]["data_class_rejected:" + type(e).__name__] = res["hist"].get("data_class_rejected:" + type(e).__name__, 0) + 1
            continue
        m = DailyModel.from_dict(pframe.make_doc(combo, tz, dsettings))
        out = m.predict(rd)
        res["evaluations"] += 1
        for f in oracle(out, True)[:1]:
            res["oracle_failures"].append(dict(clause=f[0], detail=f[1], api="DailyModel.predict(DailyReportingData)",
                                               case=dict(start=str(idx[0]), days=n_days, split=combo)))
        sigs.add(("api_daily", int(out["temperature"].isna().sum()) > 0, int(out["observed"].isna().sum()) > 0))
        # billing: the same weather with monthly reads, all three aggregations
        # the first bill may start well after the weather does (leading periods without any prediction)
        first_read = idx[0] + pd.Timedelta(days=rng.choice([0, 0, 17, 31, 45, 62]))
        reads = pd.date_range(first_read, idx[-1] - pd.Timedelta(days=rng.choice([0, 0, 20, 40])), freq="30D")
        if len(reads) >= 3:
            meter = pd.Series([round(rng.uniform(200, 500), 1) for _ in reads], index=reads, name="observed")
            meter.iloc[-1] = np.nan
            try:
                brd = BillingReportingData.from_series(meter, t, is_electricity_data=True)
            except Exception as e:  # noqa
                res["hist"]["data_class_rejected:" + type(e).__name__] = res["hist"].get("data_class_rejected:" + type(e).__name__, 0) + 1
                continue
            bmod = BillingModel.from_dict(pframe.make_doc(combo, tz, bsettings))
            for agg in (None, "monthly", "bimonthly"):
                o2 = bmod.predict(brd, aggregation=agg)
                res["evaluations"] += 1
                ov, pv = o2["observed"].to_numpy(dtype=float), o2["predicted"].to_numpy(dtype=float)
                if agg is None:
                    fl = oracle(o2, True)
                else:
                    a_, b_ = float(np.nansum(ov)) - float(np.nansum(pv)), float(np.nansum(ov - pv))
                    fl = [] if close(a_, b_, 1e-9) else [("column_sums_vs_rowwise", dict(aggregation=agg, sums=a_, rowwise=b_))]
                    unpaired = [str(i) for i, (x, y) in zip(o2.index, zip(ov, pv)) if np.isnan(x) != np.isnan(y)]
                    if unpaired:
                        fl.append(("both_or_neither", dict(aggregation=agg, unpaired_rows=unpaired[:4])))
                for f in fl[:1]:
                    res["oracle_failures"].append(dict(clause=f[0], detail=f[1], api=f"BillingModel.predict(aggregation={agg})",
                                                       case=dict(start=str(idx[0]), days=n_days, split=combo)))
                sigs.add(("api_billing", agg))

    if ctx.get("model_ok", True):
        outs = core.run_driver(lines)
        for out, exp, d in zip(outs, expect, descs):
            res["traces"] += 1
            if out.strip() != exp.strip():
                res["disagreements"].append(dict(case=d, lean=out[:400], impl=exp[:400]))
    res["samples"] = [dict(d, model_line=l[:160]) for d, l in list(zip(descs, lines))[:2]] + [dict(mask_mode_measured=mode)]
    res["distinct_nontrivial"] = len(sigs)
    res["exhaustive"] = False
    res["rule"] = (f"every pattern of {{finite, NaN, inf}} temperature x {{finite, NaN}} observed (and no observed column) over {L}-day frames; "
                   "random frames of 1-400 days with NaN/+-inf temperature and NaN/inf usage over four split layouts, daily and billing "
                   "models; the public predict on DailyReportingData/BillingReportingData built from hourly series with day-long gaps, all "
                   "three billing aggregations. distinct = NaN/inf/usage-NaN pattern, (long?, observed?, split), API-level gap layouts")
    return res


def replay_finding(entry):
    return False


def replay(obj):
    r = run(dict(tier="quick", seed=obj.get("seed", 0), model_ok=False, findings=[]))
    return r["oracle_failures"]


LEVEL_TEXT = ("Lean 4 theorems about an executable model of the frame assembly of _predict (clean-row filter, join with the routed "
              "sub-model predictions, masking, re-appending of dropped rows), for frames of any length and any per-segment curve: every "
              "returned row has both a predicted and an observed value or neither; a day without a finite temperature has its usage "
              "masked; a day without usage gets no prediction; hence column sums equal row-wise sums (over R). The masking mode of the "
              "model is MEASURED on the implementation on every run and the full-strength theorem is about the repaired mode; the "
              "model is tied to the real _predict by a pattern-exhaustive differential run.")
LEVEL_NOTE = ("Trusted: Lean kernel + standard axioms; hand model of pandas dropna/isfinite/join/concat/sort_index on unique time-sorted "
              "labels (validated by T2 only); routing uniqueness is C13's theorem (hypothesis here); usage cells that are +-inf are outside "
              "the property's quantifier and outside the theorem.")
TECHNIQUE = ("Lean 4 proof (per-row case analysis lifted over lists; sums over R; the masking statement of _predict re-extracted from the source on "
             "every run is proved to be the mode the theorems are about, on by default and not skippable) + pattern-exhaustive differential correspondence")
ASSUMPTIONS = ["index labels unique and time-sorted (what the data classes hand out)", "every clean row is routed to exactly one sub-model (C13)",
               "usage cells are finite or NaN"]
