"""C06 — predictions come back one row per input timestamp, on the real clock.

T2: real `_get_dst_indices` / `_transform_dst` on the frames of real HourlyReportingData objects,
for IANA zones x their UTC-offset transitions x windows placed so that the transition day is
first, interior and last, vs. the Lean model EEM.Model.Dst.  Oracle: the whole public predict()
of a fitted HourlyModel returns exactly the index of data.df with finite predictions (with and
without observed); daily and billing predict() return exactly data.df's index, finite exactly on
rows with a finite temperature (and usage, when supplied)."""
from __future__ import annotations

import datetime as dt
import random
import warnings
import zoneinfo

import numpy as np
import pandas as pd

from .. import core
from ..core import fhex, unhex
from . import pframe

ID = "C06"
LEAN_MODULE = "EEM.Props.C06"
BUILD_TARGETS = ["EEM.Props.C06"]
MODEL_TARGETS = ["EEM.Model.DstSrc", "EEM.Model.Dst", "EEM.Model.PredictFrame", "EEM.Proto"]
DESIGN_REF = "DESIGN.md §5 C06"

QUICK_ZONES = ["America/Chicago", "Europe/London", "Australia/Sydney", "America/Sao_Paulo", "America/Havana", "Australia/Lord_Howe",
               "Asia/Tehran", "Africa/Cairo", "America/Santiago", "Asia/Kolkata", "America/St_Johns", "Pacific/Chatham",
               "Europe/Lisbon", "Africa/Casablanca", "Asia/Amman", "America/Asuncion", "Pacific/Apia", "Antarctica/Troll",
               "America/Scoresbysund", "Asia/Beirut"]


def transitions(zone, y0=2000, y1=2038):
    """UTC instants at which the zone's UTC offset changes, from the tz database"""
    import pytz
    z = pytz.timezone(zone)
    out = []
    tt = getattr(z, "_utc_transition_times", [])
    ti = getattr(z, "_transition_info", [])
    for i in range(1, len(tt)):
        t = tt[i]
        if y0 <= t.year < y1 and ti[i][0] != ti[i - 1][0]:
            out.append((t, ti[i - 1][0], ti[i][0]))
    return out


def hourly_frame(zone, start_local_date, days, start_hour=0, end_trim=0):
    start = pd.Timestamp(start_local_date).tz_localize(zone, ambiguous=True, nonexistent="shift_forward") + pd.Timedelta(hours=start_hour)
    idx = pd.date_range(start.tz_convert("UTC"), periods=24 * days - end_trim, freq="h").tz_convert(zone)
    h = np.arange(len(idx))
    return pd.DataFrame({"temperature": 55 + 20 * np.sin(h / 24 * 2 * np.pi), "observed": 1.0 + 0.3 * np.sin(h / 12.0)}, index=idx)


def fitted_hourly():
    from opendsm.eemeter.models.hourly.model import HourlyModel
    from opendsm.eemeter.models.hourly.data import HourlyBaselineData
    from .c04 import synth_hourly
    bd = HourlyBaselineData(synth_hourly(days=365), is_electricity_data=True)
    return HourlyModel().fit(bd, ignore_disqualification=True)


class _TieBroken(Exception):
    pass


def run(ctx):
    warnings.filterwarnings("ignore")
    from opendsm.eemeter.models.hourly.model import _get_dst_indices, _transform_dst, HourlyModel
    from opendsm.eemeter.models.hourly.data import HourlyReportingData
    from opendsm.eemeter.models.daily.model import DailyModel
    from opendsm.eemeter.models.billing.model import BillingModel
    from opendsm.eemeter.models.daily.data import DailyReportingData
    from opendsm.eemeter.models.billing.data import BillingReportingData

    rng = random.Random(ctx["seed"] * 982451653 + 6)
    thorough = ctx["tier"] == "thorough"
    scale = ctx.get("budget_scale", 1)
    res = dict(evaluations=0, disagreements=[], oracle_failures=[], finding_instances={}, samples=[], hist={}, traces=0)
    sigs = set()
    lines, metas = [], []
    zones = QUICK_ZONES if not thorough else sorted(zoneinfo.available_timezones())
    per_zone = 6 if not thorough else 12      # all zones, a sample of each zone's transitions (earliest, latest, random)
    hm_json = fitted_hourly().to_json()
    n_pred = 0
    # the two module-level helpers are called directly below; if their signatures are no longer the ones this harness knows, that is
    # a broken TIE (reported once as a disagreement, never as a failing input) and only the public predict() paths decide
    import inspect
    try:
        internal_ok = (list(inspect.signature(_get_dst_indices).parameters) == ["df"] and
                       list(inspect.signature(_transform_dst).parameters) == ["prediction", "dst_indices"])
    except Exception:  # noqa
        internal_ok = False
    if not internal_ok:
        res["disagreements"].append(dict(op="dst.internal_signature", detail="_get_dst_indices / _transform_dst no longer have the signatures the harness calls",
                                         now=[str(inspect.signature(f)) for f in (_get_dst_indices, _transform_dst)]))
    for zone in zones:
        try:
            trs = transitions(zone)
        except Exception:  # noqa
            continue
        if len(trs) > per_zone:
            # earliest, latest and a random sample in between (both directions)
            trs = trs[:2] + rng.sample(trs[2:-2], per_zone - 4) + trs[-2:]
        for (t, off_a, off_b) in trs:
            shift = int((off_b - off_a).total_seconds())
            local = (pytz_utc(t) + off_a)
            for (before, days, start_hour, end_trim) in ([(3, 7, 0, 0), (0, 3, 0, 0), (8, 9, 5, 7)] if not thorough
                                                         else [(3, 7, 0, 0), (0, 3, 0, 0), (8, 9, 5, 7), (20, 40, 0, 0), (2, 3, 0, 0), (1, 9, 13, 3)]):
                d0 = (local - dt.timedelta(days=before)).date()
                try:
                    df = hourly_frame(zone, d0, days, start_hour, end_trim)
                    rd = HourlyReportingData(df, is_electricity_data=True)
                except Exception as e:  # noqa
                    res["hist"]["data_class_rejected:" + type(e).__name__] = res["hist"].get("data_class_rejected:" + type(e).__name__, 0) + 1
                    continue
                d = rd.df
                res["evaluations"] += 1
                day_desc = []
                for _, g in d.groupby(d.index.date):
                    day_desc.append(f"{len(g)}:{','.join(str(h) for h in g.index.hour)}")
                D = len(day_desc)
                pred = np.arange(24 * D, dtype=float)
                try:
                    if not internal_ok:
                        raise _TieBroken()
                    ii = _get_dst_indices(d)
                    out = _transform_dst(pred, ii)
                    impl = ("ok", out)
                    if len(out) != len(d):
                        f_ = dict(clause="hourly_one_value_per_row", zone=zone, transition_utc=str(t), shift_seconds=shift,
                                  window=dict(first_local_date=str(d0), days=days, start_hour=start_hour, end_trim=end_trim),
                                  rows=len(d), values=len(out))
                        sizes = [int(x.split(":")[0]) for x in day_desc]
                        if min(sizes) < 22 and any(e["id"] == "C06-F4" and e.get("status") == "finding" for e in ctx.get("findings", [])):
                            dd_ = res["finding_instances"].setdefault("C06-F4", dict(count=0, example=None))
                            dd_["count"] += 1
                            dd_["example"] = dd_["example"] or f_
                        elif abs(shift) not in (0, 3600) and abs(shift) % 86400 != 0 and any(e["id"] == "C06-F1" and e.get("status") == "finding" for e in ctx.get("findings", [])):
                            dd_ = res["finding_instances"].setdefault("C06-F1", dict(count=0, example=None))
                            dd_["count"] += 1
                            dd_["example"] = dd_["example"] or f_
                        else:
                            res["oracle_failures"].append(f_)
                except _TieBroken:
                    impl = ("skipped", None)
                except Exception as e:  # noqa
                    impl = ("err", type(e).__name__)
                    res["oracle_failures"].append(dict(clause="hourly_clock_normalisation_raises", zone=zone, transition_utc=str(t), shift_seconds=shift,
                                                       window=dict(first_local_date=str(d0), days=days, start_hour=start_hour, end_trim=end_trim),
                                                       error=f"{type(e).__name__}: {str(e)[:80]}"))
                lines.append(f"dst {D} " + " ".join(day_desc) + " " + " ".join(fhex(x) for x in pred))
                metas.append((zone, str(t), impl, len(d)))
                sigs.add((shift, local.hour, before == 0, end_trim > 0))
                # the whole public predict(), with and without observed, on a sample of the windows
                if n_pred < (60 if not thorough else 3000) * scale and (before, days) in ((3, 7), (0, 3)):
                    n_pred += 1
                    for with_obs in (True, False):
                        m = HourlyModel.from_json(hm_json)
                        m.baseline_timezone = rd.tz
                        m.disqualification = []
                        rdx = rd if with_obs else HourlyReportingData(df[["temperature"]], is_electricity_data=True)
                        res["evaluations"] += 1
                        try:
                            o = m.predict(rdx)
                            okidx = o.index.equals(rdx.df.index)
                            fin = bool(np.isfinite(o["predicted"].to_numpy(dtype=float)).all())
                            if not okidx or not fin:
                                res["oracle_failures"].append(dict(clause="hourly_predict_index_and_finite", zone=zone, transition_utc=str(t),
                                                                   with_observed=with_obs, index_equal=okidx, all_finite=fin,
                                                                   rows_in=len(rdx.df), rows_out=len(o)))
                        except Exception as e:  # noqa
                            f_ = dict(clause="hourly_predict_raises", zone=zone, transition_utc=str(t), shift_seconds=shift,
                                      with_observed=with_obs, first_local_date=str(d0), days=days,
                                      error=f"{type(e).__name__}: {str(e)[:100]}")
                            groups_ = [g_ for _, g_ in d.groupby(d.index.date)]
                            # a day that lost exactly its LAST hour to the clock change (not a frame that simply ends mid-day)
                            lost_2300 = any(len(g_) == 23 and int(g_.index.hour.max()) == 22 and sorted(g_.index.hour) == list(range(23))
                                            for g_ in (groups_ if end_trim == 0 else groups_[:-1]))
                            if abs(shift) == 3600 and lost_2300 and any(e_["id"] == "C06-F4" and e_.get("status") == "finding" for e_ in ctx.get("findings", [])):
                                # C06-F4: the clock change removes 23:00 of a local day (transition at 23:00 local: Nuuk / Scoresbysund rules)
                                dd_ = res["finding_instances"].setdefault("C06-F4", dict(count=0, example=None))
                                dd_["count"] += 1
                                dd_["example"] = dd_["example"] or f_
                            elif abs(shift) not in (0, 3600) and abs(shift) % 86400 != 0 and any(e_["id"] == "C06-F1" and e_.get("status") == "finding" for e_ in ctx.get("findings", [])):
                                # C06-F1: clock changes that are not one hour (30 minutes: Caracas 2007, Lord Howe; 2 hours: Troll)
                                dd_ = res["finding_instances"].setdefault("C06-F1", dict(count=0, example=None))
                                dd_["count"] += 1
                                dd_["example"] = dd_["example"] or f_
                            else:
                                res["oracle_failures"].append(f_)
        res["hist"]["zones"] = res["hist"].get("zones", 0) + 1

    # ---- frames that hold SEVERAL clock changes, in both orders (autumn then spring: mid-year to mid-year in the north, a calendar
    # year in the south; spring then autumn; two years): the mapping back to the real clock must handle every order of operations
    # … and frames across a calendar date that does not exist in the zone (Samoa and Tokelau skipped 2011-12-30 when they moved
    # across the date line): the local days of the frame are not consecutive calendar days
    long_frames = [("Pacific/Apia", "2011-12-20", 21), ("Pacific/Fakaofo", "2011-12-01", 60), ("Pacific/Apia", "2011-10-01", 120),
                   ("America/Chicago", "2019-07-01", 366), ("America/Chicago", "2019-01-01", 365), ("Australia/Sydney", "2019-01-01", 365),
                   ("Europe/Berlin", "2019-10-20", 170)] + ([("America/Chicago", "2019-01-01", 731), ("Australia/Sydney", "2018-07-01", 365),
                                                            ("America/Santiago", "2019-01-01", 365)] if thorough else [])
    for zone, d0, days in long_frames:
        for with_obs in (True, False):
            try:
                df = hourly_frame(zone, d0, days)
                rd = HourlyReportingData(df if with_obs else df[["temperature"]], is_electricity_data=True)
                m = HourlyModel.from_json(hm_json)
                m.baseline_timezone = rd.tz
                m.disqualification = []
                res["evaluations"] += 1
                o = m.predict(rd)
                okidx = o.index.equals(rd.df.index)
                fin = bool(np.isfinite(o["predicted"].to_numpy(dtype=float)).all())
                if not okidx or not fin:
                    res["oracle_failures"].append(dict(clause="hourly_predict_index_and_finite", zone=zone, first_local_date=d0, days=days,
                                                       with_observed=with_obs, index_equal=okidx, all_finite=fin, rows_in=len(rd.df), rows_out=len(o)))
            except Exception as e:  # noqa
                res["oracle_failures"].append(dict(clause="hourly_predict_raises", zone=zone, first_local_date=d0, days=days, with_observed=with_obs,
                                                   clock_changes_in_frame="several", error=f"{type(e).__name__}: {str(e)[:100]}"))
        sigs.add(("long_frame", zone, days))

    # ---- daily / billing through the public API: gaps, NaN days, random zones
    dsettings = DailyModel().settings.model_dump()
    bsettings = BillingModel().settings.model_dump()
    bsettings.update(developer_mode=True, silent_developer_mode=True)
    for k in range(int((10 if not thorough else 300) * scale)):
        zone = rng.choice(QUICK_ZONES)
        n_days = rng.choice([3, 45, 200, 400])
        try:
            idx = pd.date_range(pd.Timestamp(2019 + rng.randrange(4), rng.randrange(1, 13), rng.randrange(1, 28)).tz_localize(zone, nonexistent="shift_forward", ambiguous=True),
                                periods=24 * n_days, freq="h")
        except Exception:  # noqa
            continue
        t = pd.Series(55 + 20 * np.sin(np.arange(len(idx)) / 8760 * 6.283), index=idx, name="temperature")
        if k % 3 == 0:
            # every hour of every weekend day (or weekday) reads exactly 0 degF: a finite temperature like any other
            t[(idx.dayofweek >= 5) if k % 2 == 0 else (idx.dayofweek < 5)] = 0.0
        for _ in range(rng.randrange(0, 4)):
            a = rng.randrange(0, max(1, len(idx) - 72))
            t.iloc[a:a + 24 * rng.choice([1, 2, 3])] = np.nan
        obs = pd.Series(1.0 + np.abs(np.sin(np.arange(len(idx)) / 24.0)), index=idx, name="observed")
        for _ in range(rng.randrange(0, 3)):
            a = rng.randrange(0, max(1, len(idx) - 72))
            obs.iloc[a:a + 24 * rng.choice([1, 2])] = np.nan
        with_obs = rng.random() < 0.6
        combo = rng.choice(["fw-su_sh_wi", "fw-sh_wi__wd-su__we-su", "wd-su_sh_wi__we-su_sh_wi"])
        if k % 3 == 0:
            combo = "wd-su_sh_wi__we-su_sh_wi"      # the zero-degree days are exactly the days of one sub-model (the second, or the first)
        try:
            rd = DailyReportingData.from_series(obs if with_obs else None, t, is_electricity_data=True)
        except Exception as e:  # noqa
            res["hist"]["data_class_rejected:" + type(e).__name__] = res["hist"].get("data_class_rejected:" + type(e).__name__, 0) + 1
            continue
        m = DailyModel.from_dict(pframe.make_doc(combo, str(rd.tz), dsettings))
        res["evaluations"] += 1
        try:
            o = m.predict(rd)
        except Exception as e:  # noqa
            res["oracle_failures"].append(dict(clause="daily_predict_raises", zone=zone, start=str(idx[0]), days=n_days, error=f"{type(e).__name__}: {str(e)[:100]}"))
            continue
        f = rd.df
        if not o.index.equals(f.index):
            res["oracle_failures"].append(dict(clause="daily_one_row_per_timestamp", zone=zone, start=str(idx[0]), days=n_days, with_observed=with_obs,
                                               rows_in=len(f), rows_out=len(o), sorted=bool(o.index.is_monotonic_increasing),
                                               duplicated=int(o.index.duplicated().sum())))
        else:
            fin_T = np.isfinite(f["temperature"].to_numpy(dtype=float))
            need = fin_T & (np.isfinite(f["observed"].to_numpy(dtype=float)) if "observed" in f.columns else True)
            got = np.isfinite(o["predicted"].to_numpy(dtype=float))
            if not np.array_equal(need, got):
                i = int(np.nonzero(need != got)[0][0])
                res["oracle_failures"].append(dict(clause="daily_finite_exactly_on_rows_with_temperature_and_usage", zone=zone, row=str(f.index[i]),
                                                   temperature=float(f["temperature"].iloc[i]), predicted=float(o["predicted"].iloc[i]), with_observed=with_obs))
        sigs.add(("daily", zone, with_obs, int(f["temperature"].isna().sum()) > 0))

    # ---- daily _predict on synthetic frames with NaN / +-inf cells (a non-finite cell must not make a row vanish)
    plines, pexpect = [], []
    tzp = "America/Chicago"
    smap = {i + 1: dsettings["season"][m_] for i, m_ in enumerate(pframe.MONTHS)}
    wlabs = [dsettings["weekday_weekend"][d_] for d_ in pframe.DAYS]
    mode = pframe.detect_mask_mode(DailyModel, pframe.make_doc("fw-su_sh_wi", tzp, dsettings))
    for k in range(int((40 if not thorough else 1500) * scale)):
        n = rng.choice([1, 3, 30, 200])
        idx = pd.date_range(pd.Timestamp(2020 + rng.randrange(2), rng.randrange(1, 13), rng.randrange(1, 28), tz=tzp), periods=n, freq="D")
        T = np.array([rng.choice([np.nan, np.inf, -np.inf]) if rng.random() < 0.2 else round(rng.uniform(0, 100), 1) for _ in range(n)])
        has_obs = rng.random() < 0.7
        df = pd.DataFrame({"temperature": T}, index=idx)
        if has_obs:
            df["observed"] = [rng.choice([np.nan, np.inf]) if rng.random() < 0.15 else round(rng.uniform(1, 50), 2) for _ in range(n)]
        combo = rng.choice(["fw-su_sh_wi", "fw-sh_wi__wd-su__we-su", "wd-su_sh_wi__we-su_sh_wi"])
        model = (DailyModel.from_dict(pframe.make_doc(combo, tzp, dsettings)) if k % 2 == 0
                 else BillingModel.from_dict(pframe.make_doc(combo, tzp, bsettings)))
        o = model._predict(df.copy())
        res["evaluations"] += 1
        if not o.index.equals(df.index):
            res["oracle_failures"].append(dict(clause="daily_one_row_per_timestamp", api="_predict(frame)", rows_in=len(df), rows_out=len(o),
                                               temperature=[float(x) for x in T[:8]], observed=[float(x) for x in df["observed"][:8]] if has_obs else None,
                                               missing=[str(x) for x in df.index.difference(o.index)[:3]]))
        else:
            need = np.isfinite(T) & (np.isfinite(df["observed"].to_numpy(dtype=float)) if has_obs else True)
            got = np.isfinite(o["predicted"].to_numpy(dtype=float))
            if not np.array_equal(need, got):
                res["oracle_failures"].append(dict(clause="daily_finite_exactly_on_rows_with_temperature_and_usage", api="_predict(frame)",
                                                   temperature=[float(x) for x in T[:8]]))
        plines.append(pframe.frame_line(mode, has_obs, combo, wlabs, smap, df))
        pexpect.append(pframe.canon_out(o, has_obs, combo.split("__")))
        sigs.add(("pframe", n > 3, has_obs, bool(np.isinf(T).any())))

    # ---- function level: the literal transcription vs the real _transform_dst on arbitrary index lists (also ones no zone
    # produces: several operations per frame in any order, operations on neighbouring days, out-of-range hours)
    slines, sexpect = [], []
    if internal_ok:
        for k in range(int((150 if not thorough else 3000) * scale)):
            D = rng.choice([1, 2, 3, 5, 9])
            days = list(range(D))
            rng.shuffle(days)
            n_ops = rng.randrange(0, min(D, 4) + 1)
            interp, mean = [], []
            for dd in sorted(days[:n_ops]):
                if rng.random() < 0.5:
                    interp.append((dd, rng.choice([0, 1, 2, 3, 22, 23])))
                else:
                    mean.append((dd, rng.choice([0, 1, 2, 22, 23])))
            pred = np.arange(24 * D, dtype=float) * 1.5 + 0.25
            try:
                out = _transform_dst(pred.copy(), (list(interp), list(mean)))
                exp = "ok " + " ".join(fhex(x) for x in out)
            except (IndexError, StopIteration):
                exp = "raise"
            except Exception as e:  # noqa
                exp = "raise:" + type(e).__name__
            res["evaluations"] += 1
            enc = lambda ps: ",".join(f"{a}:{b}" for a, b in ps) if ps else "-"
            slines.append(f"dstsrc {enc(interp)} {enc(mean)} " + " ".join(fhex(x) for x in pred))
            sexpect.append(exp)
            sigs.add(("dstsrc", len(interp), len(mean), exp == "raise"))

    if ctx.get("model_ok", True):
        souts = core.run_driver(slines) if slines else []
        for o_, e_, l_ in zip(souts, sexpect, slines):
            res["traces"] += 1
            if o_.strip() != e_.strip():
                res["disagreements"].append(dict(op="dstsrc", line=l_[:120], lean=o_[:200], impl=e_[:200]))
        pouts = core.run_driver(plines)
        for o_, e_ in zip(pouts, pexpect):
            res["traces"] += 1
            if o_.strip() != e_.strip():
                res["disagreements"].append(dict(op="pframe", lean=o_[:300], impl=e_[:300]))
        outs = core.run_driver(lines)
        for o, (zone, t, impl, nrows) in zip(outs, metas):
            res["traces"] += 1
            if impl[0] == "skipped":
                continue
            if impl[0] == "err":
                if not o.startswith("err"):
                    res["disagreements"].append(dict(zone=zone, transition=t, lean=o[:80], impl=impl[1]))
                continue
            if not o.startswith("ok"):
                res["disagreements"].append(dict(zone=zone, transition=t, lean=o[:80], impl="ok"))
                continue
            parts = o.split(" | ")
            vals = [unhex(v) for v in parts[1].split()]
            if len(vals) != len(impl[1]) or any(a != b for a, b in zip(vals, impl[1])):
                res["disagreements"].append(dict(zone=zone, transition=t, ops=parts[0][:80], lean_len=len(vals), impl_len=len(impl[1])))
            # the literal transcription of the source's algorithm (EEM.Model.DstSrc) on the same index lists
            if len(parts) > 2:
                svals = None if parts[2].strip() == "raise" else [unhex(v) for v in parts[2].split()]
                if svals is None or len(svals) != len(impl[1]) or any(a != b for a, b in zip(svals, impl[1])):
                    res["disagreements"].append(dict(op="dst.source_transcription", zone=zone, transition=t, ops=parts[0][:80],
                                                     lean_len=None if svals is None else len(svals), impl_len=len(impl[1])))
    res["samples"] = [dict(zone=m_[0], transition_utc=m_[1], rows=m_[3]) for m_ in metas[:3]]
    res["distinct_nontrivial"] = len(sigs)
    res["exhaustive"] = False
    res["rule"] = ("IANA zones (quick: 20 covering whole-hour, 30-minute, midnight and southern-hemisphere changes; thorough: all of "
                   "zoneinfo.available_timezones()) x their UTC-offset transitions 2000-2037 (first/last two and a random sample: 6 per zone quick, 12 per zone thorough) x windows with "
                   "the transition day interior, first and in a frame that starts/ends mid-day; whole predict() with and without observed on a "
                   "sample; daily/billing predict() on frames with NaN-temperature and NaN-usage days. distinct = (shift seconds, local hour of "
                   "the change, transition on first day?, trimmed end?) and daily (zone, observed?, has missing temperature?)")
    return res


def pytz_utc(t):
    return t


def replay_finding(entry):
    from opendsm.eemeter.models.hourly.model import _get_dst_indices, _transform_dst
    from opendsm.eemeter.models.hourly.data import HourlyReportingData
    w = entry["witness"]
    df = hourly_frame(w["zone"], dt.date.fromisoformat(w["first_local_date"]), w["days"], w.get("start_hour", 0), w.get("end_trim", 0))
    d = HourlyReportingData(df, is_electricity_data=True).df
    D = len(set(d.index.date))
    try:
        out = _transform_dst(np.arange(24 * D, dtype=float), _get_dst_indices(d))
        return len(out) != len(d)
    except Exception:  # noqa
        return True


def replay(obj):
    r = run(dict(tier="quick", seed=obj.get("seed", 0), model_ok=False, findings=[]))
    return r["oracle_failures"]


LEVEL_TEXT = ("Lean 4 theorems about an executable model of the hourly clock normalisation and of the daily frame assembly: for ANY number "
              "of days and any number and order of 23/25-row days the mapped-back prediction has exactly one value per row (so it can be "
              "assigned row by row), values before a transition keep their slot, a skipped hour stays absent, a repeated hour gets two "
              "values, nothing crosses a day boundary (except the one average across midnight when 23:00 repeats); daily predict returns "
              "exactly the frame's timestamps in order and a prediction exactly on rows with finite temperature (and usage). The DST model "
              "is tied to the real _get_dst_indices/_transform_dst on frames of real data objects over IANA zones x transitions. "
              "The algorithm the source actually runs (flat indices, sorted operations, fence-post slices, an iterator of interpolated values) is "
              "transcribed literally (EEM.Model.DstSrc) and PROVED equal to the per-day model for every frame of whole days "
              "(C06_src_transform_is_per_day; exclusions: a repeated 23:00 on the last day, where the source raises, and a repeated 23:00 directly "
              "followed by a skipped 00:00, shown to be a real exclusion); the transcription is run against the real function on arbitrary index lists, and the statements of "
              "_get_dst_indices/_transform_dst it was made from are re-extracted from the source on every run (Gen/DstStatements) and proved "
              "equal to the frozen ones.")
LEVEL_NOTE = ("Trusted: Lean kernel + standard axioms; hand models validated by T2 only; the tz database (pytz/zoneinfo); 'hourly "
              "predictions are finite' depends on ElasticNet output and is observed by the oracle only; positional assignment of the "
              "prediction array onto the frame (pandas) is what turns the length theorem into one-row-per-timestamp.")
TECHNIQUE = ("Lean 4 proof (list lemmas over an executable per-day model, any number of days/transitions; refinement proof that the literal "
             "transcription of _transform_dst - sorted flat operations, fence-post slices - equals the per-day model) + statement table regenerated from the source + zone x transition "
             "and function-level differential correspondence")
ASSUMPTIONS = ["every row's clock hour is a whole hour of the local day (30-minute zones produce 24-row days and no correction)",
               "daily: index labels unique and time-sorted; routing uniqueness is C13's theorem"]
