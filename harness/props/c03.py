"""C03 — fitting is reproducible (PARTIAL: logic proved, runtime determinism observed).

T1: the nondeterminism table (`EEM.Gen.Nondet`) is regenerated from /repo on every run and proved
equal to the frozen expectation.  T2: `BaseHourlySettings._check_seed` vs `effectiveSeed` for
seeds {None, 0, 1, 42, 2**31} under different global RNG states.
Oracle: real fits — identical `to_json()` and identical predictions for the same data, settings
and seed: twice in one process, after unrelated fits, with the global numpy/stdlib RNG perturbed,
in fresh processes, under different thread-count settings and with concurrent workers."""
from __future__ import annotations

import json
import os
import random
import subprocess
import sys
import warnings
from concurrent.futures import ThreadPoolExecutor

import numpy as np

from .. import core
from . import c03_worker

ID = "C03"
LEAN_MODULE = "EEM.Props.C03"
BUILD_TARGETS = ["EEM.Props.C03"]
MODEL_TARGETS = ["EEM.Model.Nondet", "EEM.Gen.Nondet"]
DESIGN_REF = "DESIGN.md §5 C03"
WORKER = os.path.join(os.path.dirname(os.path.abspath(__file__)), "c03_worker.py")


def run_worker(spec, env_extra=None):
    env = dict(os.environ)
    env.update(env_extra or {})
    env["NUMBA_CACHE_DIR"] = os.path.join(core.VERIF, ".numba_cache")
    env["PYTHONPATH"] = core.REPO + os.pathsep + env.get("PYTHONPATH", "")      # the worker fits the tree under test
    p = subprocess.run([sys.executable, WORKER, json.dumps(spec)], capture_output=True, text=True, env=env, cwd=core.VERIF, timeout=1500)
    for line in p.stdout.splitlines():
        if line.startswith("RESULT "):
            return json.loads(line[7:])
    return dict(error=(p.stderr or p.stdout)[-400:])


def specs_for(rng, thorough):
    kinds = ["both", "heating", "cooling", "seasonal", "weekday_weekend", "flat", "outliers", "smooth"]
    out = []
    # two heavy-tailed meters first: their adaptive-loss searches visit interior alphas, so anything the first fit leaves behind in
    # the process (caches keyed on coarse values, accumulators) is met again by the second — which is also fitted in fresh processes
    out.append(dict(family="daily", profile="current", meter_seed=rng.randrange(1 << 20), kind="outliers"))
    out.append(dict(family="daily", profile="current", meter_seed=rng.randrange(1 << 20), kind="outliers"))
    out.append(dict(family="daily", profile="legacy", meter_seed=rng.randrange(1 << 20), kind=rng.choice(kinds)))
    out.append(dict(family="billing", profile="billing", meter_seed=rng.randrange(1 << 20), kind=rng.choice(kinds[:3])))
    out.append(dict(family="hourly", meter_seed=rng.randrange(1 << 10), seed=0))
    out.append(dict(family="hourly", meter_seed=rng.randrange(1 << 10), seed=rng.choice([1, 42, 2 ** 31])))
    # an hourly meter with gaps next to both ends of the series and partial first / last days
    out.append(dict(family="hourly", meter_seed=rng.randrange(1 << 10), seed=5, edge_gaps=True))
    # the CalTRACK hourly family (fresh processes differ in their string-hash seed: nothing may depend on set / dict-of-str iteration order)
    out.append(dict(family="caltrack", meter_seed=rng.randrange(1 << 10)))
    # the non-default iterative path (adaptive sample weights): several ElasticNet solves per fit
    out.append(dict(family="hourly", meter_seed=rng.randrange(1 << 10), seed=3, adaptive=True))
    if thorough:
        for _ in range(6):
            out.append(dict(family="daily", profile=rng.choice(["current", "legacy"]), meter_seed=rng.randrange(1 << 20), kind=rng.choice(kinds)))
        out.append(dict(family="hourly", meter_seed=rng.randrange(1 << 10), seed=7))
    return out


def run(ctx):
    warnings.filterwarnings("ignore")
    rng = random.Random(ctx["seed"] * 1299709 + 3)
    thorough = ctx["tier"] == "thorough"
    scale = ctx.get("budget_scale", 1)
    res = dict(evaluations=0, disagreements=[], oracle_failures=[], finding_instances={}, samples=[], hist={}, traces=0)
    sigs = set()

    # ---- T2: effective seed of real settings objects vs the model
    from opendsm.eemeter.models.hourly.settings import HourlyNonSolarSettings as HourlySettings
    lines, metas = [], []
    for seed in [None, 0, 1, 42, 2 ** 31, rng.randrange(2, 10 ** 6)]:
        for g in [0, 1, 12345, rng.randrange(1 << 30)]:
            np.random.seed(g)
            expect_draw = int(np.random.randint(0, 2 ** 32 - 1, dtype=np.int64))
            np.random.seed(g)
            s = HourlySettings() if seed is None else HourlySettings(seed=seed)
            eff = int(s._seed)
            ok_prop = (eff == int(s.elasticnet._seed) == int(s.temporal_cluster._seed))
            if not ok_prop:
                res["oracle_failures"].append(dict(case=dict(seed=seed, np_seed=g), clause="seed_propagated_to_all_consumers",
                                                   detail=dict(_seed=eff, elasticnet=int(s.elasticnet._seed), temporal_cluster=int(s.temporal_cluster._seed))))
            if seed is not None and eff != seed:
                res["oracle_failures"].append(dict(case=dict(seed=seed, np_seed=g), clause="given_seed_is_used_as_given", detail=dict(effective_seed=eff)))
            lines.append(f"seed {'none' if seed is None else seed} {expect_draw}")
            metas.append((seed, g, eff))
            res["evaluations"] += 1
            sigs.add(("seed", seed is None, seed == 0))
    if ctx.get("model_ok", True):
        outs = core.run_driver(lines)
        for out, (seed, g, eff) in zip(outs, metas):
            res["traces"] += 1
            if out != f"ok {eff}":
                res["disagreements"].append(dict(op="seed", seed=seed, np_seed=g, lean=out, impl=eff))

    # ---- oracle: real fits
    specs = specs_for(rng, thorough or scale > 1)
    for spec in specs:
        tag = f"{spec['family']}:{spec.get('profile', 'seed=' + str(spec.get('seed')))}"
        res["hist"][tag] = res["hist"].get(tag, 0) + 1
        runs = {}
        try:
            # (1) twice in this process, global RNG perturbed differently before each fit
            runs["in_process_a"] = c03_worker.fit_spec(dict(spec, np_seed=1))
            # (2) after an unrelated fit (history), global RNG in yet another state
            # the unrelated fit uses ANOTHER settings profile (anything derived or cached for it must not reach this one)
            other = dict(family="daily", profile={"current": "legacy", "legacy": "current"}.get(spec.get("profile"), "current"),
                         meter_seed=spec["meter_seed"] + 17, kind="outliers" if spec.get("kind") == "outliers" else "heating")
            c03_worker.fit_spec(dict(other, np_seed=5))
            runs["in_process_after_other_fit"] = c03_worker.fit_spec(dict(spec, np_seed=2))
            # (2b) the SAME model object fitted and used for another meter first (a portfolio loop re-using one object)
            if spec["family"] != "caltrack":
                runs["in_process_reused_model_object"] = c03_worker.fit_spec(dict(spec, np_seed=6, reuse_object=True))
        except Exception as e:  # noqa
            res["oracle_failures"].append(dict(case=spec, clause="fit_runs", detail=dict(error=f"{type(e).__name__}: {e}"[:300])))
            continue
        # (3) fresh processes: thread-count knobs, warm history, concurrent workers
        jobs = [("fresh_1_thread", dict(spec, np_seed=3), dict(OMP_NUM_THREADS="1", OPENBLAS_NUM_THREADS="1", MKL_NUM_THREADS="1", NUMBA_NUM_THREADS="1", PYTHONHASHSEED="1")),
                ("fresh_other_hash_seed", dict(spec, np_seed=3), dict(OMP_NUM_THREADS="1", OPENBLAS_NUM_THREADS="1", MKL_NUM_THREADS="1", NUMBA_NUM_THREADS="1", PYTHONHASHSEED="2718")),
                ("fresh_4_threads_warm", dict(spec, np_seed=4, warm=other), dict(OMP_NUM_THREADS="4", OPENBLAS_NUM_THREADS="4", MKL_NUM_THREADS="4", NUMBA_NUM_THREADS="4"))]
        if thorough or scale > 1:
            jobs += [(f"fresh_concurrent_{i}", dict(spec, np_seed=10 + i), dict(OMP_NUM_THREADS=str(1 + i % 16))) for i in range(6 if not thorough else 14)]
        with ThreadPoolExecutor(max_workers=min(16, len(jobs))) as ex:
            for (name, _, _), r in zip(jobs, ex.map(lambda j: run_worker(j[1], j[2]), jobs)):
                runs[name] = r
        res["evaluations"] += len(runs)
        ref = runs["in_process_a"]
        sigs.add((tag, len(runs)))
        # number of BLAS / OpenMP threads each run had ("default" = whatever this process has)
        threads_of = {"fresh_1_thread": "1", "fresh_other_hash_seed": "1", "fresh_4_threads_warm": "4"}
        for name, r in runs.items():
            if "error" in r:
                res["oracle_failures"].append(dict(case=spec, clause="fit_runs", detail=dict(run=name, error=r["error"])))
                continue
            # compared with a reference run of the SAME thread count where there is one, else with the in-process reference
            tc = threads_of.get(name, "default")
            ref_name = "fresh_1_thread" if (tc == "1" and name != "fresh_1_thread" and "json" in runs.get("fresh_1_thread", {})) else "in_process_a"
            rr = runs[ref_name]
            if r["json"] != rr["json"] or r["pred"] != rr["pred"]:
                f_ = dict(case=spec, clause="same_data_settings_seed_same_model",
                          detail=dict(reference_run=ref_name, differing_run=name, reference=rr, got=r,
                                      threads=dict(reference=threads_of.get(ref_name, "default"), differing=tc)))
                # C03-F1: the CalTRACK hourly fit (statsmodels WLS / LAPACK) differs in the last bits with the BLAS thread count —
                # recognised from the INPUT alone: the family is caltrack and the two runs had different thread counts
                if spec["family"] == "caltrack" and threads_of.get(ref_name, "default") != tc:
                    d = res["finding_instances"].setdefault("C03-F1", dict(count=0, example=None))
                    d["count"] += 1
                    d["example"] = d["example"] or f_
                    continue
                res["oracle_failures"].append(f_)
                break
        if len(res["samples"]) < 3:
            res["samples"].append(dict(spec=spec, runs={k: v.get("json") for k, v in runs.items()}))
    res["distinct_nontrivial"] = len(sigs)
    res["rule"] = ("settings objects with seed in {None, 0, 1, 42, 2^31, random} built under four global RNG states; real fits of synthetic meters "
                   "(daily current / legacy, billing, hourly with seed 0 and another seed) repeated in-process with the global RNG perturbed, after an "
                   "unrelated fit, with one model object re-used after fitting and predicting another meter, in fresh processes with 1 and 4 BLAS/OMP/numba threads and a warm history, and (thorough) up to 14 concurrent "
                   "workers; distinct = (family/profile, number of runs compared)")
    return res


def replay_finding(entry):
    if entry.get("id") == "C03-F1":
        # the CalTRACK hourly fit under 1 and 4 BLAS threads (same hash seed)
        spec = dict(entry["witness"]["case"], np_seed=3)
        env = lambda n: dict(OMP_NUM_THREADS=n, OPENBLAS_NUM_THREADS=n, MKL_NUM_THREADS=n, NUMBA_NUM_THREADS=n, PYTHONHASHSEED="1")  # noqa
        with ThreadPoolExecutor(max_workers=2) as ex:
            a, b = list(ex.map(lambda n: run_worker(spec, env(n)), ["1", "4"]))
        return "json" in a and "json" in b and (a["json"] != b["json"] or a["pred"] != b["pred"])
    return False


def replay(obj):
    spec = obj["case"]
    if "family" not in spec:
        from opendsm.eemeter.models.hourly.settings import HourlyNonSolarSettings as HourlySettings
        np.random.seed(spec["np_seed"])
        s = HourlySettings() if spec["seed"] is None else HourlySettings(seed=spec["seed"])
        return [] if spec["seed"] is None or int(s._seed) == spec["seed"] else [("given_seed_is_used_as_given", dict(effective_seed=int(s._seed)))]
    a = c03_worker.fit_spec(dict(spec, np_seed=1))
    b = c03_worker.fit_spec(dict(spec, np_seed=2))
    return [] if a == b else [("same_data_settings_seed_same_model", dict(a=a, b=b))]


LEVEL_TEXT = ("PARTIAL. Lean 4 theorems: the table of every global-RNG draw, every random_state=/seed= argument, every mutable default argument "
              "and every `global` statement in opendsm/eemeter and opendsm/common, regenerated from the source on every run, equals the frozen "
              "expectation (one global draw, guarded by `self.seed is None`; ElasticNet and each bisecting k-means seeded from the settings; no "
              "mutable default mutated); a given seed (including 0) is used as given; with a seed the seeds of all draws, hence the fit of the "
              "abstract model, do not depend on process history. NOT proved: determinism of NLopt, numba, BLAS, scikit-learn and the OS — "
              "observed by the oracle on real fits.")
LEVEL_NOTE = ("The abstract fit assumes its numerical core is a function of data, settings and draw seeds; the AST extractor sees direct calls "
              "(np.random.*, random.*, random_state=, seed=), not RNG use hidden behind other names or inside third-party libraries.")
TECHNIQUE = "Lean 4 proof over a table regenerated from source (decide +kernel) + non-interference induction; runtime determinism by repeated real fits (partial)"
ASSUMPTIONS = ["third-party numerical code (NLopt, numba, BLAS, scikit-learn) is deterministic given inputs, seeds and one thread — observed, not proved",
               "the extractor recognises RNG use by name; an RNG reached through an alias would be missed by the table (the oracle still fits twice under different global RNG states)"]
