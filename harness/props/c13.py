"""C13 — each day is predicted by exactly one sub-model: that of its season and day type.

T1: the candidate split strings are dumped from the live `_combinations()` (Gen/SplitCandidates).
T2: real `_combinations()` under all 16 allow-flag sets x count profiles, `predict()['model_split']`
for every date of a leap and a non-leap year under random season/weekday maps (several model
objects alive at once, used in shuffled order), and `_best_combination` vs. the Lean model."""
from __future__ import annotations

import datetime as dt
import itertools
import random
import warnings

import numpy as np
import pandas as pd

from .. import core
from ..core import fhex

ID = "C13"
LEAN_MODULE = "EEM.Props.C13"
BUILD_TARGETS = ["EEM.Props.C13"]
MODEL_TARGETS = ["EEM.Model.Splits", "EEM.Gen.SplitCandidates", "EEM.Model.DailyCurve", "EEM.Proto"]
DESIGN_REF = "DESIGN.md §5 C13"

MONTHS = ["january", "february", "march", "april", "may", "june", "july", "august", "september",
          "october", "november", "december"]
DAYS = ["monday", "tuesday", "wednesday", "thursday", "friday", "saturday", "sunday"]
SEASONS = {"su": "summer", "sh": "shoulder", "wi": "winter"}


def _tidd(c):
    return dict(coefficients=dict(model_type="tidd", intercept=c, hdd_bp=None, hdd_beta=None, hdd_k=None,
                                  cdd_bp=None, cdd_beta=None, cdd_k=None),
                temperature_constraints=dict(T_min=0.0, T_max=100.0, T_min_seg=10.0, T_max_seg=90.0), f_unc=1.0)


def candidates_live():
    from ..py2lean.tables import split_candidates  # noqa: F401  (same recipe as the extractor)
    from opendsm.eemeter.models.daily.model import DailyModel
    m = DailyModel(settings=dict(developer_mode=True, silent_developer_mode=True,
                                 split_selection=dict(reduce_splits_by_gaussian=False)))
    rows = [(s, d) for s in ("summer", "shoulder", "winter") for d in range(1, 8) for _ in range(20)]
    m.df_meter = pd.DataFrame(rows, columns=["season", "day_of_week"])
    return m._combinations()


def spec_component(combo, season_name, is_weekend):
    """independent (Python) statement of the property: the component whose cell contains the day"""
    hits = []
    for comp in combo.split("__"):
        pre, seasons = comp[:2], [SEASONS[s] for s in comp[3:].split("_")]
        if season_name in seasons and (pre == "fw" or (pre == "we") == is_weekend):
            hits.append(comp)
    return hits


def run(ctx):
    warnings.filterwarnings("ignore")
    from opendsm.eemeter.models.daily.model import DailyModel
    from opendsm.eemeter.models.daily.data import DailyReportingData

    rng = random.Random(ctx["seed"] * 104729 + 13)
    thorough = ctx["tier"] == "thorough"
    scale = ctx.get("budget_scale", 1)
    res = dict(evaluations=0, disagreements=[], oracle_failures=[], finding_instances={}, samples=[], hist={}, traces=0)
    sigs = set()
    lines, metas = [], []
    cands = candidates_live()
    res["hist"]["candidates"] = len(cands)

    # ---- oracle: every live candidate partitions the six cells; the unsplit model is there
    for c in cands:
        res["evaluations"] += 1
        for s in SEASONS.values():
            for we in (False, True):
                if len(spec_component(c, s, we)) != 1:
                    res["oracle_failures"].append(dict(clause="candidates_partition", candidate=c, season=s, weekend=we,
                                                       components=spec_component(c, s, we)))
        lines.append(f"parse {c}")
        metas.append(("parse", c))
    if "fw-su_sh_wi" not in cands:
        res["oracle_failures"].append(dict(clause="unsplit_is_candidate", candidates=cands[:5]))

    # ---- (1) trimming: all 16 allow-flag sets x count profiles
    profiles = [dict(su=(140, 40), sh=(120, 34), wi=(100, 30)),        # plenty
                dict(su=(29, 8), sh=(120, 34), wi=(100, 30)),          # summer one day short
                dict(su=(30, 8), sh=(30, 7), wi=(100, 30)),            # exactly 30; shoulder weekends 7 (< 8)
                dict(su=(31, 9), sh=(0, 0), wi=(60, 8)),               # a season absent
                dict(su=(60, 7), sh=(60, 1), wi=(60, 0)),              # weekends scarce: only merged seasons reach 8
                dict(su=(200, 57), sh=(100, 28), wi=(65, 19))]
    if thorough or scale > 1:
        for _ in range(int(10 * scale)):
            profiles.append({k: (n := rng.choice([0, 20, 29, 30, 31, 90, 150]), min(n, rng.choice([0, 3, 7, 8, 9, 30])))
                             for k in ("su", "sh", "wi")})
    for flags in itertools.product([True, False], repeat=4):
        for prof in profiles:
            m = DailyModel(settings=dict(developer_mode=True, silent_developer_mode=True,
                                         split_selection=dict(allow_separate_summer=flags[0], allow_separate_shoulder=flags[1],
                                                              allow_separate_winter=flags[2],
                                                              allow_separate_weekday_weekend=flags[3],
                                                              reduce_splits_by_gaussian=False)))
            rows = []
            for ab, (n, nwe) in prof.items():
                rows += [(SEASONS[ab], 6 if i % 2 else 7) for i in range(nwe)] + [(SEASONS[ab], 1 + i % 5) for i in range(n - nwe)]
            m.df_meter = pd.DataFrame(rows, columns=["season", "day_of_week"])
            kept = m._combinations()
            res["evaluations"] += 1
            sigs.add(("trim", len(kept)))
            # oracle on the implementation
            if "fw-su_sh_wi" not in kept:
                res["oracle_failures"].append(dict(clause="unsplit_always_candidate", flags=flags, profile=prof, kept=kept))
            for c in kept:
                if c == "fw-su_sh_wi":
                    continue
                comps = c.split("__")
                if not flags[3] and any(x.startswith("wd") or x.startswith("we") for x in comps):
                    res["oracle_failures"].append(dict(clause="forbidden_weekday_split_kept", flags=flags, profile=prof, candidate=c))
                for x in comps:
                    ss = x[3:].split("_")
                    if len(ss) == 1 and (not flags["su sh wi".split().index(ss[0])] or prof[ss[0]][0] < 30):
                        res["oracle_failures"].append(dict(clause="forbidden_or_unsupported_season_isolated", flags=flags,
                                                           profile=prof, candidate=c))
                    if sum(prof[s][1] for s in ss) < 8:
                        res["oracle_failures"].append(dict(clause="component_without_enough_weekend_days", flags=flags,
                                                           profile=prof, candidate=c))
            f01 = " ".join("1" if f else "0" for f in flags)
            lines.append(f"trim {f01} {prof['su'][0]} {prof['sh'][0]} {prof['wi'][0]} {prof['su'][1]} {prof['sh'][1]} {prof['wi'][1]}")
            metas.append(("trim", flags, prof, kept))

    # ---- (2) routing: several models with different maps alive at once, predicted in shuffled order
    # west AND east of Greenwich in every tier: local midnight east of Greenwich is the previous day in UTC, so a routing that
    # reads the date from the UTC instant is only visible there
    zones = ["America/Chicago", "Australia/Sydney"] + (["Asia/Riyadh", "Europe/Berlin", "Pacific/Auckland"] if thorough or scale > 1 else [])
    data = {}
    for z in zones:
        idx = pd.date_range("2020-01-01", "2022-01-01", freq="h", tz=z, inclusive="left")
        df = pd.DataFrame({"temperature": 55.0 + 20 * np.sin(np.arange(len(idx)) / 8760 * 2 * np.pi)}, index=idx)
        data[z] = DailyReportingData(df, is_electricity_data=True)
    n_models = int((8 if not thorough else 120) * scale)
    batch = []
    base_settings = DailyModel().settings.model_dump()
    for k in range(n_models):
        combo = rng.choice(cands)
        st = {kk: (dict(v) if isinstance(v, dict) else v) for kk, v in base_settings.items()}
        if k % 3 != 0:      # custom season map (standard names)
            names = ["summer", "shoulder", "winter"]
            st["season"] = {m: rng.choice(names) for m in MONTHS} | {"options": names}
        if k % 2 == 1:      # custom weekday map, incl. no weekend at all / shifted weekends
            choice = rng.choice(["frisat", "none", "random", "allweekend"])
            labs = {"frisat": ["weekday"] * 4 + ["weekend", "weekend", "weekday"], "none": ["weekday"] * 7,
                    "allweekend": ["weekend"] * 7,
                    "random": [rng.choice(["weekday", "weekend"]) for _ in range(7)]}[choice]
            st["weekday_weekend"] = dict(zip(DAYS, labs)) | {"options": ["weekday", "weekend"]}
        comps = combo.split("__")
        doc = dict(submodels={c: _tidd(float(i + 1)) for i, c in enumerate(comps)},
                   info=dict(error={}, baseline_timezone=rng.choice(zones), disqualification=[], warnings=[]), settings=st)
        batch.append((doc, combo))
    models = [DailyModel.from_dict(doc) for doc, _ in batch]          # all constructed first
    order = list(range(len(models)))
    rng.shuffle(order)
    for k in order:
        doc, combo = batch[k]
        z = doc["info"]["baseline_timezone"]
        out = models[k].predict(data[z])
        smap = {i + 1: doc["settings"]["season"][m] for i, m in enumerate(MONTHS)}
        wlabs = [doc["settings"]["weekday_weekend"][d] for d in DAYS]
        comps = combo.split("__")
        res["hist"]["routing_models"] = res["hist"].get("routing_models", 0) + 1
        sigs.add(("route", combo, tuple(wlabs)))
        if len(out) != len(data[z].df):
            res["oracle_failures"].append(dict(clause="one_row_per_day", combo=combo, rows=len(out), expected=len(data[z].df)))
        seen = set()
        for ts, split, pred in zip(out.index, out["model_split"], out["predicted"]):
            d = ts.date()
            dow = dt.date(d.year, d.month, d.day).weekday() + 1
            season = smap[d.month]
            hits = spec_component(combo, season, wlabs[dow - 1] == "weekend")
            res["evaluations"] += 1
            ok = len(hits) == 1 and split == hits[0] and pred == float(comps.index(hits[0]) + 1)
            if not ok:
                res["oracle_failures"].append(dict(clause="routing", document=doc, date=str(d), season=season, day_of_week=dow,
                                                   weekday_label=wlabs[dow - 1], expected_component=hits,
                                                   model_split=None if split != split else split, predicted=float(pred),
                                                   note="models constructed first, then predicted in shuffled order"))
                break
            if (season, dow) not in seen:
                seen.add((season, dow))
                lines.append(f"route {combo} {','.join(wlabs)} {season} {dow}")
                metas.append(("route", combo, wlabs, season, dow, split))
        if len(res["samples"]) < 2:
            res["samples"].append(dict(split=combo, weekday_labels=wlabs, season_map=smap, zone=z, days=len(out)))

    # ---- (3) best combination: the real scan with injected criteria
    for _ in range(int((40 if not thorough else 1500) * scale)):
        k = rng.randint(1, 12)
        names = rng.sample(cands, k)
        vals = [rng.choice([1.0, 2.0, 2.0, 0.5, -1.0, round(rng.uniform(-3, 3), rng.choice([0, 1, 4]))]) for _ in names]
        m = DailyModel()
        m.combinations = names
        table = dict(zip(names, vals))
        m._combination_selection_criteria = lambda c, table=table: table[c]
        b = m._best_combination()
        res["evaluations"] += 1
        if b not in names or any(table[b] > v for v in vals):
            res["oracle_failures"].append(dict(clause="best_is_min", names=names, criteria=vals, chosen=b))
        lines.append("best " + " ".join(f"{n} {fhex(v)}" for n, v in zip(names, vals)))
        metas.append(("best", names, vals, b))
        sigs.add(("best", k, len(set(vals)) < len(vals)))

    # ---- model side
    if ctx.get("model_ok", True):
        outs = core.run_driver(lines)
        for out, meta in zip(outs, metas):
            res["traces"] += 1
            kind = meta[0]
            if kind == "parse":
                exp = "ok " + " ".join(meta[1].split("__"))
                if out != exp:
                    res["disagreements"].append(dict(op="parse", combo=meta[1], lean=out, impl=exp))
            elif kind == "trim":
                exp = "ok " + " ".join(meta[3])
                if out.strip() != exp.strip():
                    res["disagreements"].append(dict(op="trim", flags=meta[1], profile=meta[2], lean=out[:400], impl=exp[:400]))
            elif kind == "route":
                _, combo, wlabs, season, dow, split = meta
                exp = "ok " + ("" if split != split else str(split))
                if out.strip() != exp.strip():
                    res["disagreements"].append(dict(op="route", combo=combo, wmap=wlabs, season=season, dow=dow, lean=out, impl=exp))
            elif kind == "best":
                if out != f"ok {meta[3]}":
                    res["disagreements"].append(dict(op="best", names=meta[1], criteria=meta[2], lean=out, impl=meta[3]))
    res["distinct_nontrivial"] = len(sigs)
    res["exhaustive"] = False
    res["rule"] = ("all live candidates; all 16 allow-flag sets x count profiles (seasons with 0/29/30/31 days, 7/8/9 weekend days) "
                   "through the real _combinations; stored documents over random candidates x season maps x weekday maps (incl. no weekend, "
                   "all weekend, Fri/Sat) predicted for every day of 2020 (leap) and 2021, all model objects constructed before any is used; "
                   "the real _best_combination scan with injected criteria incl. ties. distinct = (kept count), (split, weekday labels), "
                   "(candidate count, has ties)")
    return res


def replay_finding(entry):
    return False


def replay(obj):
    r = run(dict(tier="quick", seed=obj.get("seed", 0), model_ok=False))
    return r["oracle_failures"]


LEVEL_TEXT = ("Lean 4 theorems: the candidate split strings are dumped from the live _combinations() on every run and proved, by "
              "kernel evaluation of the component parser over the complete table, to partition the six (season, day-type) cells; routing "
              "uniqueness is proved for EVERY exact-cover split, every weekday map and season (structural, not enumerated); trimming is "
              "proved to keep the unsplit model and never keep a forbidden / unsupported split for all flag sets and all day counts; the "
              "hall-of-fame scan is proved to return a member with minimal criterion (induction over the candidate list, over R).")
LEVEL_NOTE = ("Trusted: Lean kernel + standard axioms; table extractor; hand models of _trim_combinations, _meter_segment and "
              "_best_combination (validated by T2 against the real methods); the Gaussian split filter and the selection criterion values "
              "are parameters; season labels other than summer/shoulder/winter are outside the routing theorem (see DESIGN.md C13).")
TECHNIQUE = "Lean 4 proof (decide +kernel over regenerated candidate table; structural proofs for routing/trim/min) + differential correspondence"
ASSUMPTIONS = ["selection criteria are finite reals (NaN/inf criteria excluded)",
               "season and weekday labels are the standard names (custom `options` lists excluded)",
               "ellipsoid_split_filter (Gaussian filter) is an external parameter of the trim model"]
