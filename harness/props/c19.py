"""C19 — billing aggregation of predictions conserves totals.

T2: real `BillingModel.predict(aggregation=...)` on stored models (from_dict) and
BillingReportingData objects (irregular read calendars, partial first/last months, gaps,
with/without observed, several timezones incl. east of UTC) vs. the Lean model
(EEM.Model.BillingAgg).  Oracle: per-period sums/means/rss recomputed independently from the
daily rows bucketed by LOCAL calendar month; totals equal at every level; bad arguments rejected."""
from __future__ import annotations

import math
import random
import warnings

import numpy as np
import pandas as pd

from .. import core
from ..core import fhex, unhex, close

ID = "C19"
LEAN_MODULE = "EEM.Props.C19"
BUILD_TARGETS = ["EEM.Props.C19"]
MODEL_TARGETS = ["EEM.Model.BillingAgg", "EEM.Proto"]
DESIGN_REF = "DESIGN.md §5 C19"
COLS = ["temperature", "observed", "predicted", "predicted_unc", "heating_load", "cooling_load"]
SUMCOLS = ["observed", "predicted", "heating_load", "cooling_load"]


def _doc(tz, settings, rng):
    def sub(c, shape):
        co = dict(model_type=shape, intercept=c, hdd_bp=None, hdd_beta=None, hdd_k=None, cdd_bp=None, cdd_beta=None, cdd_k=None)
        if shape == "hdd_tidd_cdd":
            co.update(hdd_bp=55.0, hdd_beta=0.7, cdd_bp=68.0, cdd_beta=1.1)
        elif shape == "hdd_tidd":
            co.update(hdd_bp=60.0, hdd_beta=-0.5)
        return dict(coefficients=co, temperature_constraints=dict(T_min=0.0, T_max=100.0, T_min_seg=10.0, T_max_seg=90.0),
                    f_unc=rng.choice([0.0, 1.5, 3.25]))
    split = rng.choice([["fw-su_sh_wi"], ["fw-sh_wi", "fw-su"], ["wd-su_sh_wi", "we-su_sh_wi"]])
    return dict(submodels={c: sub(10.0 + 3 * i, rng.choice(["hdd_tidd_cdd", "hdd_tidd", "tidd"])) for i, c in enumerate(split)},
                info=dict(error={}, baseline_timezone=tz, disqualification=[], warnings=[]), settings=settings)


def gen_data(rng, tz):
    from opendsm.eemeter.models.billing.data import BillingReportingData
    start = pd.Timestamp(2019 + rng.randrange(3), rng.randrange(1, 13), rng.choice([1, 1, 2, 10, 15, 28]), tz=tz)
    n_days = rng.choice([20, 45, 95, 200, 400])
    idx = pd.date_range(start, periods=n_days * 24, freq="h")
    t = 55 + 25 * np.sin(np.arange(len(idx)) / 8760 * 2 * np.pi + rng.random() * 6) + 3 * np.sin(np.arange(len(idx)) / 24 * 2 * np.pi)
    temp = pd.Series(t, index=idx, name="temperature")
    if rng.random() < 0.5 and n_days > 60:          # a temperature gap of more than a month (=> NaN days, maybe an empty period)
        a = rng.randrange(24 * 5, len(idx) - 24 * 50)
        temp.iloc[a:a + 24 * rng.choice([3, 20, 45])] = np.nan
    with_obs = rng.random() < 0.7
    meter = None
    if with_obs:
        # the first read may come well after the weather starts (leading periods without observed/predicted)
        reads, tcur = [], start + pd.Timedelta(days=rng.choice([0, 0, 0, 17, 31, 45, 62]))
        while tcur <= idx[-1]:
            reads.append(tcur)
            tcur = tcur + pd.Timedelta(days=rng.choice([27, 29, 30, 31, 33]))
        if len(reads) < 2:
            reads = [start, start + pd.Timedelta(days=n_days - 1)]
        vals = [round(rng.uniform(200, 600), 1) for _ in reads]
        if rng.random() < 0.3 and len(vals) > 3:
            vals[rng.randrange(len(vals) - 1)] = np.nan
        vals[-1] = np.nan
        meter = pd.Series(vals, index=pd.DatetimeIndex(reads), name="observed")
    rd = BillingReportingData.from_series(meter, temp, is_electricity_data=True)
    return rd, with_obs, dict(tz=tz, start=str(start), n_days=n_days, with_observed=with_obs)


def ym_of(ts):
    return ts.year * 12 + ts.month - 1


def oracle(daily, agg_df, k, with_obs):
    """independent recomputation from the daily rows bucketed by LOCAL month"""
    fails = []
    if len(daily) == 0:
        return fails
    m0 = ym_of(daily.index[0])
    last = (ym_of(daily.index[-1]) - m0) // k
    if len(agg_df) != last + 1:
        fails.append(("one_row_per_period", dict(rows=len(agg_df), expected=last + 1)))
        return fails
    yms = np.array([ym_of(t) for t in daily.index])
    for p in range(last + 1):
        lab = agg_df.index[p]
        if ym_of(lab) != m0 + k * p or lab.day != 1 or lab.hour != 0:
            fails.append(("period_label", dict(period=p, label=str(lab), expected_month_index=m0 + k * p)))
            break
        grp = daily[(yms - m0) // k == p]
        for c in SUMCOLS:
            if c == "observed" and not with_obs:
                continue
            exp = float(np.nansum(grp[c].to_numpy(dtype=float))) if len(grp) else 0.0
            got = float(agg_df[c].iloc[p])
            if not close(got, exp, 1e-9):
                fails.append(("period_sum", dict(column=c, period=str(lab), got=got, daily_rows_give=exp)))
        tv = grp["temperature"].to_numpy(dtype=float)
        tv = tv[~np.isnan(tv)]
        exp = float(np.mean(tv)) if len(tv) else float("nan")
        if not close(float(agg_df["temperature"].iloc[p]), exp, 1e-9):
            fails.append(("period_temperature_mean", dict(period=str(lab), got=float(agg_df["temperature"].iloc[p]), expected=exp)))
        uv = grp["predicted_unc"].to_numpy(dtype=float)
        exp = float(np.sqrt(np.nansum(uv ** 2))) if len(uv) else 0.0
        if not close(float(agg_df["predicted_unc"].iloc[p]), exp, 1e-9):
            fails.append(("period_uncertainty_rss", dict(period=str(lab), got=float(agg_df["predicted_unc"].iloc[p]), expected=exp)))
        if fails:
            break
    for c in SUMCOLS:
        if c == "observed" and not with_obs:
            continue
        a, b = float(np.nansum(daily[c].to_numpy(dtype=float))), float(np.nansum(agg_df[c].to_numpy(dtype=float)))
        if not close(a, b, 1e-9):
            fails.append(("total_conserved", dict(column=c, daily_total=a, aggregated_total=b)))
    return fails


def cell(x):
    x = float(x)
    return "-" if x != x else fhex(x)


def run(ctx):
    warnings.filterwarnings("ignore")
    from opendsm.eemeter.models.billing.model import BillingModel
    rng = random.Random(ctx["seed"] * 32452843 + 19)
    n = int((24 if ctx["tier"] == "quick" else 600) * ctx.get("budget_scale", 1))
    zones = ["America/Chicago", "Asia/Tokyo", "UTC", "Europe/Berlin", "Australia/Sydney", "America/Sao_Paulo", "Asia/Kolkata"]
    res = dict(evaluations=0, disagreements=[], oracle_failures=[], finding_instances={}, samples=[], hist={}, traces=0)
    sigs = set()
    lines, metas = [], []
    st = BillingModel().settings.model_dump()
    st["developer_mode"] = True
    st["silent_developer_mode"] = True
    findings = {e["id"]: e for e in ctx.get("findings", []) if e.get("status") == "finding"}
    for i in range(n):
        tz = zones[i % len(zones)] if i < 2 * len(zones) else rng.choice(zones)
        try:
            rd, with_obs, desc = gen_data(rng, tz)
        except Exception as e:  # noqa  (acceptance of inputs by the data class is C10's subject, not C19's)
            k_ = "data_class_rejected:" + type(e).__name__
            res["hist"][k_] = res["hist"].get(k_, 0) + 1
            continue
        bm = BillingModel.from_dict(_doc(tz, st, rng))
        daily = bm.predict(rd)
        # a user works on the frame the data object hands out (a what-if on "a copy") between the daily and the aggregated prediction:
        # the aggregated rows are still those of the data object's own days
        try:
            scratch = rd.df
            scratch["temperature"] = scratch["temperature"] + 8.0
            if "observed" in scratch.columns:
                scratch["observed"] = scratch["observed"] * 0.9
            desc = dict(desc, scratch_edit_of_handed_out_frame=True)
        except Exception:  # noqa
            pass
        for aggname, k in (("monthly", 1), ("bimonthly", 2)):
            res["evaluations"] += 1
            try:
                out = bm.predict(rd, aggregation=aggname)
            except Exception as e:  # noqa
                f = dict(clause="aggregation_raises", error=f"{type(e).__name__}: {e}"[:120], case=desc, aggregation=aggname)
                if "C19-F1" in findings and isinstance(e, KeyError) and not with_obs:
                    d = res["finding_instances"].setdefault("C19-F1", dict(count=0, example=None))
                    d["count"] += 1
                    d["example"] = d["example"] or f
                else:
                    res["oracle_failures"].append(f)
                continue
            fails = oracle(daily, out, k, with_obs)
            for f in fails[:1]:
                res["oracle_failures"].append(dict(clause=f[0], detail=f[1], case=desc, aggregation=aggname))
            empty_periods = int((out["temperature"].isna()).sum())
            sigs.add((aggname, with_obs, daily.index[0].day == 1, empty_periods > 0, len(out) > 6, tz))
            res["hist"][aggname] = res["hist"].get(aggname, 0) + 1
            rows = []
            for ts, r in zip(daily.index, daily[COLS if with_obs else [c for c in COLS if c != "observed"]].itertuples(index=False)):
                d = r._asdict()
                rows.append(" ".join([str(ym_of(ts)), cell(d["temperature"]), cell(d.get("observed", float("nan"))), cell(d["predicted"]),
                                      cell(d["predicted_unc"]), cell(d["heating_load"]), cell(d["cooling_load"])]))
            lines.append(f"agg {k} " + " ".join(rows))
            metas.append(("agg", desc, aggname, out, with_obs))
            if len(res["samples"]) < 3:
                res["samples"].append(dict(case=desc, aggregation=aggname, periods=len(out), daily_rows=len(daily),
                                           first_period=str(out.index[0]), predicted_first=float(out["predicted"].iloc[0])))
        # the weighted billing model (same aggregation block, per-bill base rows): same oracle on its own unaggregated rows
        if with_obs:
            import contextlib as _cl, io as _io
            from opendsm.eemeter.models.billing.weighted_model import BillingWeightedModel
            try:
                with _cl.redirect_stdout(_io.StringIO()):
                    wm = BillingWeightedModel.from_dict(_doc(tz, st, rng))
                base_w = wm.predict(rd)
            except Exception as e:  # noqa  (construction / per-bill prediction of the development class is not C19's subject)
                k_ = "weighted_unavailable:" + type(e).__name__
                res["hist"][k_] = res["hist"].get(k_, 0) + 1
                base_w = None
            if base_w is not None and len(base_w):
                for aggname, k in (("monthly", 1), ("bimonthly", 2)):
                    res["evaluations"] += 1
                    try:
                        out_w = wm.predict(rd, aggregation=aggname)
                        fails = oracle(base_w, out_w, k, True)
                    except Exception as e:  # noqa
                        fails = [("weighted_aggregation_raises", dict(error=f"{type(e).__name__}: {e}"[:120]))]
                    for f in fails[:1]:
                        res["oracle_failures"].append(dict(clause=f[0], detail=f[1], case=desc, aggregation=aggname, model="BillingWeightedModel"))
                    res["hist"]["weighted:" + aggname] = res["hist"].get("weighted:" + aggname, 0) + 1
                for arg in ["weekly", "Monthly", "", "NONE"]:
                    try:
                        wm.predict(rd, aggregation=arg)
                        got_w = "accepted"
                    except ValueError:
                        got_w = "ValueError"
                    except Exception as e:  # noqa
                        got_w = type(e).__name__
                    if (got_w == "ValueError") == (arg.lower() == "none"):
                        res["oracle_failures"].append(dict(clause="bad_argument_rejected", argument=arg, behaviour=got_w, model="BillingWeightedModel"))
        # argument validation
        for arg in [None, "none", "NONE", "None", "monthly", "bimonthly", "Monthly", "MONTHLY", "weekly", "bi-monthly", "", "2MS", " monthly"]:
            try:
                o = bm.predict(rd, aggregation=arg)
                got = "none" if len(o) == len(daily) and arg not in ("monthly", "bimonthly") else arg
            except ValueError:
                got = "ValueError"
            except Exception as e:  # noqa
                got = "ValueError" if False else f"{type(e).__name__}"
                if not with_obs and isinstance(e, KeyError) and arg in ("monthly", "bimonthly"):
                    got = arg       # listed finding C19-F1 handled above; the argument itself was accepted
            res["evaluations"] += 1
            exp_ok = arg is None or arg.lower() == "none" or arg in ("monthly", "bimonthly")
            if (got == "ValueError") == exp_ok:
                res["oracle_failures"].append(dict(clause="bad_argument_rejected", argument=arg, behaviour=got))
            if i < 3:
                lines.append("parseagg " + ("-" if arg is None else (arg.encode().hex() or "")) if arg != "" else "parseagg 00")
                metas.append(("parseagg", arg, got))
                for cls_ in ("billing", "weighted"):
                    lines.append(f"srcagg {cls_} " + ("-" if arg is None else ("00" if arg == "" else arg.encode().hex())))
                    metas.append(("srcagg", arg, got))
    if ctx.get("model_ok", True):
        outs = core.run_driver(lines)
        for out, meta in zip(outs, metas):
            res["traces"] += 1
            if meta[0] == "srcagg":
                # the SOURCE's if-chain (re-extracted table, run by the driver) against what the real method did with the argument
                _, arg, got = meta
                exp = {"none": "ok noAgg", "monthly": "ok rule:MS", "bimonthly": "ok rule:2MS", "ValueError": "ok reject"}.get(got)
                if exp is not None and out != exp:
                    res["disagreements"].append(dict(op="srcagg", argument=arg, lean=out, impl=got))
                continue
            if meta[0] == "parseagg":
                _, arg, got = meta
                if arg == "":
                    continue
                if out != f"ok {got}":
                    res["disagreements"].append(dict(op="parseagg", argument=arg, lean=out, impl=got))
            else:
                _, desc, aggname, df, with_obs = meta
                cells = out[3:].split() if out.startswith("ok") else []
                if len(cells) != len(df):
                    res["disagreements"].append(dict(op="agg", case=desc, aggregation=aggname, lean_periods=len(cells), impl_periods=len(df)))
                    continue
                for c, (ts, r) in zip(cells, df.iterrows()):
                    ym, vals = c.split(":")
                    v = [unhex(x) for x in vals.split(",")]
                    imp = [float(r["temperature"]), float(r["observed"]) if with_obs else 0.0, float(r["predicted"]),
                           float(r["predicted_unc"]), float(r["heating_load"]), float(r["cooling_load"])]
                    if int(ym) != ym_of(ts) or not all(close(a, b, 1e-9) for a, b in zip(v, imp)):
                        res["disagreements"].append(dict(op="agg", case=desc, aggregation=aggname, period=str(ts), lean=[int(ym)] + v, impl=imp))
                        break
    res["distinct_nontrivial"] = len(sigs)
    res["rule"] = ("stored billing models (from_dict, random shapes/splits/uncertainty) x BillingReportingData built from hourly temperature "
                   "(with multi-week NaN gaps) and irregular billing reads or no meter data, starting on any day of any month, 20-400 days, "
                   "seven timezones incl. east of UTC and a midnight-DST zone; monthly and bi-monthly. distinct = (aggregation, observed?, "
                   "starts on the 1st?, has an empty period?, > 6 periods?, zone)")
    return res


def replay_finding(entry):
    warnings.filterwarnings("ignore")
    from opendsm.eemeter.models.billing.model import BillingModel
    from opendsm.eemeter.models.billing.data import BillingReportingData
    idx = pd.date_range("2020-01-10", periods=24 * 60, freq="h", tz="UTC")
    temp = pd.Series(50.0, index=idx, name="temperature")
    rd = BillingReportingData.from_series(None, temp, is_electricity_data=True)
    st = BillingModel().settings.model_dump()
    st["developer_mode"] = True
    st["silent_developer_mode"] = True
    bm = BillingModel.from_dict(_doc("UTC", st, random.Random(0)))
    try:
        bm.predict(rd, aggregation="monthly")
        return False
    except KeyError:
        return True


def replay(obj):
    r = run(dict(tier="quick", seed=obj.get("seed", 0), model_ok=False, findings=[]))
    return r["oracle_failures"]


LEVEL_TEXT = ("Lean 4 theorems over R about an executable model of the resample block: the period sums of a NaN-skipping column add up to "
              "the column's total for every month-per-period count and every time-sorted frame (induction over rows), so totals agree at "
              "the daily, monthly and bi-monthly level; the period temperature is the mean of its present values; the root-sum-square of "
              "the period uncertainties is the root-sum-square of all; periods are consecutive with no gaps; argument validation. T1: the "
              "if-chain on `aggregation` and the per-column reductions of BillingModel.predict and BillingWeightedModel.predict are re-extracted "
              "from the AST on every run (EEM.Gen.BillingAggTable); theorems show that chain computes the model's parseAgg for EVERY argument and "
              "that every numeric cell of a model period is the source's reduction of that column. T2: differential run over reporting frames "
              "in seven timezones.")
LEVEL_NOTE = ("Trusted: Lean kernel + standard axioms; the aggregation-block extractor (py2lean/aggtable.py: anything outside its subset is "
              "UNSUPPORTED = broken tie); the hand model of pandas resample('MS'/'2MS') bucketing by local calendar month "
              "(validated by T2 only); float summation order (compared at 1e-9 relative); np.sum on a Series skipping NaN.")
TECHNIQUE = "Lean 4 proof (induction over rows, over R; decide on the re-extracted reduction table) + translator for the aggregation block + differential correspondence"
ASSUMPTIONS = ["rows are time-sorted (the prediction frame is sorted by _predict)", "NaN cells are `none`; +-inf cells are outside the real-number theorems"]
