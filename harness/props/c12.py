"""C12 — every fitted daily/billing sub-model is physically admissible and well formed.

T2: the real `OptimizedResult` constructor (`_set_model_key`, `_refine_model` = `get_full_model_x`
+ `reduce_model`, `ModelCoefficients.from_np_arrays`) vs. the Lean model (`EEM.Model.Refine` on
top of the regenerated kernels), bit for bit, (a) on synthetic optimiser outcomes drawn inside
and on the optimiser's box and (b) on the raw vectors of real fits (hook `_verif_x_raw`).
Oracle: the property's clauses on the implementation's result — on every `OptimizedResult` of
real fits (`fit_components` and `model`) and on every synthetic outcome."""
from __future__ import annotations

import contextlib
import io
import math
import random
import warnings

import numpy as np
import pandas as pd

from .. import core
from ..core import fhex, unhex, close

ID = "C12"
LEAN_MODULE = "EEM.Props.C12"
BUILD_TARGETS = ["EEM.Props.C12", "EEM.Findings.C12"]
DESIGN_REF = "DESIGN.md §5 C12"

COEF_IDS = {
    "hdd_tidd_cdd_smooth": ["hdd_bp", "hdd_beta", "hdd_k", "cdd_bp", "cdd_beta", "cdd_k", "intercept"],
    "hdd_tidd_cdd": ["hdd_bp", "hdd_beta", "cdd_bp", "cdd_beta", "intercept"],
    "c_hdd_tidd_smooth": ["c_hdd_bp", "c_hdd_beta", "c_hdd_k", "intercept"],
    "c_hdd_tidd": ["c_hdd_bp", "c_hdd_beta", "intercept"],
    "tidd": ["intercept"],
}
KEY_OF = {tuple(v): k for k, v in COEF_IDS.items()}
FIELDS = ["hdd_bp", "hdd_beta", "hdd_k", "cdd_bp", "cdd_beta", "cdd_k"]
DECLARED = {
    "hdd_tidd_cdd_smooth": {"hdd_bp", "hdd_beta", "hdd_k", "cdd_bp", "cdd_beta", "cdd_k"},
    "hdd_tidd_cdd": {"hdd_bp", "hdd_beta", "cdd_bp", "cdd_beta"},
    "hdd_tidd_smooth": {"hdd_bp", "hdd_beta", "hdd_k"},
    "hdd_tidd": {"hdd_bp", "hdd_beta"},
    "tidd_cdd_smooth": {"cdd_bp", "cdd_beta", "cdd_k"},
    "tidd_cdd": {"cdd_bp", "cdd_beta"},
    "tidd": set(),
}


def _impl():
    from opendsm.eemeter.models.daily.optimize_results import OptimizedResult, reduce_model, get_k
    from opendsm.eemeter.models.daily.parameters import ModelCoefficients
    from opendsm.eemeter.models.daily.base_models.full_model import full_model, get_full_model_x
    from opendsm.eemeter.models.daily.base_models.hdd_tidd_cdd import evaluate_hdd_tidd_cdd_smooth, _hdd_tidd_cdd
    from opendsm.eemeter.models.daily.base_models.c_hdd_tidd import _c_hdd_tidd, _c_hdd_tidd_smooth
    from opendsm.eemeter.models.daily.base_models.tidd import _tidd
    from opendsm.eemeter.models.daily.utilities.base_model import get_smooth_coeffs
    from opendsm.eemeter.models.daily.model import DailyModel
    scored = {"hdd_tidd_cdd_smooth": evaluate_hdd_tidd_cdd_smooth, "hdd_tidd_cdd": _hdd_tidd_cdd,
              "c_hdd_tidd_smooth": _c_hdd_tidd_smooth, "c_hdd_tidd": _c_hdd_tidd, "tidd": _tidd}
    return dict(OR=OptimizedResult, reduce=reduce_model, get_k=get_k, MC=ModelCoefficients, full_model=full_model,
                gfx=get_full_model_x, scored=scored, smooth=get_smooth_coeffs, DailyModel=DailyModel)


# --------------------------------------------------------------------------- synthetic optimiser outcomes
def gen_outcome(rng: random.Random):
    """A raw optimiser result inside (mostly: on the faces/corners of) the box fit_* hands to NLopt."""
    key = rng.choice(list(COEF_IDS))
    n = rng.choice([40, 90, 365])
    base = rng.choice([-5.0, 20.0, 45.0])
    T = np.round(np.array([base + 40 * rng.random() + 15 * math.sin(i / 9.0) for i in range(n)]), rng.choice([0, 1, 4]))
    nseg = 6
    Ts = np.sort(T)
    T_min_seg, T_max_seg = float(np.partition(T, nseg)[nseg]), float(np.partition(T, -nseg)[-nseg])
    obs = np.array([10 + 30 * rng.random() for _ in range(n)])
    qlo, qhi = [float(v) for v in np.quantile(obs, [0.01, 0.99])]

    def bp():
        r = rng.random()
        if r < 0.2:
            return rng.choice([T_min_seg, T_max_seg])
        if r < 0.3:
            return float(rng.choice(list(Ts[nseg:-nseg])))
        return round(rng.uniform(T_min_seg, T_max_seg), rng.choice([0, 2, 8]))

    def beta(signed=False):
        r = rng.random()
        if r < 0.22:
            return 0.0
        v = round(rng.uniform(0.001, 4.0), rng.choice([1, 3, 9]))
        return -v if signed and rng.random() < 0.5 else v

    def pct():
        return rng.choice([0.0, 0.0, 1.0, 0.5, 0.01, round(rng.random(), 3)])

    def ck():
        return rng.choice([0.0, 0.0, 0.5, 3.0, round(rng.uniform(0, 20), 2)])

    ic = rng.choice([qlo, qhi, round(rng.uniform(qlo, qhi), 3)])
    if key in ("hdd_tidd_cdd_smooth", "hdd_tidd_cdd"):
        a, b = bp(), bp()
        r = rng.random()
        if r < 0.15:
            b = a
        elif a > b and r < 0.7:       # the optimiser may return crossed balance points; keep some
            a, b = b, a
        raw = [a, beta(), pct(), b, beta(), pct(), ic] if key.endswith("smooth") else [a, beta(), b, beta(), ic]
    elif key == "c_hdd_tidd_smooth":
        raw = [bp(), beta(True), ck(), ic]
    elif key == "c_hdd_tidd":
        raw = [bp(), beta(True), ic]
    else:
        raw = [ic]
    # order of the days: residual autocorrelation from none to almost 1 (sorted by residual) feeds the uncertainty path
    return dict(key=key, raw=[float(v) for v in raw], T=[float(v) for v in T], obs=[float(v) for v in obs],
                order=rng.choice(["as_is", "as_is", "by_resid", "by_resid_blocks", "alternating"]))


def box_of(key, T_min_seg, T_max_seg, qlo, qhi, bmax=10.0):
    bp, be, k, sbe, ck, ic = [T_min_seg, T_max_seg], [0.0, bmax], [0.0, 1.0], [-bmax, bmax], [0.0, 1e3], [qlo, qhi]
    return {"hdd_tidd_cdd_smooth": [bp, be, k, bp, be, k, ic], "hdd_tidd_cdd": [bp, be, bp, be, ic],
            "c_hdd_tidd_smooth": [bp, sbe, ck, ic], "c_hdd_tidd": [bp, sbe, ic], "tidd": [ic]}[key]


def build_result(I, settings, oc):
    """Drive the real OptimizedResult constructor with a chosen optimiser outcome."""
    key, raw = oc["key"], np.array(oc["raw"], dtype=float)
    T, obs = np.array(oc["T"], dtype=float), np.array(oc["obs"], dtype=float)
    Tb = np.array([T.min(), T.max()])
    model = np.asarray(I["scored"][key](*raw, Tb, T), dtype=float)
    resid = model - obs
    order = oc.get("order", "as_is")
    if order != "as_is" and np.all(np.isfinite(resid)):
        perm = np.argsort(resid, kind="stable")
        if order == "by_resid_blocks":          # monthly-bill-like: long runs of nearly equal residuals
            perm = perm[np.argsort((np.arange(len(perm)) // 30), kind="stable")]
        elif order == "alternating":            # strongly anti-correlated
            half = len(perm) // 2
            alt = np.empty_like(perm)
            alt[0::2] = perm[: len(perm) - half]
            alt[1::2] = perm[len(perm) - half:][::-1][: half]
            perm = alt
        T, obs, model, resid = T[perm], obs[perm], model[perm], resid[perm]
    nseg = settings.segment_minimum_count
    qlo, qhi = [float(v) for v in np.quantile(obs, [0.01, 0.99])]
    bnds = box_of(key, float(np.partition(T, nseg)[nseg]), float(np.partition(T, -nseg)[-nseg]), qlo, qhi)
    with contextlib.redirect_stdout(io.StringIO()):
        r = I["OR"](raw.copy(), bnds, list(COEF_IDS[key]), 2.0, None, T, model, np.ones_like(T), resid, None,
                    float(np.mean(resid ** 2)), float(np.sum((obs - obs.mean()) ** 2)), True, "", 1, 0.0, settings)
    # the class keeps obs only as model - resid, which cancels catastrophically when a scored value is astronomically large
    # (finding C12-F2): the oracle's usage-range clause reads the usage that was given
    r._verif_obs = obs
    return r


# --------------------------------------------------------------------------- oracle (on the implementation)
def effective_x(I, r):
    x = [float(v) for v in I["gfx"](r.model_key, r.x, r.T_min, r.T_max, r.T_min_seg, r.T_max_seg)]
    if r.model_key == "hdd_tidd_cdd_smooth":
        hb, hk, cb, ck = [float(v) for v in I["smooth"](x[0], x[2], x[3], x[5])]
        x = [hb, x[1], hk, cb, x[4], ck, x[6]]
    return x


def oracle(I, r, obs=None, f_unc=None, tc=None, coeffs=None):
    """C12's clauses on one fitted component.  Returns [(clause, detail)]."""
    fails = []
    nc = coeffs if coeffs is not None else r.named_coeffs
    d = nc.model_dump() if hasattr(nc, "model_dump") else dict(nc)
    mt = d["model_type"].value if hasattr(d["model_type"], "value") else str(d["model_type"])
    vals = {f: d.get(f) for f in FIELDS}
    ic = d["intercept"]
    T = np.asarray(r.T, dtype=float)
    tmin, tmax = float(np.min(T)), float(np.max(T))
    # finite coefficients
    for k, v in list(vals.items()) + [("intercept", ic)]:
        if v is not None and not math.isfinite(v):
            fails.append(("finite", dict(field=k, value=v)))
    # declared type agrees with which coefficients are present
    present = {f for f, v in vals.items() if v is not None}
    if mt not in DECLARED or present != DECLARED[mt]:
        fails.append(("type_matches_fields", dict(model_type=mt, present=sorted(present))))
        return fails
    hb, cb = vals["hdd_bp"], vals["cdd_bp"]
    if hb is not None and cb is not None and hb > cb:
        fails.append(("ordered", dict(hdd_bp=hb, cdd_bp=cb)))
    for k in ("hdd_bp", "cdd_bp"):
        if vals[k] is not None and not (tmin <= vals[k] <= tmax):
            fails.append(("inside_observed_range", dict(field=k, value=vals[k], T_min=tmin, T_max=tmax)))
    # every declared slope is non-zero
    for k in ("hdd_beta", "cdd_beta"):
        if vals[k] is not None and vals[k] == 0:
            fails.append(("slope_nonzero", dict(field=k, model_type=mt)))
    # signs: on the vector prediction uses, loads are never negative
    try:
        x = effective_x(I, r)
        if x[1] < 0 or x[4] < 0:
            fails.append(("slope_sign", dict(effective_hdd_beta=x[1], effective_cdd_beta=x[4], model_type=mt)))
        if x[2] < 0 or x[5] < 0:
            fails.append(("smoothing_nonneg", dict(hdd_k=x[2], cdd_k=x[5])))
    except Exception as e:  # noqa
        fails.append(("evaluable", dict(error=f"{type(e).__name__}: {e}")))
        return fails
    if mt in ("hdd_tidd", "hdd_tidd_smooth") and not vals["hdd_beta"] < 0:
        fails.append(("slope_sign", dict(field="hdd_beta", value=vals["hdd_beta"], model_type=mt)))
    if mt in ("tidd_cdd", "tidd_cdd_smooth") and not vals["cdd_beta"] > 0:
        fails.append(("slope_sign", dict(field="cdd_beta", value=vals["cdd_beta"], model_type=mt)))
    for k in ("hdd_k", "cdd_k"):
        if vals[k] is not None and vals[k] < 0:
            fails.append(("smoothing_nonneg", dict(field=k, value=vals[k])))
    # base load within the observed usage range
    o = np.asarray((getattr(r, "_verif_obs", None) if getattr(r, "_verif_obs", None) is not None else r.obs) if obs is None else obs, dtype=float)
    if not (float(np.min(o)) - 1e-9 <= ic <= float(np.max(o)) + 1e-9):
        fails.append(("base_load_in_observed_range", dict(intercept=ic, obs_min=float(np.min(o)), obs_max=float(np.max(o)))))
    fu = r.f_unc if f_unc is None else f_unc
    if not (math.isfinite(fu) and fu >= 0):
        fails.append(("uncertainty", dict(f_unc=float(fu))))
    # recorded temperature limits are those of the fitted days
    lim = tc if tc is not None else dict(T_min=r.T_min, T_max=r.T_max, T_min_seg=r.T_min_seg, T_max_seg=r.T_max_seg)
    nseg = r.settings.segment_minimum_count
    want = dict(T_min=tmin, T_max=tmax, T_min_seg=float(np.partition(T, nseg)[nseg]), T_max_seg=float(np.partition(T, -nseg)[-nseg]))
    for k, v in want.items():
        if float(lim[k]) != v:
            fails.append(("recorded_limits", dict(field=k, recorded=float(lim[k]), of_fitted_days=v)))
    # the kept coefficients describe the curve the optimiser scored
    kept = np.asarray(r.eval(T)[0], dtype=float)
    scored = np.asarray(r.model, dtype=float)
    scale = max(1.0, float(np.max(np.abs(scored))))
    gap = np.abs(kept - scored)
    if not np.all(gap <= 1e-6 * scale):
        w = int(np.nanargmax(gap)) if np.any(np.isfinite(gap)) else 0
        fails.append(("kept_reproduces_scored", dict(max_gap=float(np.nanmax(gap)), at_T=float(T[w]), scored=float(scored[w]),
                                                     kept=float(kept[w]), days_differing=int(np.sum(~(gap <= 1e-6 * scale))))))
    return fails


def explain(I, r):
    """Attribute a kept-vs-scored mismatch to a listed finding through the optimiser's raw vector
    (hook).  The rules are written out here, independently of get_full_model_x/fix_full_model_x, so
    that a change to those functions cannot reclassify its own effect as a known finding."""
    raw = getattr(r, "_verif_x_raw", None)
    ids = getattr(r, "_verif_coef_id_raw", None)
    if raw is None or ids is None:
        return None
    key = KEY_OF.get(tuple(ids))
    raw = [float(v) for v in raw]
    Tmin, Tmax, Tmins, Tmaxs = float(r.T_min), float(r.T_max), float(r.T_min_seg), float(r.T_max_seg)
    if key == "hdd_tidd_cdd_smooth":
        hb, bh, pkh, cb, bc, pkc, _ = raw
    elif key == "hdd_tidd_cdd":
        hb, bh, cb, bc, _ = raw
        pkh = pkc = 0.0
    elif key in ("c_hdd_tidd_smooth", "c_hdd_tidd"):
        bp, b = raw[0], raw[1]
        k = raw[2] if key.endswith("smooth") else 0.0
        hb = cb = bp
        bh, pkh, bc, pkc = (-b, k, 0.0, 0.0) if b < 0 else (0.0, 0.0, b, k)
    else:
        return None
    smooth_key = key == "hdd_tidd_cdd_smooth"
    if cb < hb:
        # F2: scoring feeds crossed balance points to get_smooth_coeffs (negative smoothing lengths);
        # the read-back path orders them first
        if smooth_key and not (pkh < 0.01 and pkc < 0.01):
            return "C12-F2"
        hb, bh, pkh, cb, bc, pkc = cb, bc, pkc, hb, bh, pkh
    if hb != cb:                      # slopes the read-back path drops (no fitted day beyond the balance point)
        if cb >= Tmax:
            bc = 0.0
        elif hb <= Tmin:
            bh = 0.0
    pkh2, pkc2 = (0.0 if bh == 0 else pkh), (0.0 if bc == 0 else pkc)
    if smooth_key and (pkh2, pkc2) != (pkh, pkc):
        # F1: the smoothing fraction of a zero-slope side takes part in scoring (normalisation by the sum of the
        # fractions, the 1% threshold) but is dropped before the kept smoothing lengths are computed
        s1 = [float(v) for v in I["smooth"](hb, pkh, cb, pkc)]
        s2 = [float(v) for v in I["smooth"](hb, pkh2, cb, pkc2)]
        if (bh != 0 and s1[:2] != s2[:2]) or (bc != 0 and s1[2:] != s2[2:]):
            return "C12-F1"
    # F3: a single-slope balance point outside [T_min_seg, T_max_seg] is moved onto the limit — on one side by reduce_model / get_k
    # (which also drop its smoothing), on the other by the read-back clamp of get_full_model_x's c_hdd_tidd branch — which shifts the
    # kept line relative to the scored one
    def kept_unsmoothed(pk, own_bp, other_bp):
        if not smooth_key:
            return key != "c_hdd_tidd_smooth" or raw[2] == 0
        if pk == 0:
            return True
        sm = [float(v) for v in I["smooth"](hb, pkh2, cb, pkc2)]
        return sm[1] == 0 and sm[3] == 0
    if bh != 0 and bc == 0:
        if hb > Tmaxs or (smooth_key and hb >= Tmaxs and pkh2 != 0):
            return "C12-F3"
        if kept_unsmoothed(pkh2, hb, cb) and hb < Tmins:
            return "C12-F3"
    if bc != 0 and bh == 0:
        if cb < Tmins or (smooth_key and cb <= Tmins and pkc2 != 0):
            return "C12-F3"
        if kept_unsmoothed(pkc2, cb, hb) and cb > Tmaxs:
            return "C12-F3"
    return None


def covered(r):
    """the hypothesis `Covered` of theorem C12_kept_reproduces_scored, evaluated on the raw optimiser outcome"""
    raw = getattr(r, "_verif_x_raw", None)
    ids = getattr(r, "_verif_coef_id_raw", None)
    if raw is None or ids is None:
        return False
    key = KEY_OF.get(tuple(ids))
    x = [float(v) for v in raw]
    Tmin, Tmax, Tmins, Tmaxs = float(r.T_min), float(r.T_max), float(r.T_min_seg), float(r.T_max_seg)
    if not (Tmin < Tmins <= Tmaxs < Tmax):
        return False
    if key == "hdd_tidd_cdd_smooth":
        hb, bh, pkh, cb, bc, pkc, _ = x
        if not (Tmins <= hb <= cb <= Tmaxs and pkh >= 0 and pkc >= 0):
            return False
        if bh > 0 and bc > 0:
            return True
        if bh > 0 and bc == 0 and pkc == 0:
            return hb < Tmaxs and Tmins < cb
        if bh == 0 and pkh == 0 and bc > 0:
            return hb < Tmaxs and Tmins < cb
        return bh == 0 and bc == 0 and Tmax > 0
    if key == "hdd_tidd_cdd":
        hb, bh, cb, bc, _ = x
        if not (Tmins <= hb <= cb <= Tmaxs and bh >= 0 and bc >= 0):
            return False
        return (bh > 0 or bc > 0) or Tmax > 0
    if key == "c_hdd_tidd_smooth":
        bp, b, k, _ = x
        return Tmins <= bp <= Tmaxs and k >= 0 and (b != 0 or Tmax > 0)
    if key == "c_hdd_tidd":
        bp, b, _ = x
        return Tmins <= bp <= Tmaxs and (b != 0 or Tmax > 0)
    if key == "tidd":
        return Tmax > 0
    return False


def in_box(r):
    raw, b = getattr(r, "_verif_x_raw", None), getattr(r, "_verif_bnds_raw", None)
    if raw is None or b is None or len(raw) != len(b):
        return None
    return bool(np.all(raw >= b[:, 0] - 1e-12) and np.all(raw <= b[:, 1] + 1e-12))


# --------------------------------------------------------------------------- T2 lines
def refine_line(key, lims, raw):
    return " ".join(["refine", key] + [fhex(float(v)) for v in lims] + [fhex(float(v)) for v in raw])


def same(a_hex, b):
    if a_hex == "none":
        return b is None
    if b is None:
        return False
    a = unhex(a_hex)
    return fhex(b) == a_hex or a == b or close(a, b, 1e-12)


def compare_refine(out, r):
    """Lean `refine` output vs. the real OptimizedResult after construction."""
    if not out.startswith("ok "):
        return dict(model_out=out)
    if out == "ok err":
        return dict(model_out="err", impl_coef_id=list(r.coef_id))
    key, xs, mt, ic, *fs = out[3:].split(" ")
    key = key.split(".")[-1]
    if key != r.model_key:
        return dict(what="model_key", lean=key, impl=r.model_key)
    xs = xs.split(",")
    if len(xs) != len(r.x) or not all(same(a, float(b)) for a, b in zip(xs, r.x)):
        return dict(what="reduced_vector", lean=[unhex(a) for a in xs], impl=[float(v) for v in r.x])
    d = r.named_coeffs.model_dump()
    if mt != d["model_type"].value:
        return dict(what="model_type", lean=mt, impl=d["model_type"].value)
    if not same(ic, d["intercept"]):
        return dict(what="intercept", lean=unhex(ic), impl=d["intercept"])
    for f, a in zip(FIELDS, fs):
        if not same(a, d.get(f)):
            return dict(what=f, lean=a, impl=d.get(f))
    return None


# --------------------------------------------------------------------------- real meters
def meter(rng: random.Random, kind, n=None, noise=None):
    n = n or rng.choice([330, 345, 365])
    noise = noise if noise is not None else rng.choice([0.2, 1.0, 3.0])
    g = np.random.default_rng(rng.randrange(1 << 30))
    idx = pd.date_range("2022-01-01", periods=n, freq="D", tz="UTC")
    doy = np.arange(n)
    T = 55 - 22 * np.cos(2 * np.pi * doy / 365) + g.normal(0, 4, n)
    heat, cool = np.clip(58 - T, 0, None), np.clip(T - 68, 0, None)
    if kind == "heating":
        u = 12 + 1.3 * heat
    elif kind == "cooling":
        u = 9 + 1.1 * cool
    elif kind == "both":
        u = 10 + 0.9 * heat + 1.4 * cool
    elif kind == "flat":
        u = np.full(n, 14.0)
    elif kind == "weekday_weekend":
        wk = (idx.dayofweek >= 5).astype(float)
        u = 10 + (0.6 + 0.9 * wk) * heat + 6 * wk + 0.8 * cool
    elif kind == "seasonal":
        summer = ((idx.month >= 6) & (idx.month <= 9)).astype(float)
        u = 8 + 0.7 * heat + summer * (5 + 1.8 * cool)
    elif kind == "heat_wave":
        thr = np.sort(T)[-5] + 1e-6
        u = 10 + 1.5 * np.clip(60 - T, 0, None) + 4.0 * np.clip(T - thr, 0, None)
    elif kind == "cold_snap":
        thr = np.sort(T)[4] - 1e-6
        u = 10 + 1.2 * cool + 5.0 * np.clip(thr - T, 0, None)
    elif kind == "outliers":
        u = 10 + 1.0 * heat + 0.9 * cool
        for i in g.choice(n, 6, replace=False):
            u[i] *= g.choice([0.05, 4.0, 9.0])
    elif kind == "drifting":        # little temperature response, base load growing through the year: residuals strongly autocorrelated
        u = 20 * (1 + 0.3 * doy / 365.0) + 0.05 * heat
    elif kind == "exact_heating":   # metered without noise: the summer days are EXACTLY constant (every residual of that component is zero)
        u = 12 + 1.3 * heat
        noise = 0.0
    elif kind == "flat_exact":      # perfectly constant usage (a fixed charge, a flat estimated read): every residual is exactly zero
        u = np.full(n, 14.0)
        noise = 0.0
    elif kind == "smooth":
        u = 10 + 6 * np.log1p(np.exp((55 - T) / 6)) + 5 * np.log1p(np.exp((T - 70) / 5))
    else:
        raise ValueError(kind)
    u = np.clip(u + g.normal(0, noise, n), 0.01, None)
    return pd.DataFrame({"temperature": T, "observed": u}, index=idx)


KINDS = ["heating", "cooling", "both", "flat", "weekday_weekend", "seasonal", "heat_wave", "cold_snap", "outliers", "smooth", "drifting"]


def fit_real(profile, df, model=None):
    """fit a real model on the meter `df`; `model`: an already used model object to fit again (None = a new one)"""
    from opendsm.eemeter.models.daily.model import DailyModel
    from opendsm.eemeter.models.daily.data import DailyBaselineData
    from opendsm.eemeter.models.billing.model import BillingModel
    from opendsm.eemeter.models.billing.data import BillingBaselineData
    with contextlib.redirect_stdout(io.StringIO()), contextlib.redirect_stderr(io.StringIO()):
        if profile == "billing":
            reads = df["observed"].resample("30D").sum()
            reads.iloc[-1] = np.nan
            hourly_T = df["temperature"].resample("h").ffill()
            data = BillingBaselineData.from_series(reads, hourly_T, is_electricity_data=True)
            return (model if model is not None else BillingModel()).fit(data, ignore_disqualification=True)
        data = DailyBaselineData(df, is_electricity_data=True)
        m = model if model is not None else (DailyModel(model="legacy") if profile == "legacy" else DailyModel())
        return m.fit(data, ignore_disqualification=True)


def components_of(m):
    out = []
    for name, r in (getattr(m, "fit_components", None) or {}).items():
        if r is not None:
            out.append((f"fit_components[{name}]", r))
    for name, r in (getattr(m, "model", None) or {}).items():
        out.append((f"model[{name}]", r))
    return out


# --------------------------------------------------------------------------- run
def check_result(I, res, sigs, where, r, case, lines, metas, **kw):
    res["evaluations"] += 1
    try:
        fails = oracle(I, r, **kw)
    except Exception as e:  # noqa
        fails = [("oracle_error", dict(error=f"{type(e).__name__}: {e}"))]
    raw = getattr(r, "_verif_x_raw", None)
    ids = getattr(r, "_verif_coef_id_raw", None)
    key = KEY_OF.get(tuple(ids)) if ids is not None else None
    box = in_box(r)
    sig = (key, r.model_key, getattr(r.named_coeffs.model_type, "value", None), box,
           None if raw is None or key not in ("hdd_tidd_cdd_smooth", "hdd_tidd_cdd") else
           (bool(raw[0] > raw[3 if key.endswith("smooth") else 2]), bool(raw[0] == r.T_min_seg), bool(raw[0] == r.T_max_seg)))
    sigs.add(sig)
    res["hist"][f"{where.split('[')[0]}:{key}->{r.model_key}"] = res["hist"].get(f"{where.split('[')[0]}:{key}->{r.model_key}", 0) + 1
    if where == "synthetic":
        res["hist"]["synthetic_order:" + case.get("order", "as_is")] = res["hist"].get("synthetic_order:" + case.get("order", "as_is"), 0) + 1
        if getattr(r, "DoF", None) is not None and r.DoF <= 1:
            res["hist"]["synthetic_DoF_at_floor"] = res["hist"].get("synthetic_DoF_at_floor", 0) + 1
    cov = covered(r)
    res["hist"]["theorem_C12_kept_reproduces_scored_covers" if cov else "outside_the_theorem(findings_or_boundary)"] = \
        res["hist"].get("theorem_C12_kept_reproduces_scored_covers" if cov else "outside_the_theorem(findings_or_boundary)", 0) + 1
    # inside the theorem's hypothesis a mismatch is never attributed to a finding
    fid = explain(I, r) if (fails and not cov and {c for c, _ in fails} == {"kept_reproduces_scored"}) else None
    if fid is not None:
        d = res["finding_instances"].setdefault(fid, dict(count=0, example=None))
        d["count"] += 1
        if d["example"] is None:
            d["example"] = dict(where=where, case={k: v for k, v in case.items() if k not in ("T", "obs")},
                                raw_key=key, raw_x=[float(v) for v in raw], detail=fails[0][1],
                                limits=[float(r.T_min), float(r.T_max), float(r.T_min_seg), float(r.T_max_seg)])
    elif fails:
        res["oracle_failures"].append(dict(where=where, case=case, raw_key=key, raw_x=None if raw is None else [float(v) for v in raw],
                                           raw_in_box=box, stored=r.named_coeffs.model_dump(mode="json", exclude_none=True),
                                           limits=[float(r.T_min), float(r.T_max), float(r.T_min_seg), float(r.T_max_seg)],
                                           clause=fails[0][0], detail=fails[0][1], clauses_failed=sorted({c for c, _ in fails})))
    if raw is not None and key is not None:
        lines.append(refine_line(key, [r.T_min, r.T_max, r.T_min_seg, r.T_max_seg], raw))
        metas.append((where, case, r))
        # the scoring path: what the objective evaluated at (a sample of) the fitted temperatures
        T = np.asarray(r.T, dtype=float)
        pick = sorted(set([0, len(T) // 3, len(T) // 2, len(T) - 1, int(np.argmin(T)), int(np.argmax(T))]))
        lines.append(" ".join(["scored", key, fhex(float(T.min())), fhex(float(T.max())), str(len(raw))] + [fhex(float(v)) for v in raw]
                              + [fhex(float(T[i])) for i in pick]))
        metas.append((where, case, ("scored", r, pick)))


def run(ctx):
    warnings.filterwarnings("ignore")
    rng = random.Random(ctx["seed"] * 7368787 + 12)
    I = _impl()
    settings = I["DailyModel"]().settings
    thorough = ctx["tier"] == "thorough"
    scale = ctx.get("budget_scale", 1)
    res = dict(evaluations=0, disagreements=[], oracle_failures=[], finding_instances={}, samples=[], hist={}, traces=0)
    sigs = set()
    lines, metas = [], []

    # (A) synthetic optimiser outcomes through the real constructor
    for _ in range(int((400 if not thorough else 6000) * scale)):
        oc = gen_outcome(rng)
        try:
            r = build_result(I, settings, oc)
        except Exception as e:  # noqa
            res["oracle_failures"].append(dict(where="OptimizedResult(...)", case=dict(key=oc["key"], raw=oc["raw"]),
                                               clause="constructs", detail=dict(error=f"{type(e).__name__}: {e}")))
            continue
        check_result(I, res, sigs, "synthetic", r, dict(key=oc["key"], raw=oc["raw"], T=oc["T"], obs=oc["obs"], order=oc.get("order", "as_is")), lines, metas)
        if len(res["samples"]) < 2:
            res["samples"].append(dict(key=oc["key"], raw=oc["raw"], kept=r.named_coeffs.model_dump(mode="json", exclude_none=True)))

    # (B) real fits: every OptimizedResult the fit produced + the stored sub-models
    plan = []
    kinds = KINDS[:]
    rng.shuffle(kinds)
    n_fits = int((5 if not thorough else 40) * scale)
    profiles = ["current", "legacy", "billing"]
    for i in range(n_fits):
        plan.append((profiles[i % 3] if i % 5 != 4 else "current", kinds[i % len(kinds)] if i else "heat_wave"))
    plan.append(("billing", "drifting"))
    plan.append(("current", "exact_heating"))
    plan.append(("current", "flat_exact"))
    for profile, kind in plan:
        mseed = rng.randrange(1 << 30)
        df = meter(random.Random(mseed), kind)
        case = dict(profile=profile, kind=kind, meter_seed=mseed)
        try:
            m = fit_real(profile, df)
        except Exception as e:  # noqa
            res["hist"][f"fit_failed:{profile}:{kind}:{type(e).__name__}"] = res["hist"].get(f"fit_failed:{profile}:{kind}:{type(e).__name__}", 0) + 1
            continue
        res["hist"][f"fit:{profile}:{kind}"] = res["hist"].get(f"fit:{profile}:{kind}", 0) + 1
        for where, r in components_of(m):
            check_result(I, res, sigs, where, r, case, lines, metas)
        # the stored sub-models (what to_dict() serialises) against the final components
        for key, sub in m.params.submodels.items():
            r = m.model[key]
            check_result(I, res, sigs, f"params.submodels[{key}]", r, case, [], [], f_unc=sub.f_unc,
                         tc=dict(sub.temperature_constraints), coeffs=sub.coefficients)
        if len(res["samples"]) < 4:
            res["samples"].append(dict(case=case, submodels={str(k): v.coefficients.model_dump(mode="json", exclude_none=True)
                                                             for k, v in m.params.submodels.items()}))

    # (B2) one model object fitted twice: the first building has a weekday/weekend split, the second has none.  What the second fit
    # stores must be the sub-models of ITS split, fitted on ITS days — nothing of the first building may remain
    for profile in (["current"] if not thorough else ["current", "legacy"]):
        try:
            mseed = rng.randrange(1 << 30)
            fails_, changed = refit_scenario(profile, mseed)
            res["evaluations"] += 1
            res["oracle_failures"] += fails_
            sigs.add(("refit_same_object", profile, changed))
        except Exception as e:  # noqa
            res["hist"][f"refit_scenario_failed:{type(e).__name__}"] = res["hist"].get(f"refit_scenario_failed:{type(e).__name__}", 0) + 1

    # (B3) two sites in one process whose weather feeds agree in length, first and last reading (whole-degree feeds of neighbouring
    # stations): each model's recorded limits are those of ITS days
    try:
        mseed = rng.randrange(1 << 30)
        fails_ = twin_scenario("current", mseed)
        res["evaluations"] += 1
        res["oracle_failures"] += fails_
        sigs.add(("twin_sites", "current"))
    except Exception as e:  # noqa
        res["hist"][f"twin_scenario_failed:{type(e).__name__}"] = res["hist"].get(f"twin_scenario_failed:{type(e).__name__}", 0) + 1

    # (C) correspondence: Lean refine vs the real constructor on every raw vector seen
    if ctx.get("model_ok", True) and lines:
        outs = core.run_driver(lines)
        for out, (where, case, r) in zip(outs, metas):
            res["traces"] += 1
            if isinstance(r, tuple):
                _, rr, pick = r
                cells = out[3:].split(" ") if out.startswith("ok ") else []
                want = [float(np.asarray(rr.model, dtype=float)[i]) for i in pick]
                bad = None
                if len(cells) != len(want):
                    bad = dict(model_out=out[:200])
                else:
                    for cnum, w in zip(cells, want):
                        if cnum == "err" or not (fhex(w) == cnum or unhex(cnum) == w or close(unhex(cnum), w, 1e-11) or (math.isnan(w) and math.isnan(unhex(cnum)))):
                            bad = dict(lean=None if cnum == "err" else unhex(cnum), impl=w)
                            break
                if bad:
                    small = case if where != "synthetic" else dict(key=case["key"], raw=case["raw"])
                    res["disagreements"].append(dict(op="scored", where=where, case=small, raw=[float(v) for v in rr._verif_x_raw], **bad))
                continue
            d = compare_refine(out, r)
            if d is not None:
                small = case if where != "synthetic" else dict(key=case["key"], raw=case["raw"])
                res["disagreements"].append(dict(op="refine", where=where, case=small, raw=[float(v) for v in r._verif_x_raw],
                                                 limits=[float(r.T_min), float(r.T_max), float(r.T_min_seg), float(r.T_max_seg)], **d))
    res["distinct_nontrivial"] = len(sigs)
    res["rule"] = ("(A) optimiser outcomes for the five coefficient layouts drawn inside and on the faces of the box (balance points on the segment "
                   "limits / on observed temperatures / equal / crossed, zero and signed slopes, smoothing 0/1/fractional, intercept on the "
                   "quantile bounds) pushed through the real OptimizedResult constructor; (B) real fits of synthetic meters (heating, cooling, "
                   "both, flat, weekday/weekend, seasonal, heat-wave, cold-snap, outliers, smooth; 330-365 days; current/legacy/billing) with "
                   "every OptimizedResult in fit_components and model and every stored sub-model checked; a case is distinct when (raw layout, "
                   "refined layout, stored type, raw-in-box, crossed/pinned flags) is new in the run")
    return res


# --------------------------------------------------------------------------- known findings / replay
REFIT_KIND = "heating after weekday_weekend on the same model object"


def refit_scenario(profile, mseed):
    """one model object: fit a weekday/weekend building, then a (warmer) heating building.  Returns (failures, split changed?)"""
    m = fit_real(profile, meter(random.Random(mseed), "weekday_weekend", n=365, noise=0.2))
    first_keys = sorted(map(str, m.params.submodels))
    dfB = meter(random.Random(mseed + 1), "heating", n=365, noise=1.0)
    dfB["temperature"] = dfB["temperature"] + 9.0
    m = fit_real(profile, dfB, model=m)
    case = dict(profile=profile, kind=REFIT_KIND, meter_seed=mseed)
    keys, want = sorted(map(str, m.params.submodels)), sorted(m.best_combination.split("__"))
    fails = []
    if keys != want:
        fails.append(dict(clause="stored_submodels_are_those_of_the_selected_split", case=case, stored=keys, selected_split=want,
                          first_fit_stored=first_keys))
    Tb = dfB["temperature"].to_numpy(dtype=float)
    for key, sub in m.params.submodels.items():
        tc = dict(sub.temperature_constraints)
        if not (min(Tb) - 1e-9 <= tc["T_min"] and tc["T_max"] <= max(Tb) + 1e-9):
            fails.append(dict(clause="recorded_limits_are_those_of_the_days_fitted", case=case, component=str(key),
                              recorded=[tc["T_min"], tc["T_max"]], baseline_temperature_range=[float(min(Tb)), float(max(Tb))]))
            break
    return fails, first_keys != keys


TWIN_KIND = "two sites, weather feeds equal in length and end readings"


def twin_scenario(profile, mseed):
    """site A, then (another model object) site B whose whole-degree weather differs from A's only in the interior: a cold snap in
    the first weeks and a heat wave mid-year.  Every component of B records the limits of B's own days."""
    dfA = meter(random.Random(mseed), "both", n=365, noise=0.5)
    dfA["temperature"] = dfA["temperature"].round(0)
    dfB = dfA.copy()
    tb = dfB["temperature"].to_numpy(dtype=float).copy()
    tb[10:16] = tb.min() - 19.0
    tb[190:196] = tb.max() + 11.0
    dfB["temperature"] = tb
    fit_real(profile, dfA)
    mB = fit_real(profile, dfB)
    case = dict(profile=profile, kind=TWIN_KIND, meter_seed=mseed)
    fails = []
    full = sorted(tb)
    for key, sub in mB.params.submodels.items():
        tc = dict(sub.temperature_constraints)
        r = mB.model[key]
        # the days of the component, from the model's own (default) calendar settings: "wd-su_sh" = weekdays of summer and shoulder
        sm, wm = mB.settings.season.model_dump(), mB.settings.weekday_weekend.model_dump()
        months = ["january", "february", "march", "april", "may", "june", "july", "august", "september", "october", "november", "december"]
        days = ["monday", "tuesday", "wednesday", "thursday", "friday", "saturday", "sunday"]
        dt, seasons = str(key).split("-")
        seas = {dict(su="summer", sh="shoulder", wi="winter")[x] for x in seasons.split("_")}
        dts = {"weekday", "weekend"} if dt == "fw" else {dict(wd="weekday", we="weekend")[dt]}
        keep = np.array([sm[months[t.month - 1]] in seas and wm[days[t.dayofweek]] in dts for t in dfB.index])
        seg = tb[keep]
        want = [float(seg.min()), float(seg.max())] if len(seg) else None
        got = [float(tc["T_min"]), float(tc["T_max"])]
        ok = (got == want) if want is not None else (full[0] - 1e-9 <= got[0] and got[1] <= full[-1] + 1e-9)
        # a single full-year component must span the whole year's range, whatever the internals are called
        if str(key).startswith("fw-su_sh_wi") and not (got[0] == full[0] and got[1] == full[-1]):
            ok = False
            want = [float(full[0]), float(full[-1])]
        if not ok:
            fails.append(dict(clause="recorded_limits_are_those_of_the_days_fitted", case=case, component=str(key), recorded=got,
                              limits_of_the_fitted_days=want, also_recorded_on_result=[float(r.T_min), float(r.T_max)]))
            break
    return fails


def _replay_case(w):
    I = _impl()
    settings = I["DailyModel"]().settings
    if "raw" in w.get("case", {}) and "T" in w["case"]:
        r = build_result(I, settings, w["case"])
        return oracle(I, r)
    case = w["case"]
    if case.get("kind") == REFIT_KIND:
        return refit_scenario(case["profile"], case["meter_seed"])[0]
    if case.get("kind") == TWIN_KIND:
        return twin_scenario(case["profile"], case["meter_seed"])
    df = meter(random.Random(case["meter_seed"]), case["kind"])
    m = fit_real(case["profile"], df)
    fails = []
    for where, r in components_of(m):
        if w.get("where") in (None, where):
            fails += oracle(I, r)
    return fails


def replay_finding(entry):
    return bool(_replay_case(entry["witness"]))


def replay(obj):
    return _replay_case(obj)


LEVEL_TEXT = ("Lean 4 theorems over R about what happens downstream of the optimiser: for every covered optimiser outcome (all five coefficient "
              "layouts, every reduction _refine_model makes, every temperature) the stored record is evaluable and _predict_submodel of it returns "
              "exactly the value the objective scored (C12_kept_reproduces_scored; generated kernels + hand models of reduce_model / get_k / "
              "from_np_arrays / the scoring wrappers); reduce_model returns only layouts whose declared slopes are non-zero and terminates after one "
              "self-call; from_np_arrays stores ordered balance points, a type that agrees with the present fields, single-slope signs by type, an "
              "evaluable record, round-trips an ordered vector and obeys C11's sign conventions. The hand models, composed with the regenerated "
              "kernels, are compared bit for bit with the real OptimizedResult constructor and the real scoring functions.")
LEVEL_NOTE = ("'The optimiser returns a finite point inside its box', base load / uncertainty ranges and recorded limits are NOT theorems: they are "
              "evaluated on every OptimizedResult of real fits and on synthetic outcomes (oracle). Outside the theorem's hypothesis `Covered` lie "
              "the three listed findings (C12-F1/F2/F3) and boundary cases (crossed balance points without smoothing, balance points on the ends "
              "of the observed range): decided by running the real code; the evidence histogram counts both kinds. Trusted: Lean kernel + "
              "propext/Classical.choice/Quot.sound; py2lean; hand models (validated by T2 only); NLopt, numba and numpy are outside the model.")
TECHNIQUE = "Lean 4 proof (case analysis/induction over the refinement pipeline) + differential correspondence on real optimiser outcomes"
ASSUMPTIONS = ["the optimiser returns a finite vector inside the box it was given (observed on every real fit through the hook, not proved)",
               "kept-reproduces-scored and base-load/uncertainty clauses are decided by the oracle on sampled datasets, not by a theorem",
               "theorems are over exact reals; NaN/inf inputs are outside them"]
