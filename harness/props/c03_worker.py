"""C03 worker: fit one (family, profile, meter) spec in THIS process and print digests.
Usage: python c03_worker.py '<json spec>'   (spec: family, profile, meter_seed, kind, seed, np_seed, warm)"""
import hashlib
import io
import contextlib
import json
import logging
import os
import sys
import warnings

warnings.filterwarnings("ignore")
logging.disable(logging.CRITICAL)
sys.path.insert(0, os.path.dirname(os.path.dirname(os.path.dirname(os.path.abspath(__file__)))))


def digest(s):
    return hashlib.sha256(s.encode() if isinstance(s, str) else s).hexdigest()[:20]


def fit_spec(spec):
    import random
    import numpy as np
    import pandas as pd
    from harness.props.c12 import meter
    from harness.props.c04 import synth_hourly
    if spec.get("np_seed") is not None:
        np.random.seed(spec["np_seed"])
        random.seed(spec["np_seed"])
    fam = spec["family"]
    with contextlib.redirect_stdout(io.StringIO()), contextlib.redirect_stderr(io.StringIO()):
        if fam in ("daily", "billing"):
            from harness.props.c12 import fit_real
            df = meter(random.Random(spec["meter_seed"]), spec["kind"])
            m = fit_real(spec["profile"], df)
            from opendsm.eemeter.models.daily.data import DailyReportingData
            rd = DailyReportingData(meter(random.Random(spec["meter_seed"] + 1), spec["kind"]), is_electricity_data=True)
            if fam == "billing":
                from opendsm.eemeter.models.billing.data import BillingReportingData
                d2 = meter(random.Random(spec["meter_seed"] + 1), spec["kind"])
                pred = m.predict(BillingReportingData(d2, is_electricity_data=True), ignore_disqualification=True)
            else:
                pred = m.predict(rd, ignore_disqualification=True)
        elif fam == "hourly":
            from opendsm.eemeter.models.hourly.model import HourlyModel
            from opendsm.eemeter.models.hourly.data import HourlyBaselineData, HourlyReportingData
            hb = HourlyBaselineData(synth_hourly(days=365, seed=spec["meter_seed"]), is_electricity_data=True)
            settings = {} if spec.get("seed") is None else {"seed": spec["seed"]}
            m = HourlyModel(settings=settings).fit(hb, ignore_disqualification=True)
            pred = m.predict(HourlyReportingData(synth_hourly(days=20, seed=spec["meter_seed"] + 1), is_electricity_data=True), ignore_disqualification=True)
        else:
            from opendsm.eemeter.models.hourly_caltrack.wrapper import HourlyCaltrackModel  # noqa
            raise ValueError(fam)
    js = m.to_json()
    num = pred.select_dtypes("number")
    return dict(json=digest(js), pred=digest(np.ascontiguousarray(num.to_numpy(dtype=float)).tobytes()), json_len=len(js))


if __name__ == "__main__":
    spec = json.loads(sys.argv[1])
    if spec.get("warm"):
        # use the library for something else first (history must not matter)
        fit_spec(dict(spec["warm"]))
    print("RESULT " + json.dumps(fit_spec(spec)))
