"""C03 worker: fit one (family, profile, meter) spec in THIS process and print digests.
Usage: python c03_worker.py '<json spec>'   (spec: family, profile, meter_seed, kind, seed, np_seed, warm)"""
import hashlib
import io
import contextlib
import json
import logging
import os
import sys
import warnings

warnings.filterwarnings("ignore")
logging.disable(logging.CRITICAL)
sys.path.insert(0, os.path.dirname(os.path.dirname(os.path.dirname(os.path.abspath(__file__)))))


def digest(s):
    return hashlib.sha256(s.encode() if isinstance(s, str) else s).hexdigest()[:20]


def fit_spec(spec):
    import random
    import numpy as np
    import pandas as pd
    from harness.props.c12 import meter
    from harness.props.c04 import synth_hourly
    if spec.get("np_seed") is not None:
        np.random.seed(spec["np_seed"])
        random.seed(spec["np_seed"])
    fam = spec["family"]
    with contextlib.redirect_stdout(io.StringIO()), contextlib.redirect_stderr(io.StringIO()):
        if fam in ("daily", "billing"):
            from harness.props.c12 import fit_real
            df = meter(random.Random(spec["meter_seed"]), spec["kind"])
            prior = None
            if spec.get("reuse_object"):
                # one model object serves a portfolio: another meter is fitted and predicted with it first
                d0 = meter(random.Random(spec["meter_seed"] + 3), "cooling" if spec["kind"] != "cooling" else "heating")
                prior = fit_real(spec["profile"], d0)
                if fam == "billing":
                    from opendsm.eemeter.models.billing.data import BillingReportingData as _BR
                    prior.predict(_BR(d0, is_electricity_data=True), ignore_disqualification=True)
                else:
                    from opendsm.eemeter.models.daily.data import DailyReportingData as _DR
                    prior.predict(_DR(d0, is_electricity_data=True), ignore_disqualification=True)
            m = fit_real(spec["profile"], df, model=prior)
            from opendsm.eemeter.models.daily.data import DailyReportingData
            rd = DailyReportingData(meter(random.Random(spec["meter_seed"] + 1), spec["kind"]), is_electricity_data=True)
            if fam == "billing":
                from opendsm.eemeter.models.billing.data import BillingReportingData
                d2 = meter(random.Random(spec["meter_seed"] + 1), spec["kind"])
                pred = m.predict(BillingReportingData(d2, is_electricity_data=True), ignore_disqualification=True)
            else:
                pred = m.predict(rd, ignore_disqualification=True)
        elif fam == "hourly":
            from opendsm.eemeter.models.hourly.model import HourlyModel
            from opendsm.eemeter.models.hourly.data import HourlyBaselineData, HourlyReportingData
            hdf = synth_hourly(days=365, seed=spec["meter_seed"])
            if spec.get("edge_gaps"):
                # gaps close to both ends of the series and partial first / last days: the gap filler looks a day and a week back and
                # ahead, i.e. beyond the ends of the series
                hdf.iloc[7:15, 1] = np.nan
                hdf.iloc[30:33, 0] = np.nan
                hdf.iloc[-20:-12, 1] = np.nan
                hdf.iloc[-40:-37, 0] = np.nan
                hdf = hdf.iloc[5:-3]
            hb = HourlyBaselineData(hdf, is_electricity_data=True)
            settings = {} if spec.get("seed") is None else {"seed": spec["seed"]}
            if spec.get("adaptive"):
                settings["elasticnet"] = dict(adaptive_weights=True, adaptive_weight_max_iter=5, adaptive_weight_tol=1e-3)
            m = HourlyModel(settings=settings)
            if spec.get("reuse_object"):
                # the same model object was used for another meter first (fit + predict): history must not matter
                hb0 = HourlyBaselineData(synth_hourly(days=365, seed=spec["meter_seed"] + 3), is_electricity_data=True)
                m.fit(hb0, ignore_disqualification=True)
                m.predict(HourlyReportingData(synth_hourly(days=20, seed=spec["meter_seed"] + 4), is_electricity_data=True), ignore_disqualification=True)
            m = m.fit(hb, ignore_disqualification=True)
            pred = m.predict(HourlyReportingData(synth_hourly(days=20, seed=spec["meter_seed"] + 1), is_electricity_data=True), ignore_disqualification=True)
        elif fam == "caltrack":
            from opendsm.eemeter.models.hourly_caltrack.wrapper import HourlyModel as CT
            from opendsm.eemeter.models.hourly_caltrack.data import HourlyBaselineData as CTB, HourlyReportingData as CTR
            m = CT().fit(CTB(synth_hourly(days=365, seed=spec["meter_seed"]), is_electricity_data=True))
            pred = m.predict(CTR(synth_hourly(days=20, seed=spec["meter_seed"] + 1), is_electricity_data=True))
        else:
            raise ValueError(fam)
    js = m.to_json()
    num = pred.select_dtypes("number")
    return dict(json=digest(js), pred=digest(np.ascontiguousarray(num.to_numpy(dtype=float)).tobytes()), json_len=len(js))


if __name__ == "__main__":
    spec = json.loads(sys.argv[1])
    if spec.get("warm"):
        # use the library for something else first (history must not matter)
        fit_spec(dict(spec["warm"]))
    print("RESULT " + json.dumps(fit_spec(spec)))
