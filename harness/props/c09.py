"""C09 — daily temperature is the meter-day mean of the sub-daily temperatures.

T2: `_compute_temperature_features` of the real data classes (return value captured by wrapping the
method in this process) vs. the Lean model (`EEM.Model.TempAgg`, exact rationals): per-day mean and
present/absent counts on the hourly path, per-day value on the sub-hourly (as_freq) path.
Oracle: the property's clauses on `data.df['temperature']` and the captured counts, with an
independent per-day reference written here."""
from __future__ import annotations

import contextlib
import io
import math
import random
import warnings
from fractions import Fraction

import numpy as np
import pandas as pd

from .. import core
from .c08 import minute, frac_str, close_enough, quiet

ID = "C09"
LEAN_MODULE = "EEM.Props.C09"
BUILD_TARGETS = ["EEM.Props.C09"]
MODEL_TARGETS = ["EEM.Model.TempAgg", "EEM.Model.ResampleMin"]
DESIGN_REF = "DESIGN.md §5 C09"

METER_ZONES = ["America/New_York", "Europe/Berlin", "Australia/Sydney", "America/Los_Angeles", "America/Chicago", "UTC"]
FEED_ZONES = ["UTC", "America/New_York", "Europe/London", "Asia/Tokyo", "America/Denver", "Etc/GMT+3"]
STARTS = ["2021-03-09", "2021-10-27", "2021-01-11", "2021-06-15", "2021-03-23", "2021-09-28", "2021-11-02"]


def _install_capture():
    from opendsm.eemeter.models.daily.data import _DailyData
    from opendsm.eemeter.models.billing.data import _BillingData
    for cls in (_DailyData, _BillingData):
        f = cls.__dict__.get("_compute_temperature_features")
        if f is None or getattr(f, "_verif_wrapped", False):
            continue

        def make(orig):
            def wrapped(self, df, meter_index):
                r = orig(self, df, meter_index)
                self._verif_temp = (r[0].copy(), r[1].copy(), meter_index.copy())
                return r
            wrapped._verif_wrapped = True
            return wrapped
        setattr(cls, "_compute_temperature_features", make(f))


def gen_case(rng: random.Random):
    tz = rng.choice(METER_ZONES)
    feed_tz = rng.choice(FEED_ZONES)
    step = rng.choice([60, 60, 60, 30])
    start = pd.Timestamp(rng.choice(STARTS), tz=tz)
    ndays = rng.choice([8, 12, 16])
    meter_hour = rng.choice([0, 0, 0, 6, 17]) if step == 60 else rng.choice([0, 0, 6])
    meter_kind = rng.choice(["daily", "daily", "subdaily", "billing"]) if meter_hour == 0 else "daily"
    if meter_kind == "billing":
        ndays = rng.choice([58, 62])        # two in-cycle billing periods
    per_day = 1440 // step
    n = ndays * per_day
    vals = [Fraction(rng.randrange(30 * 4, 95 * 4), 4) for _ in range(n)]
    missing = set()
    # per-day missing patterns relative to the day's OWN number of readings (23/24/25 hours on DST days):
    # none, one reading, a quarter, present = just over / exactly / just under half, all
    tidx = pd.date_range(start, periods=n, freq=f"{step}min")
    groups = {}
    for j, t in enumerate(tidx):
        groups.setdefault(t.strftime("%Y-%m-%d"), []).append(j)
    for day, js in groups.items():
        tot = len(js)
        style = rng.choice(["none", "none", "one", "quarter", "just_over_half_present", "half_present", "just_under_half_present", "all"])
        k = {"none": 0, "one": 1, "quarter": tot // 4, "just_over_half_present": tot - (tot // 2 + 1), "half_present": tot - tot // 2,
             "just_under_half_present": tot - (tot // 2 - 1 if tot % 2 == 0 else tot // 2), "all": tot}[style]
        if k:
            if rng.random() < 0.6:
                pos = rng.sample(range(tot), k)
            else:
                s0 = rng.randrange(0, tot - k + 1)
                pos = list(range(s0, s0 + k))
            missing.update(js[p_] for p_ in pos)
    # from_series trims NaNs on the outer edges of the feed by design: keep the first and last readings present
    missing.discard(0)
    missing.discard(n - 1)
    return dict(zero_usage=(meter_kind != "billing" and rng.random() < 0.35),
                tz=tz, feed_tz=feed_tz, step=step, start=start.isoformat(), ndays=ndays, meter_hour=meter_hour, meter_kind=meter_kind,
                values=[str(v) for v in vals], missing=sorted(missing), cls=rng.choice(["baseline", "reporting"]),
                entry=rng.choice(["from_series", "from_series", "frame"]))


def dst_cases():
    """deterministic: every DST day with just over / exactly half of ITS OWN readings present, daily and billing classes"""
    out = []
    for tz, start, day in [("America/New_York", "2021-03-09", "2021-03-14"), ("Europe/Berlin", "2021-10-27", "2021-10-31"),
                           ("America/Los_Angeles", "2021-11-02", "2021-11-07"), ("Australia/Sydney", "2021-09-28", "2021-10-03")]:
        for kind, ndays in (("daily", 8), ("subdaily", 8), ("billing", 58)):
            for extra in (0, 1):
                n = ndays * 24
                tidx = pd.date_range(pd.Timestamp(start, tz=tz), periods=n, freq="60min")
                js = [j for j, t in enumerate(tidx) if t.strftime("%Y-%m-%d") == day]
                tot = len(js)
                k = tot - (tot // 2 + 1) + extra          # present = just over half, or exactly/just under half
                vals = [str(Fraction(40 * 4 + (j * 7) % 160, 4)) for j in range(n)]
                out.append(dict(tz=tz, feed_tz="UTC", step=60, start=tidx[0].isoformat(), ndays=ndays, meter_hour=0, meter_kind=kind,
                                values=vals, missing=js[1::2][:k] if 2 * k <= tot else js[1:1 + k], cls="baseline", entry="from_series"))
                if kind != "billing" and extra == 0:
                    # the same case with zero-usage days / hours on the (electricity) meter
                    out.append(dict(out[-1], zero_usage=True, entry="frame" if kind == "subdaily" else "from_series"))
    return out


def coarse_cases():
    """deterministic: feeds coarser than hourly (3- and 6-hourly, accepted with a warning) in zones without clock changes, with one,
    two and three of a day's readings missing; the feed runs one day past the meter (the last reading of a feed has no successor)"""
    out = []
    for tz, feed_tz, step in [("UTC", "UTC", 360), ("UTC", "Asia/Tokyo", 360), ("UTC", "Etc/GMT+3", 180)]:
        per_day = 1440 // step
        ndays = 12
        n = (ndays + 1) * per_day
        start = pd.Timestamp("2021-06-15", tz=tz)
        vals = [str(Fraction(40 * 4 + (j * 11) % 170, 4)) for j in range(n)]
        missing = [2 * per_day + 1,                                   # day 2: one reading missing
                   4 * per_day + 1, 4 * per_day + 2,                  # day 4: two missing
                   6 * per_day, 6 * per_day + 1, 6 * per_day + 2]     # day 6: three missing
        if per_day > 4:
            missing += [8 * per_day + k for k in range(per_day // 2 + 1)]    # day 8: just over half missing
        for kind in ("daily",):
            out.append(dict(tz=tz, feed_tz=feed_tz, step=step, start=start.isoformat(), ndays=ndays, meter_hour=0, meter_kind=kind,
                            values=vals, missing=missing, cls="baseline", entry="from_series"))
    return out


def build(case):
    from opendsm.eemeter.models.daily.data import DailyBaselineData, DailyReportingData
    from opendsm.eemeter.models.billing.data import BillingBaselineData, BillingReportingData
    tz = case["tz"]
    start = pd.Timestamp(case["start"]).tz_convert(tz)
    n = len(case["values"])
    tidx = pd.date_range(start, periods=n, freq=f"{case['step']}min")
    vals = [Fraction(v) for v in case["values"]]
    t = np.array([float(v) for v in vals])
    miss = set(case["missing"])
    for i in miss:
        t[i] = np.nan
    temp = pd.Series(t, index=tidx.tz_convert(case["feed_tz"]), name="temperature")
    mk = case["meter_kind"]
    if mk == "daily":
        midx = pd.date_range(start + pd.Timedelta(hours=case["meter_hour"]), periods=case["ndays"] - (1 if case["meter_hour"] else 0), freq="D")
        meter = pd.Series(np.arange(len(midx)) % 7 + 10.0, index=midx, name="observed")
        if case.get("zero_usage"):
            # vacancy / outage days: the (electricity) meter reads exactly 0; the weather of those days is what it is
            # (few enough that the remaining reads are still recognisably daily: short series get one zero day)
            zs = (3,) if len(midx) < 20 else (2, 3, len(midx) // 2)
            meter.iloc[[k for k in zs if 0 < k < len(midx) - 1]] = 0.0
    elif mk == "subdaily":
        meter = pd.Series(1.0 + (np.arange(n) % 5), index=tidx, name="observed")
        if case.get("zero_usage"):
            meter.iloc[[k for k in range(5, n - 1, 7)]] = 0.0
    else:
        midx = pd.DatetimeIndex([start, start + pd.Timedelta(days=case["ndays"] // 2), (start.tz_localize(None) + pd.Timedelta(days=case["ndays"] - 1)).tz_localize(tz)])
        midx = pd.DatetimeIndex([(start.tz_localize(None) + pd.Timedelta(days=k)).tz_localize(tz) for k in (0, case["ndays"] // 2, case["ndays"] - 1)])
        meter = pd.Series([300.0, 280.0, np.nan], index=midx, name="observed")
    if mk == "billing":
        cls = BillingBaselineData if case["cls"] == "baseline" else BillingReportingData
    else:
        cls = DailyBaselineData if case["cls"] == "baseline" else DailyReportingData
    if case["entry"] == "from_series" or mk == "billing" or case["feed_tz"] != tz:
        data = quiet(cls.from_series, meter, temp, is_electricity_data=True)
    else:
        data = quiet(cls, temp.to_frame().join(meter, how="outer"), is_electricity_data=True)
    return data, tidx, vals, miss


def reference(case, data, tidx, vals, miss):
    """property reference: per row of data.df (last excluded), over the meter day [idx_i, idx_{i+1})"""
    idx = data.df.index
    tmin = [minute(t) for t in tidx]
    out = []
    for i in range(len(idx) - 1):
        a, b = minute(idx[i]), minute(idx[i + 1])
        rows = [(j, v) for j, (m, v) in enumerate(zip(tmin, vals)) if a <= m < b]
        present = [v for j, v in rows if j not in miss]
        total = len(rows)
        if total and Fraction(len(present), total) > Fraction(1, 2):
            want = float(sum(present, Fraction(0)) / len(present))
        else:
            want = None
        out.append(dict(day=idx[i].isoformat(), present=len(present), absent=total - len(present), expected=want))
    return out


def one_case(case, res, sigs, lines, metas):
    res["evaluations"] += 1
    try:
        data, tidx, vals, miss = build(case)
    except Exception as e:  # noqa
        res["oracle_failures"].append(dict(case={k: v for k, v in case.items() if k != "values"}, clause="accepted",
                                           detail=dict(error=f"{type(e).__name__}: {e}"[:300])))
        return
    small = {k: v for k, v in case.items() if k != "values"}
    path = "hourly" if case["step"] == 60 else "sub_hourly"
    res["hist"][f"{path}:{case['meter_kind']}"] = res["hist"].get(f"{path}:{case['meter_kind']}", 0) + 1
    ref = reference(case, data, tidx, vals, miss)
    got = data.df["temperature"]
    cap = getattr(data, "_verif_temp", None)
    fails, finding = [], {}
    for i, r in enumerate(ref):
        g = got.iloc[i]
        g = None if pd.isna(g) else float(g)
        ok = (g is None and r["expected"] is None) or (g is not None and r["expected"] is not None and abs(g - r["expected"]) <= 1e-9 * max(1.0, abs(r["expected"])))
        if not ok:
            d = dict(r, got=g)
            # C09-F1 (fixed): sub-hourly path divides the mean by the coverage
            # C09-F2: sub-hourly path buckets by local calendar day, not by the meter's own day
            med = sorted(x["present"] + x["absent"] for x in ref)[len(ref) // 2] if ref else 0
            if path == "sub_hourly" and case["meter_hour"] != 0:
                finding.setdefault("C09-F2", d)
            elif (case["meter_kind"] == "billing" and path == "hourly" and g is None and r["expected"] is not None
                  and r["present"] + r["absent"] < med and 2 * r["present"] <= med):
                # C09-F4: the billing class also blanks a day whose present count is <= half the MEDIAN day length
                finding.setdefault("C09-F4", d)
            else:
                fails.append(("day_mean" if r["expected"] is not None else "day_missing", d))
    if cap is not None and not (path == "sub_hourly" and case["meter_hour"] != 0):
        feats = cap[1]
        for i, r in enumerate(ref):
            lab = data.df.index[i]
            if lab not in feats.index:
                continue
            nn, nl = feats["temperature_not_null"].loc[lab], feats["temperature_null"].loc[lab]
            if r["present"] + r["absent"] == 0 or r["present"] == 0:
                continue      # an all-missing / empty day is blanked as a whole row (overwrite_partial_rows_with_nan): counts are NaN
            if not (nn == r["present"] and nl == r["absent"]):
                fails.append(("counts_exact", dict(r, temperature_not_null=None if pd.isna(nn) else float(nn),
                                                   temperature_null=None if pd.isna(nl) else float(nl))))
                break
    for fid, d in finding.items():
        e = res["finding_instances"].setdefault(fid, dict(count=0, example=None))
        e["count"] += 1
        if e["example"] is None:
            e["example"] = dict(case=small, day=d)
    if fails:
        res["oracle_failures"].append(dict(case=small, values=case["values"], clause=fails[0][0], detail=fails[0][1], n_clauses_failed=len(fails)))
    sigs.add((path, case["meter_kind"], case["meter_hour"], case["tz"], case["feed_tz"], case["cls"], case["entry"]))
    # correspondence line
    if cap is None:
        return
    reads = [f"{minute(t)}:{'nan' if j in miss else frac_str(v)}" for j, (t, v) in enumerate(zip(tidx, vals))]
    if path == "hourly":
        midx = cap[2]
        starts = [minute(t) for t in midx]
        # the class drops the appended buffer row itself ([:-1]); the model's rows are days between consecutive starts
        mode = "hourly_billing" if case["meter_kind"] == "billing" else "hourly"
        starts = starts + [starts[-1] + 1440]
        lines.append(" ".join(["tempagg", mode, ",".join(map(str, starts))] + reads))
        metas.append((small, "hourly", cap, None))
    else:
        first = tidx[0].tz_convert(case["tz"]).normalize()
        last = (tidx[-1].tz_convert(case["tz"]).tz_localize(None).normalize() + pd.Timedelta(days=1)).tz_localize(case["tz"])
        bounds = pd.date_range(first, last, freq="D")
        lines.append(" ".join(["tempagg", "inst", ",".join(str(minute(b)) for b in bounds)] + reads))
        metas.append((small, "inst", cap, bounds))
        # a few small cases also through the MINUTE-GRID model (proved equal to the time-weighted mean: C09_src_minute_grid_mean)
        if len(reads) <= 24 * 2 * 9 and res["hist"].get("minute_grid_cases", 0) < 4:
            res["hist"]["minute_grid_cases"] = res["hist"].get("minute_grid_cases", 0) + 1
            lines.append(" ".join(["tempagg", "inst_min", ",".join(str(minute(b)) for b in bounds)] + reads))
            metas.append((dict(small, model="minute_grid"), "inst", cap, bounds))


def run(ctx):
    warnings.filterwarnings("ignore")
    _install_capture()
    rng = random.Random(ctx["seed"] * 424243 + 9)
    thorough = ctx["tier"] == "thorough"
    scale = ctx.get("budget_scale", 1)
    res = dict(evaluations=0, disagreements=[], oracle_failures=[], finding_instances={}, samples=[], hist={}, traces=0)
    sigs = set()
    lines, metas = [], []
    for case in list(ctx.get("corpus", [])) + dst_cases() + coarse_cases():
        one_case(case, res, sigs, lines, metas)
    for _ in range(int((60 if not thorough else 1000) * scale)):
        case = gen_case(rng)
        one_case(case, res, sigs, lines, metas)
        if len(res["samples"]) < 3:
            res["samples"].append({k: v for k, v in case.items() if k != "values"})
    if ctx.get("model_ok", True) and lines:
        outs = core.run_driver(lines)
        for out, (small, kind, cap, bounds) in zip(outs, metas):
            res["traces"] += 1
            if not out.startswith("ok "):
                res["disagreements"].append(dict(op="tempagg", case=small, model_out=out[:200]))
                continue
            cells = out[3:].split(" ")
            temp, feats, midx = cap
            if kind == "hourly":
                # the model's rows are the meter days; the last start is the buffer day the class appends itself
                for i, cell in enumerate(cells):
                    if i >= len(temp) - 0:
                        break
                    nn, nl, tv = cell.split(",")
                    mv = None if tv == "none" else Fraction(int(tv.split("/")[0]), int(tv.split("/")[1]))
                    g = temp.iloc[i]
                    g = None if pd.isna(g) else float(g)
                    if not close_enough(mv, g):
                        res["disagreements"].append(dict(op="tempagg.hourly", case=small, day=temp.index[i].isoformat(),
                                                         lean=None if mv is None else float(mv), impl=g))
                        break
                    inn, inl = feats["temperature_not_null"].iloc[i], feats["temperature_null"].iloc[i]
                    if not (pd.isna(inn) and pd.isna(inl)) and (int(nn) != inn or int(nl) != inl):
                        res["disagreements"].append(dict(op="tempagg.hourly.counts", case=small, day=temp.index[i].isoformat(),
                                                         lean=[int(nn), int(nl)], impl=[float(inn), float(inl)]))
                        break
            else:
                days = {b.strftime("%Y-%m-%d"): c for b, c in zip(bounds[:-1], cells)}
                last_day = bounds[-2].strftime("%Y-%m-%d")
                own_last = temp.index[-1].strftime("%Y-%m-%d")
                for t, g in temp.items():
                    day = t.strftime("%Y-%m-%d")
                    if day == last_day or day == own_last or day not in days:
                        continue
                    if small["meter_hour"] != 0 and day == temp.index[0].strftime("%Y-%m-%d"):
                        # from_series trims the feed to the meter's first reading: the first calendar day is partial
                        continue
                    c = days[day]
                    mv = None if c == "none" else Fraction(int(c.split("/")[0]), int(c.split("/")[1]))
                    g = None if pd.isna(g) else float(g)
                    if not close_enough(mv, g):
                        res["disagreements"].append(dict(op="tempagg.inst", case=small, day=day, lean=None if mv is None else float(mv), impl=g))
                        break
    res["distinct_nontrivial"] = len(sigs)
    res["rule"] = ("hourly and half-hourly temperature feeds expressed in another zone / fixed offset than the meter (whole sampling intervals), "
                   "meters reading daily at local midnight or at 06:00 / 17:00, sub-daily and billing meters, windows containing DST changes, "
                   "per-day missing patterns {none, one reading, a quarter, one under half, exactly half, one over half, all}; Baseline and "
                   "Reporting, daily and billing classes, frame and from_series; distinct = new (path, meter kind, meter hour, zones, class, entry)")
    return res


def _run_case(case):
    _install_capture()
    res = dict(evaluations=0, disagreements=[], oracle_failures=[], finding_instances={}, samples=[], hist={}, traces=0)
    one_case(case, res, set(), [], [])
    return res


def replay_finding(entry):
    r = _run_case(entry["witness"]["case"])
    return bool(r["finding_instances"].get(entry["id"])) or bool(r["oracle_failures"])


def replay(obj):
    case = dict(obj["case"])
    if "values" in obj:
        case["values"] = obj["values"]
    return _run_case(case)["oracle_failures"]


LEVEL_TEXT = ("Lean 4 theorems over exact rationals about the per-day aggregation of _compute_temperature_features: on the hourly path the "
              "present/absent counts of a meter day are exact and partition its readings, every reading between the first and last meter-day "
              "start is counted in exactly one day (induction over the starts), a day with more than half present is the mean of the present "
              "readings (and lies between their min and max), a day with half or fewer is missing; on the sub-hourly path the repaired code "
              "returns the time-weighted mean undivided, and the pinned code's value (mean / coverage) is proved strictly larger. The model is "
              "compared with the captured return value of the real method day by day.")
LEVEL_NOTE = ("Hand model; meter-day starts (the meter index the class built) and local midnights are inputs of the model; merge_asof / groupby / "
              "resample semantics are validated by T2 only. The return value of _compute_temperature_features is captured by wrapping the method "
              "inside the harness process (no change to /repo).")
TECHNIQUE = ("Lean 4 proof (list induction over readings and meter-day starts, exact rationals; refinement proof that the minute-grid mean of "
             "as_freq(instantaneous) is the time-weighted mean; the blanking masks of both "
             "_compute_temperature_features translated from the source on every run are proved equal to the model's rule) + differential "
             "correspondence with the data classes")
ASSUMPTIONS = ["feed offsets are whole sampling intervals, as the property states",
               "an all-missing day is blanked as a whole row by the class (counts become NaN there); counts are compared on days with at least one present reading",
               "temperatures are quarter-degree rationals so float means are exact to 1e-9"]
