"""C02 — using a model or a data object never changes it (no hidden side effects).

T1: attribute write footprints of predict()/to_dict() of every model class, re-extracted from
the source.  T2 / oracle: histories of operations on real objects (predict on reporting sets of
different span, with/without observed, interleaved with fits of OTHER meters and constructions of
other model objects); before and after every operation the harness snapshots the serialised form
of every live model, the private frames of the data objects and the caller's frames, and checks
(1) the serialised form never changes by predict or by work on other objects, (2) predict(A) after
any history equals predict(A) on a fresh copy, (3) data objects and caller frames are unmodified,
(4) frames handed out are independent copies, (5) observed attribute writes ⊆ extracted footprint."""
from __future__ import annotations

import contextlib
import copy
import io
import json
import random
import warnings

import numpy as np
import pandas as pd

from .. import core
from .c01 import frames_equal, same_document

ID = "C02"
LEAN_MODULE = "EEM.Props.C02"
BUILD_TARGETS = ["EEM.Props.C02"]
MODEL_TARGETS = ["EEM.Model.History", "EEM.Gen.Footprint", "EEM.Proto"]
DESIGN_REF = "DESIGN.md §5 C02"
TZ = "America/Chicago"


def quiet(f, *a, **k):
    with contextlib.redirect_stdout(io.StringIO()):
        return f(*a, **k)


def index_meta(idx):
    """what a caller can observe about an index object besides its values"""
    return (str(getattr(idx, "freq", None)), str(getattr(idx, "tz", None)), str(idx.dtype), idx.name)


def snap_frame(df):
    return (df.copy(deep=True), list(df.columns), df.index.copy(), index_meta(df.index))


def frame_unchanged(snap, df):
    old, cols, idx, meta = snap
    if list(df.columns) != cols or not df.index.equals(idx) or index_meta(df.index) != meta:
        return False
    return frames_equal(old, df)[0]


def doc_of(m):
    try:
        return json.loads(quiet(m.to_json))
    except Exception as e:  # noqa
        return {"__error__": f"{type(e).__name__}: {str(e)[:80]}"}


def run(ctx):
    warnings.filterwarnings("ignore")
    from opendsm.eemeter.models.daily.model import DailyModel
    from opendsm.eemeter.models.billing.model import BillingModel
    from opendsm.eemeter.models.hourly.model import HourlyModel
    from opendsm.eemeter.models.daily.data import DailyBaselineData, DailyReportingData
    from opendsm.eemeter.models.billing.data import BillingBaselineData, BillingReportingData
    from opendsm.eemeter.models.hourly.data import HourlyBaselineData, HourlyReportingData
    from .c04 import synth_daily, synth_hourly

    rng = random.Random(ctx["seed"] * 314606869 + 2)
    thorough = ctx["tier"] == "thorough"
    scale = ctx.get("budget_scale", 1)
    res = dict(evaluations=0, disagreements=[], oracle_failures=[], finding_instances={}, samples=[], hist={}, traces=0)
    sigs = set()

    def fail(clause, **kw):
        res["oracle_failures"].append(dict(clause=clause, **kw))

    # ------------------------------------------------------------------ data classes do not touch the caller's frames
    def check_data_class(name, ctor, frames):
        snaps = [snap_frame(f) if isinstance(f, pd.DataFrame) else (f.copy(deep=True), None, None, (index_meta(f.index), f.name)) for f in frames]
        try:
            obj = quiet(ctor, *frames)
        except Exception as e:  # noqa
            res["hist"][f"data_class_rejected:{name}:{type(e).__name__}"] = 1
            return None
        res["evaluations"] += 1
        for f, s in zip(frames, snaps):
            same = frame_unchanged(s, f) if isinstance(f, pd.DataFrame) else \
                (f is not None and f.equals(s[0]) and f.index.equals(s[0].index) and (index_meta(f.index), f.name) == s[3])
            if not same:
                fail("data_class_modified_callers_frame", data_class=name, columns_before=s[1],
                     columns_after=list(f.columns) if isinstance(f, pd.DataFrame) else None,
                     index_before=list(s[3]) if isinstance(f, pd.DataFrame) else list(s[3][0]),
                     index_after=list(index_meta(f.index)))
        # frames handed out are independent copies
        a = obj.df
        if a is not None and len(a):
            try:
                a.iloc[0, a.columns.get_loc("temperature")] = -12345.0
            except Exception:  # noqa
                pass
            b = obj.df
            if float(b["temperature"].iloc[0]) == -12345.0:
                fail("handed_out_frame_is_not_a_copy", data_class=name)
        sigs.add(("data_class", name))
        return obj

    dd = synth_daily()
    hd_year = synth_hourly(days=365)
    daily_b = check_data_class("DailyBaselineData(frame)", lambda f: DailyBaselineData(f, is_electricity_data=True), [dd.copy()])
    check_data_class("DailyBaselineData.from_series", lambda a, b: DailyBaselineData.from_series(a, b, is_electricity_data=True),
                     [dd["observed"].copy(), hd_year["temperature"].copy()])
    # inputs as a caller may hold them: an index built from a list of stamps (no frequency attached), the weather as a Series, as a
    # one-column frame called 'temperature' or something else, in the meter's zone or in UTC
    def stamps(idx):
        return pd.DatetimeIndex(list(idx))
    m_nf = pd.Series(dd["observed"].to_numpy(), index=stamps(dd.index), name="observed")
    t_loc = pd.Series(hd_year["temperature"].to_numpy(), index=stamps(hd_year.index), name="temperature")
    t_utc = pd.Series(hd_year["temperature"].to_numpy(), index=stamps(hd_year.index.tz_convert("UTC")), name="temperature")
    for wname, w in [("series_local", t_loc), ("series_utc", t_utc), ("frame_temperature_utc", t_utc.to_frame("temperature")),
                     ("frame_other_name_utc", t_utc.to_frame("tempF")), ("frame_temperature_local", t_loc.to_frame("temperature"))]:
        for cname, cls_ in [("DailyBaselineData", DailyBaselineData), ("DailyReportingData", DailyReportingData)]:
            check_data_class(f"{cname}.from_series[no-freq meter, {wname}]",
                             lambda a, b, cls_=cls_: cls_.from_series(a, b, is_electricity_data=True), [m_nf.copy(), w.copy()])
    check_data_class("DailyBaselineData(frame)[no-freq index]", lambda f: DailyBaselineData(f, is_electricity_data=True),
                     [pd.DataFrame({"observed": dd["observed"].to_numpy(), "temperature": dd["temperature"].to_numpy()}, index=stamps(dd.index))])
    check_data_class("HourlyBaselineData(frame)[no-freq index]", lambda f: HourlyBaselineData(f, is_electricity_data=True),
                     [pd.DataFrame({c: hd_year[c].to_numpy() for c in hd_year.columns}, index=stamps(hd_year.index))])
    hour_b = check_data_class("HourlyBaselineData(frame)", lambda f: HourlyBaselineData(f, is_electricity_data=True), [hd_year.copy()])
    reads = pd.date_range("2021-01-01", periods=13, freq="30D", tz=TZ)
    meter = pd.Series(np.linspace(500, 900, 13), index=reads, name="observed")
    bill_b = check_data_class("BillingBaselineData.from_series", lambda a, b: BillingBaselineData.from_series(a, b, is_electricity_data=True),
                              [meter.copy(), hd_year["temperature"].copy()])
    try:
        from opendsm.eemeter.models.hourly_caltrack.data import HourlyBaselineData as CTB, HourlyReportingData as CTR
        z = hd_year.copy()
        z.iloc[5, z.columns.get_loc("observed")] = 0.0
        check_data_class("caltrack.HourlyBaselineData(frame)", lambda f: CTB(f, is_electricity_data=True), [z])
        check_data_class("caltrack.HourlyReportingData(frame)", lambda f: CTR(f, is_electricity_data=True), [z.iloc[:24 * 20].copy()])
    except Exception as e:  # noqa
        res["hist"]["caltrack_data_unavailable"] = 1

    # ------------------------------------------------------------------ reporting sets of different span
    def daily_sets():
        out = {}
        for label, (start, n, obs) in dict(day=("2021-07-05", 1, True), week=("2021-01-11", 7, True), month=("2021-04-01", 30, False),
                                           part_year=("2021-03-01", 200, True), year=("2021-01-01", 365, True), year_noobs=("2021-01-01", 365, False)).items():
            f = synth_daily(seed=7).loc[start:].iloc[:n]
            out[label] = DailyReportingData(f if obs else f[["temperature"]], is_electricity_data=True)
        return out

    def hourly_sets():
        out = {}
        for label, (start, days, obs) in dict(day=("2021-07-05", 1, True), july_week=("2021-07-12", 7, True), january_week=("2021-01-11", 7, True),
                                              month_noobs=("2021-04-01", 30, False), part_year=("2021-03-01", 120, True)).items():
            f = synth_hourly(days=365, seed=9).loc[start:].iloc[:24 * days]
            out[label] = HourlyReportingData(f if obs else f[["temperature"]], is_electricity_data=True)
        # a reporting set that carries irradiance although the model was fitted without it (predict notes the mismatch)
        g = synth_hourly(days=365, seed=9).loc["2021-07-19":].iloc[:24 * 7].copy()
        g["ghi"] = np.maximum(0.0, 600.0 * np.sin((np.arange(len(g)) % 24 - 6) / 12 * np.pi))
        out["july_week_with_ghi"] = HourlyReportingData(g, is_electricity_data=True)
        return out

    # ------------------------------------------------------------------ histories
    families = []
    if daily_b is not None:
        families.append(("daily", lambda: quiet(DailyModel().fit, daily_b), DailyModel, daily_sets(), {}))
    if bill_b is not None:
        families.append(("billing", lambda: quiet(BillingModel().fit, bill_b, ignore_disqualification=True), BillingModel,
                         {"a": BillingReportingData.from_series(meter.iloc[:6], hd_year["temperature"].iloc[:24 * 160], is_electricity_data=True),
                          "b": BillingReportingData.from_series(meter.iloc[4:9], hd_year["temperature"].iloc[24 * 110:24 * 250], is_electricity_data=True)},
                         dict(ignore_disqualification=True)))
    if hour_b is not None:
        families.append(("hourly", lambda: HourlyModel().fit(hour_b, ignore_disqualification=True), HourlyModel, hourly_sets(), dict(ignore_disqualification=True)))
    # an hourly model whose baseline stops in September: the (month, weekday) combinations of October-December have no fitted
    # load-shape cluster and are matched, at predict time, to the nearest fitted one FROM THE REPORTING SET'S OWN USAGE — per
    # reporting set, so two sets with the same missing combinations but different autumn shapes must each get their own match
    def shaped_hourly(start, days, swap_from_october=False):
        idx = pd.date_range(start, periods=24 * days, freq="h", tz=TZ)
        h, hod, wk = np.arange(len(idx)), idx.hour.values, idx.dayofweek.values >= 5
        if swap_from_october:
            wk = np.where(idx.month.values >= 10, ~wk, wk)
        T = 55 + 25 * np.sin(h / 8760 * 2 * np.pi - 2) + 6 * np.sin(h / 24 * 2 * np.pi)
        shape = np.where(wk, np.exp(-((hod - 19) / 3.0) ** 2), np.exp(-((hod - 13) / 3.0) ** 2))
        obs = 1 + 0.03 * np.abs(T - 60) + 1.5 * shape + np.random.default_rng(1).normal(0, 0.05, len(h))
        return pd.DataFrame({"temperature": T, "observed": obs}, index=idx)

    try:
        short_b = HourlyBaselineData(shaped_hourly("2022-01-01", 273), is_electricity_data=True)
        short_sets = {"year_1": HourlyReportingData(shaped_hourly("2023-01-01", 365), is_electricity_data=True),
                      "year_2_other_autumn_shape": HourlyReportingData(shaped_hourly("2023-01-01", 365, swap_from_october=True), is_electricity_data=True)}
        base_obj_short = short_b
        families.append(("hourly_short_baseline", lambda: HourlyModel(settings={"seed": 11}).fit(short_b, ignore_disqualification=True), HourlyModel,
                         short_sets, dict(ignore_disqualification=True)))
    except Exception as e:  # noqa
        res["hist"]["short_baseline_unavailable:" + type(e).__name__] = 1
        base_obj_short = None
    # the CalTRACK hourly method: the same week of readings handed over twice, once stamped in the site's zone and once in UTC (the same
    # instants), and another week — each prediction is that of a fresh copy of the model whatever was predicted before
    ct_b = None
    try:
        from opendsm.eemeter.models.hourly_caltrack.wrapper import HourlyModel as CTModel
        from opendsm.eemeter.models.hourly_caltrack.data import HourlyBaselineData as CTB2, HourlyReportingData as CTR2
        ct_year = synth_hourly(days=365, seed=5)
        ct_b = CTB2(ct_year, is_electricity_data=True)
        wk = synth_hourly(days=365, seed=9).loc["2021-05-25":].iloc[:24 * 14]
        ct_sets = {"late_may_local": CTR2(wk.copy(), is_electricity_data=True),
                   "late_may_utc_stamps": CTR2(wk.tz_convert("UTC"), is_electricity_data=True),
                   "january_week": CTR2(synth_hourly(days=365, seed=9).loc["2021-01-11":].iloc[:24 * 7], is_electricity_data=True)}
        families.append(("caltrack_hourly", lambda: quiet(CTModel().fit, ct_b), CTModel, ct_sets, {}))
    except Exception as e:  # noqa
        res["hist"]["caltrack_family_unavailable:" + type(e).__name__] = 1
        ct_b = None
    other_fit = [lambda: quiet(DailyModel(model="legacy").fit, DailyBaselineData(synth_daily(seed=11), is_electricity_data=True)),
                 lambda: quiet(DailyModel, settings={"weekday_weekend": {"friday": "weekend"}}),
                 lambda: quiet(BillingModel)]
    n_hist = int((3 if not thorough else 40) * scale)

    def lists_of(obj):
        """the data object's own warning / disqualification lists (names, in order)"""
        return ([getattr(w, "qualified_name", str(w)) for w in getattr(obj, "warnings", [])],
                [getattr(w, "qualified_name", str(w)) for w in getattr(obj, "disqualification", [])])

    base_obj = dict(daily=daily_b, billing=bill_b, hourly=hour_b, hourly_short_baseline=base_obj_short, caltrack_hourly=ct_b)
    for fam, mkfit, cls, sets, kw in families:
        base_lists0 = lists_of(base_obj[fam])
        try:
            model = mkfit()
        except Exception as e:  # noqa
            fail("fit_failed", family=fam, error=f"{type(e).__name__}: {str(e)[:100]}")
            continue
        if lists_of(base_obj[fam]) != base_lists0:
            fail("fit_modified_data_object_lists", family=fam, before=base_lists0, after=lists_of(base_obj[fam]))
        set_lists0 = {k: lists_of(rd) for k, rd in sets.items()}
        doc0 = doc_of(model)
        js0 = quiet(model.to_json)
        fresh = {k: quiet(cls.from_json(js0).predict, rd, **kw) for k, rd in sets.items()}      # predict(A) on a fresh copy
        df_snaps = {k: snap_frame(rd._df) for k, rd in sets.items()}
        attrs0 = {k: id(v) for k, v in vars(model).items()}
        for hno in range(n_hist):
            keys = list(sets)
            hist = [rng.choice(keys) for _ in range(rng.randint(2, 6))]
            if fam == "hourly" and hno == 0:
                hist = ["july_week", "january_week", "day"]          # the order named in the property's text
            if fam == "hourly_short_baseline":
                if hno > 0 and not thorough:
                    break
                hist = ["year_1", "year_2_other_autumn_shape", "year_1"]
            if fam == "hourly" and hno == 1:
                hist = ["july_week_with_ghi", "july_week", "july_week_with_ghi"]
            if fam == "caltrack_hourly":
                if hno > 1 and not thorough:
                    break
                hist = (["late_may_local", "late_may_utc_stamps", "january_week", "late_may_local"] if hno == 0 else
                        ["late_may_utc_stamps", "late_may_local", "late_may_utc_stamps"] if hno == 1 else hist)
            trace = []
            for step, k in enumerate(hist):
                if rng.random() < 0.35:
                    try:
                        rng.choice(other_fit)()                      # work on OTHER objects in between
                        trace.append("fit/construct another model")
                    except Exception:  # noqa
                        pass
                trace.append(f"predict({k})")
                res["evaluations"] += 1
                try:
                    out = quiet(model.predict, sets[k], **kw)
                except Exception as e:  # noqa
                    fail("predict_after_history_raises", family=fam, history=trace, error=f"{type(e).__name__}: {str(e)[:100]}")
                    break
                ok, why = frames_equal(fresh[k], out)
                if not ok:
                    fail("prediction_depends_on_earlier_predictions", family=fam, history=trace, detail=why)
                    break
                d = doc_of(model)
                if not same_document(d, doc0):
                    keys_ = [x for x in doc0 if not same_document(doc0.get(x), d.get(x))]
                    fail("serialised_model_changed", family=fam, history=trace, differing_keys=keys_[:5])
                    break
                if not frame_unchanged(df_snaps[k], sets[k]._df):
                    fail("predict_modified_data_object", family=fam, history=trace, dataset=k)
                    break
                if lists_of(sets[k]) != set_lists0[k] or lists_of(base_obj[fam]) != base_lists0:
                    fail("predict_modified_data_object_lists", family=fam, history=trace, dataset=k,
                         reporting_object=dict(before=set_lists0[k], after=lists_of(sets[k])),
                         baseline_object=dict(before=base_lists0, after=lists_of(base_obj[fam])))
                    break
                # the frame handed out by predict is independent of the data object
                if len(out):
                    out.iloc[0, out.columns.get_loc("temperature")] = -54321.0
                    if float(sets[k]._df["temperature"].iloc[0]) == -54321.0:
                        fail("prediction_frame_aliases_data_object", family=fam, dataset=k)
                        sets[k]._df.iloc[0, sets[k]._df.columns.get_loc("temperature")] = float(df_snaps[k][0]["temperature"].iloc[0])
                        break
            sigs.add((fam, tuple(hist[:3])))
        if len(res["samples"]) < 3:
            res["samples"].append(dict(family=fam, history=trace, datasets=list(sets)))

    # ------------------------------------------------------------------ fit does not modify the data object; one model's fit does not alter another model
    if daily_b is not None:
        s = snap_frame(daily_b._df)
        w0, q0 = list(daily_b.warnings), list(daily_b.disqualification)
        mA = quiet(DailyModel().fit, daily_b)
        docA = doc_of(mA)
        res["evaluations"] += 1
        if not frame_unchanged(s, daily_b._df):
            fail("fit_modified_data_object", family="daily")
        mB = quiet(DailyModel(model="legacy").fit, DailyBaselineData(synth_daily(seed=21).assign(observed=lambda d: d.observed * 3 + 5), is_electricity_data=True))
        quiet(BillingModel().fit, bill_b, ignore_disqualification=True) if bill_b is not None else None
        if not same_document(doc_of(mA), docA):
            d = doc_of(mA)
            fail("serialised_model_changed_by_fitting_another_meter", family="daily",
                 differing=[k for k in docA if not same_document(docA[k], d.get(k))][:4], detail=json.dumps(d.get("info", {}).get("error"))[:200])
        sigs.add(("interleaved_fit",))

    # ------------------------------------------------------------------ a POOR fit: the fit's own verdict belongs to the model, not to the data object
    from opendsm.eemeter.common.exceptions import DataSufficiencyError
    rng_pf = np.random.default_rng(202 + ctx["seed"])
    poor = synth_daily(seed=5).copy()
    poor["observed"] = np.abs(rng_pf.normal(10, 60, len(poor))) ** 2 + 0.1            # heavy-tailed, unrelated to the weather
    try:
        pdata = DailyBaselineData(poor, is_electricity_data=True)
        l0 = lists_of(pdata)
        mp = quiet(DailyModel().fit, pdata, ignore_disqualification=True)
        res["evaluations"] += 1
        res["hist"]["poor_fit_model_disqualification"] = lists_of(mp)[1]
        if lists_of(pdata) != l0:
            fail("fit_modified_data_object_lists", family="daily", input="heavy-tailed usage unrelated to the weather (poor fit)",
                 before=l0, after=lists_of(pdata))
        if not l0[1]:
            try:
                quiet(DailyModel().fit, pdata)                                          # the same, still qualified, data object once more
            except DataSufficiencyError:
                fail("second_fit_on_the_same_data_object_refused", family="daily", input="heavy-tailed usage unrelated to the weather (poor fit)",
                     data_disqualification_before_first_fit=l0[1], after=lists_of(pdata)[1])
        sigs.add(("poor_fit_lists",))
    except Exception as e:  # noqa
        res["hist"]["poor_fit_unavailable:" + type(e).__name__] = 1

    # ------------------------------------------------------------------ T2: the cluster-table model against the real hourly predict state
    lines, expect = [], []
    if hour_b is not None and ctx.get("model_ok", True):
        try:
            hm = HourlyModel().fit(hour_b, ignore_disqualification=True)
            tbl0 = [(int(m_), int(d_), int(c_)) for (m_, d_), c_ in hm._df_temporal_clusters["temporal_cluster"].items()]
            sets = hourly_sets()
            seq = ["july_week", "january_week", "day", "part_year"]
            ops = []
            for k in seq:
                f = sets[k].df
                pairs = sorted(set(zip(f.index.month, f.index.dayofweek)))
                quiet(hm.predict, sets[k], ignore_disqualification=True)
                tbl = [(int(m_), int(d_), int(c_)) for (m_, d_), c_ in hm._df_temporal_clusters["temporal_cluster"].items()]
                ops.append((pairs, tbl))
            mode = "keep" if all(t == tbl0 for _, t in ops) else "assignBack"
            res["hist"]["cluster_table_mode_measured"] = mode
            line = f"clusters {mode} " + ",".join(f"{a}.{b}.{c}" for a, b, c in tbl0) + " " + " ".join(
                ";".join(f"{a}.{b}" for a, b in pairs) for pairs, _ in ops)
            lines.append(line)
            expect.append("ok " + " | ".join(",".join(f"{a}.{b}.{c}" for a, b, c in t) for _, t in ops))
        except Exception as e:  # noqa
            res["hist"]["cluster_trace_failed:" + type(e).__name__] = str(e)[:80]
    if lines:
        outs = core.run_driver(lines)
        for o, e in zip(outs, expect):
            res["traces"] += 1
            if o.strip() != e.strip():
                res["disagreements"].append(dict(op="clusters", lean=o[:300], impl=e[:300]))
    res["distinct_nontrivial"] = len(sigs)
    res["rule"] = ("data classes constructed from caller frames (frame and from_series entry points, all families); per family a fitted model and "
                   "histories of 2-6 predict calls over reporting sets of different span (day, week, month, part-year, year, with/without observed), "
                   "35% of steps preceded by fitting/constructing OTHER models; snapshots of to_json, private frames and caller frames around "
                   "every step; the hourly history 'July week, January week, day' first. distinct = (family, first three datasets of the history)")
    return res


def replay_finding(entry):
    return False


def replay(obj):
    r = run(dict(tier="quick", seed=obj.get("seed", 0), model_ok=False, findings=[]))
    return r["oracle_failures"]


LEVEL_TEXT = ("Lean 4 theorems: a frame condition proved by induction over operation histories of any length (an attribute no operation of "
              "the history writes keeps its value), instantiated with the write footprints of predict()/to_dict() re-extracted from the source "
              "on every run (daily, billing and CalTRACK predict write nothing on the model: closed by decide); for the hourly model, whose "
              "predict path does assign serialised attributes, a concrete model of the temporal-cluster table with the theorem that, when "
              "the looked-up table is not assigned back, every history leaves it unchanged and every lookup equals the lookup on the fitted "
              "table (and a concrete counterexample for the assign-back behaviour of the pinned commit). Which behaviour the implementation "
              "has is MEASURED on every run; the oracle snapshots real objects around every step of generated histories.")
LEVEL_NOTE = ("Trusted: Lean kernel + standard axioms; the AST footprint extractor (self-attribute assignments, in-place mutator calls and "
              "inplace=True on the methods reachable from predict; aliasing through local variables and C-level mutation inside pandas/numpy "
              "are invisible to it and are only seen by the snapshots); the remaining hourly writes (_ts_features, _categorical_features, "
              "_ts_feature_norm, _T_edge_bin_coeffs, warnings) are covered by the oracle's before/after comparison of the serialised form, "
              "not by a fixpoint theorem — partial there.")
TECHNIQUE = "Lean 4 proof (frame condition by induction over histories; concrete cluster-table model) + footprint extraction + history oracle"
ASSUMPTIONS = ["alias analysis limited to direct self.attribute writes", "hourly: only the temporal-cluster table has a concrete update model"]
