"""C01 — a stored model reproduces its counterfactual exactly.

T2: the daily/billing document round trip of the Lean model (EEM.Model.Serial: toDoc / JSON /
fromDoc over the pydantic field lists) against real to_dict/from_dict on synthetic and fitted
parameter documents; the documented formula (the GENERATED kernels on Float through the driver)
against predict() of a model restored from JSON alone.  Oracle: for every family and profile a
fitted model and its from_json(to_json()) copy predict bit-identically on reporting data inside
and far outside the fitted temperature range, re-serialise to the same document, and keep
timezone, warnings and disqualifications."""
from __future__ import annotations

import contextlib
import io
import json
import random
import warnings

import numpy as np
import pandas as pd

from .. import core
from ..core import fhex, unhex, close
from . import c11, pframe

ID = "C01"
LEAN_MODULE = "EEM.Props.C01"
BUILD_TARGETS = ["EEM.Props.C01"]
MODEL_TARGETS = ["EEM.Model.Serial", "EEM.Model.DailyCurve", "EEM.Proto"]
DESIGN_REF = "DESIGN.md §5 C01"
TZ = "America/Chicago"


def frames_equal(a, b):
    if list(a.columns) != list(b.columns) or not a.index.equals(b.index):
        return False, "columns/index differ"
    for c in a.columns:
        x, y = a[c].to_numpy(), b[c].to_numpy()
        if x.dtype.kind in "fc" or y.dtype.kind in "fc":
            x, y = x.astype(float), y.astype(float)
            same = (x == y) | (np.isnan(x) & np.isnan(y))
        else:
            same = (x == y) | (pd.isna(x) & pd.isna(y))
        if not bool(np.all(same)):
            i = int(np.nonzero(~same)[0][0])
            return False, f"column {c} row {a.index[i]}: {x[i]!r} vs {y[i]!r} ({int((~same).sum())} rows)"
    return True, ""


def roundtrip(name, model, cls, rds, res, sigs, **kw):
    """the C01 oracle for one fitted model"""
    res["evaluations"] += 1
    case = dict(family=name)
    try:
        with contextlib.redirect_stdout(io.StringIO()):
            js = model.to_json()
            m2 = cls.from_json(js)
    except Exception as e:  # noqa
        res["oracle_failures"].append(dict(clause="stored_model_cannot_be_read_back", error=f"{type(e).__name__}: {str(e)[:160]}", **case))
        return None
    try:
        with contextlib.redirect_stdout(io.StringIO()):
            js2 = cls.from_json(js).to_json()          # a fresh copy, before any predict (state changes by predict are C02's subject)
        if js2 != js and not same_document(json.loads(js), json.loads(js2)):
            a, b = json.loads(js), json.loads(js2)
            keys = [k for k in a if a.get(k) != b.get(k)] + [k for k in b if k not in a]
            res["oracle_failures"].append(dict(clause="reserialised_document_differs", differing_top_level_keys=keys[:6], **case))
    except Exception as e:  # noqa
        res["oracle_failures"].append(dict(clause="restored_model_cannot_be_serialised_again", error=f"{type(e).__name__}: {str(e)[:160]}", **case))
    for label, rd in rds.items():
        try:
            with contextlib.redirect_stdout(io.StringIO()):
                p1 = model.predict(rd, **kw)
                p2 = m2.predict(rd, **kw)
            ok, why = frames_equal(p1, p2)
            if not ok:
                res["oracle_failures"].append(dict(clause="restored_model_predicts_differently", reporting=label, detail=why, **case))
        except Exception as e:  # noqa
            res["oracle_failures"].append(dict(clause="restored_model_predict_raises", reporting=label, error=f"{type(e).__name__}: {str(e)[:120]}", **case))
    # a JSON document has no key order: a store that re-orders object keys (sorted keys, e.g. a jsonb column) must give the same model
    try:
        with contextlib.redirect_stdout(io.StringIO()):
            m3 = cls.from_json(json.dumps(json.loads(js), sort_keys=True))
            rd0 = next(iter(rds.values()))
            ok, why = frames_equal(model.predict(rd0, **kw), m3.predict(rd0, **kw))
        if not ok:
            res["oracle_failures"].append(dict(clause="restored_model_depends_on_json_key_order", detail=why, **case))
    except Exception as e:  # noqa
        res["oracle_failures"].append(dict(clause="restored_model_depends_on_json_key_order", error=f"{type(e).__name__}: {str(e)[:120]}", **case))
    # timezone, warnings, disqualification
    for attr in ("baseline_timezone",):
        if hasattr(model, attr) and str(getattr(model, attr)) != str(getattr(m2, attr, None)):
            res["oracle_failures"].append(dict(clause="baseline_timezone_lost", original=str(getattr(model, attr)), restored=str(getattr(m2, attr, None)), **case))
    for attr in ("warnings", "disqualification"):
        if hasattr(model, attr):
            a = [w.qualified_name for w in getattr(model, attr)]
            b = [w.qualified_name for w in getattr(m2, attr, [])]
            if a != b:
                res["oracle_failures"].append(dict(clause=f"{attr}_lost", original=a, restored=b, **case))
    sigs.add(("roundtrip", name))
    return js


def run(ctx):
    warnings.filterwarnings("ignore")
    from opendsm.eemeter.models.daily.model import DailyModel
    from opendsm.eemeter.models.billing.model import BillingModel
    from opendsm.eemeter.models.hourly.model import HourlyModel
    from opendsm.eemeter.models.daily.data import DailyBaselineData, DailyReportingData
    from opendsm.eemeter.models.billing.data import BillingBaselineData, BillingReportingData
    from opendsm.eemeter.models.hourly.data import HourlyBaselineData, HourlyReportingData
    from opendsm.eemeter.common.warnings import EEMeterWarning
    from .c04 import synth_daily, synth_hourly

    rng = random.Random(ctx["seed"] * 275604541 + 1)
    thorough = ctx["tier"] == "thorough"
    scale = ctx.get("budget_scale", 1)
    res = dict(evaluations=0, disagreements=[], oracle_failures=[], finding_instances={}, samples=[], hist={}, traces=0)
    sigs = set()

    # ---------------- (A) fitted models, every family / profile
    dd = synth_daily()
    bd = DailyBaselineData(dd, is_electricity_data=True)
    inside = synth_daily(seed=3).iloc[:120]
    outside = synth_daily(seed=4).iloc[:120].assign(temperature=lambda d: d.temperature * 2.5 - 70)     # far outside the fitted range
    rds = {"inside": DailyReportingData(inside, is_electricity_data=True), "outside": DailyReportingData(outside, is_electricity_data=True),
           "temperature_only": DailyReportingData(inside[["temperature"]], is_electricity_data=True)}
    profiles = [("daily_current", lambda: DailyModel()),
                ("daily_legacy", lambda: DailyModel(model="legacy")),
                ("daily_custom_maps", lambda: DailyModel(settings={"season": {"march": "winter", "october": "summer"}, "weekday_weekend": {"friday": "weekend"}})),
                ("daily_developer", lambda: DailyModel(settings={"developer_mode": True, "silent_developer_mode": True, "split_selection": {"criteria": "aic"},
                                                                 "allow_smooth_model": False}))]
    if thorough or scale > 1:
        profiles += [("daily_legacy_developer", lambda: DailyModel(model="legacy", settings={"developer_mode": True, "silent_developer_mode": True,
                                                                                            "split_selection": {"allow_separate_weekday_weekend": True, "reduce_splits_by_gaussian": False},
                                                                                            "weekday_weekend": {"friday": "weekend"}}))]
    fitted_docs = []
    for name, mk in profiles:
        try:
            with contextlib.redirect_stdout(io.StringIO()):
                m = mk().fit(bd)
        except Exception as e:  # noqa
            res["hist"][f"fit_failed:{name}:{type(e).__name__}"] = 1
            continue
        # give the model a warning and a disqualification to carry through storage
        m.warnings = list(m.warnings) + [EEMeterWarning(qualified_name="eemeter.test.warning", description="carried", data={"x": 1.5})]
        m.params = m._create_params_from_fit_model()
        js = roundtrip(name, m, DailyModel, rds, res, sigs)
        if js:
            fitted_docs.append((name, json.loads(js)))
    reads = pd.date_range("2021-01-01", periods=13, freq="30D", tz=TZ)
    meter = pd.Series(np.linspace(500, 900, 13), index=reads, name="observed")
    ht = synth_hourly(days=365)["temperature"]
    try:
        bb = BillingBaselineData.from_series(meter, ht, is_electricity_data=True)
        brd = {"inside": BillingReportingData.from_series(meter.iloc[:6], ht.iloc[:24 * 160], is_electricity_data=True),
               "outside": BillingReportingData.from_series(meter.iloc[:6], (ht.iloc[:24 * 160] * 2.5 - 70), is_electricity_data=True)}
        with contextlib.redirect_stdout(io.StringIO()):
            bm = BillingModel().fit(bb, ignore_disqualification=True)
        js = roundtrip("billing", bm, BillingModel, brd, res, sigs, ignore_disqualification=True)
        if js:
            fitted_docs.append(("billing", json.loads(js)))
    except Exception as e:  # noqa
        res["hist"]["billing_unavailable:" + type(e).__name__] = 1
    # the same with timezone objects of other libraries (dateutil, pytz, fixed offset): the stored baseline timezone must let the
    # restored model accept exactly the data the original accepts
    for tzname in ["dateutil/" + TZ, "pytz:" + TZ, "fixed:-06:00"]:
        try:
            if tzname.startswith("pytz:"):
                import pytz
                tzo = pytz.timezone(TZ)
            elif tzname.startswith("fixed:"):
                import datetime as _dt
                tzo = _dt.timezone(_dt.timedelta(hours=-6))
            else:
                tzo = tzname
            m_x = pd.Series(meter.to_numpy(), index=meter.index.tz_convert(tzo), name="observed")
            t_x = pd.Series(ht.to_numpy(), index=ht.index.tz_convert(tzo), name="temperature")
            bb_x = BillingBaselineData.from_series(m_x, t_x, is_electricity_data=True)
            brd_x = {"inside": BillingReportingData.from_series(m_x.iloc[:6], t_x.iloc[:24 * 160], is_electricity_data=True)}
            with contextlib.redirect_stdout(io.StringIO()):
                bm_x = BillingModel().fit(bb_x, ignore_disqualification=True)
                d_x = DailyBaselineData.from_series(pd.Series(synth_daily()["observed"].to_numpy(), index=synth_daily().index.tz_convert(tzo), name="observed"),
                                                    t_x, is_electricity_data=True)
                dm_x = DailyModel().fit(d_x, ignore_disqualification=True)
        except Exception as e:  # noqa
            res["hist"][f"tz_library_case_unavailable:{tzname}:{type(e).__name__}"] = 1
            continue
        roundtrip("billing[" + tzname + "]", bm_x, BillingModel, brd_x, res, sigs, ignore_disqualification=True)
        roundtrip("daily[" + tzname + "]", dm_x, DailyModel, {"baseline": d_x}, res, sigs, ignore_disqualification=True)
    try:
        hb = HourlyBaselineData(synth_hourly(days=365), is_electricity_data=True)
        hrd = {"inside": HourlyReportingData(synth_hourly(days=30, seed=5), is_electricity_data=True),
               "outside": HourlyReportingData(synth_hourly(days=20, seed=6).assign(temperature=lambda d: d.temperature * 2.5 - 70), is_electricity_data=True)}
        hm = HourlyModel().fit(hb, ignore_disqualification=True)
        roundtrip("hourly_nonsolar", hm, HourlyModel, hrd, res, sigs, ignore_disqualification=True)
        if True:
            ghi = synth_hourly(days=365).assign(ghi=lambda d: np.maximum(0, 500 * np.sin((np.arange(len(d)) % 24 - 6) / 12 * np.pi)))
            hm2 = HourlyModel().fit(HourlyBaselineData(ghi, is_electricity_data=True), ignore_disqualification=True)
            # also the BASELINE period itself, once as fitted and once with another irradiance source (same stamps and temperatures):
            # whatever the fitted object remembers about its baseline must not stand in for the features of the data it is given
            other = ghi.assign(ghi=lambda d: d.ghi * 0.6 + 25.0 * (d.ghi > 0))
            roundtrip("hourly_solar", hm2, HourlyModel, {"inside": HourlyReportingData(ghi.iloc[:24 * 30], is_electricity_data=True),
                                                         "baseline_period": HourlyReportingData(ghi, is_electricity_data=True),
                                                         "baseline_period_other_irradiance": HourlyReportingData(other, is_electricity_data=True)},
                      res, sigs, ignore_disqualification=True)
    except Exception as e:  # noqa
        res["oracle_failures"].append(dict(clause="hourly_family_unavailable", error=f"{type(e).__name__}: {str(e)[:120]}"))
    # other settings profiles the hourly constructor accepts: every one that can be fitted must survive storage
    hourly_profiles = [("no_edge_bins", {"temperature_bin": {"include_edge_bins": False, "edge_bin_rate": None, "edge_bin_percent": None}}),
                       ("seed_7_robust_scaler", {"seed": 7, "scaling_method": "robustscaler"})]
    if thorough:
        hourly_profiles += [("adaptive_weights", {"elasticnet": {"adaptive_weights": True, "adaptive_weight_max_iter": 3, "adaptive_weight_tol": 1e-3}}),
                            ("min_daily_training_hours_0", {"min_daily_training_hours": 0})]
    for pname, st in hourly_profiles:
        try:
            hmp = HourlyModel(settings=st)
        except Exception as e:  # noqa
            res["hist"][f"hourly_profile_rejected:{pname}:{type(e).__name__}"] = 1      # not a profile the constructor accepts
            continue
        try:
            hmp = hmp.fit(hb, ignore_disqualification=True)
        except Exception as e:  # noqa
            res["hist"][f"hourly_profile_fit_failed:{pname}:{type(e).__name__}"] = 1
            continue
        roundtrip("hourly_profile_" + pname, hmp, HourlyModel, {"inside": hrd["inside"]}, res, sigs, ignore_disqualification=True)
    try:
        from opendsm.eemeter.models.hourly_caltrack.wrapper import HourlyModel as CT
        from opendsm.eemeter.models.hourly_caltrack.data import HourlyBaselineData as CTB, HourlyReportingData as CTR
        ct = CT().fit(CTB(synth_hourly(days=365), is_electricity_data=True))
        roundtrip("caltrack_hourly", ct, CT, {"inside": CTR(synth_hourly(days=30, seed=5), is_electricity_data=True)}, res, sigs)
    except Exception as e:  # noqa
        res["oracle_failures"].append(dict(clause="caltrack_family_unavailable", error=f"{type(e).__name__}: {str(e)[:120]}"))

    # ---------------- (B) synthetic documents: all seven shapes x split layouts; document round trip and the documented formula
    lines, metas = [], []
    dsettings = DailyModel().settings.model_dump()
    n_docs = int((60 if not thorough else 3000) * scale)
    I = c11._impl()
    for k in range(n_docs):
        combo = rng.choice(["fw-su_sh_wi", "fw-sh_wi__wd-su__we-su", "wd-su_sh_wi__we-su_sh_wi", "fw-sh__fw-su__fw-wi"])
        st = json.loads(json.dumps(dsettings))
        if k % 3 == 1:      # stored custom weekday / season maps must be the ones the restored model routes with
            st["weekday_weekend"] = dict(zip(pframe.DAYS, rng.choice([["weekday"] * 4 + ["weekend", "weekend", "weekday"],
                                                                      ["weekend"] + ["weekday"] * 5 + ["weekend"]]))) | {"options": ["weekday", "weekend"]}
            st["season"] = {m_: rng.choice(["summer", "shoulder", "winter"]) for m_ in pframe.MONTHS} | {"options": ["summer", "shoulder", "winter"]}
        doc = pframe.make_doc(combo, TZ, st)
        recs = {}
        for key in doc["submodels"]:
            rec = c11.gen_record(rng)
            while not c11.box_ok(rec):
                rec = c11.gen_record(rng)
            full = {f: rec["coefficients"].get(f) for f in ["model_type", "intercept"] + c11.FIELDS}
            doc["submodels"][key] = dict(coefficients=full, temperature_constraints=rec["temperature_constraints"], f_unc=round(rng.uniform(0, 5), 3))
            recs[key] = rec
        res["evaluations"] += 1
        m = DailyModel.from_dict(json.loads(json.dumps(doc)))
        back = m.to_dict()
        if json.loads(json.dumps(back["submodels"])) != json.loads(json.dumps(doc["submodels"])):
            res["oracle_failures"].append(dict(clause="document_round_trip", given=doc["submodels"], returned=back["submodels"]))
        # document op for the Lean model: one line per submodel
        for key, rec in recs.items():
            c = doc["submodels"][key]["coefficients"]
            tc = rec["temperature_constraints"]
            parts = ["doc", c["model_type"], fhex(c["intercept"])] + [fhex(c[f]) if c.get(f) is not None else "-" for f in c11.FIELDS] + \
                    [fhex(tc[x]) for x in ("T_min", "T_max", "T_min_seg", "T_max_seg")] + [fhex(doc["submodels"][key]["f_unc"])]
            lines.append(" ".join(parts))
            metas.append(("doc", json.loads(json.dumps(back["submodels"][key]))))
        # the documented formula, evaluated from the JSON alone, against predict() of the restored model
        idx = pd.date_range("2021-01-04", periods=28, freq="D", tz=TZ)
        T = np.array([round(rng.uniform(-60, 140), rng.choice([0, 1, 4])) for _ in idx])
        out = m._predict(pd.DataFrame({"temperature": T}, index=idx))
        from .c13 import spec_component
        for ts, Ti, pred, split in zip(out.index, out["temperature"], out["predicted"], out["model_split"]):
            season = st["season"][pframe.MONTHS[ts.month - 1]]
            is_we = st["weekday_weekend"][pframe.DAYS[ts.dayofweek]] == "weekend"
            hits = spec_component(combo, season, is_we)
            if hits != [split]:
                res["oracle_failures"].append(dict(clause="restored_model_routes_with_other_settings_than_stored", date=str(ts.date()),
                                                   stored_weekday_map=st["weekday_weekend"], expected_submodel=hits, model_split=None if split != split else split))
                break
            rec = recs[split]
            x = c11.effective_x(I, rec)
            if not c11.not_whole(x, rec["temperature_constraints"]["T_max"]):
                continue
            lines.append(c11.submodel_line(rec, [float(Ti)]))
            metas.append(("formula", float(pred), x[2] != 0 or x[5] != 0, dict(split=split, T=float(Ti), record=rec)))
        sigs.add(("doc", combo))
    # fitted documents: the formula from the JSON alone against the restored model's prediction
    for name, doc in fitted_docs:
        try:
            cls = BillingModel if name == "billing" else DailyModel
            with contextlib.redirect_stdout(io.StringIO()):
                m = cls.from_dict(json.loads(json.dumps(doc)))
            idx = pd.date_range("2021-01-04", periods=84, freq="D", tz=TZ)
            T = np.array([round(rng.uniform(-60, 140), 1) for _ in idx])
            out = m._predict(pd.DataFrame({"temperature": T}, index=idx))
            for Ti, pred, split in zip(out["temperature"], out["predicted"], out["model_split"]):
                if split != split:
                    continue
                sm = doc["submodels"][split]
                rec = dict(coefficients={k: v for k, v in sm["coefficients"].items() if v is not None}, temperature_constraints=sm["temperature_constraints"])
                x = c11.effective_x(I, rec)
                if not c11.not_whole(x, rec["temperature_constraints"]["T_max"]):
                    continue
                lines.append(c11.submodel_line(rec, [float(Ti)]))
                metas.append(("formula", float(pred), x[2] != 0 or x[5] != 0, dict(profile=name, split=split, T=float(Ti))))
            sigs.add(("fitted_formula", name))
        except Exception as e:  # noqa
            res["hist"][f"fitted_formula_skipped:{name}:{type(e).__name__}"] = 1

    if ctx.get("model_ok", True):
        outs = core.run_driver(lines)
        for o, meta in zip(outs, metas):
            res["traces"] += 1
            if meta[0] == "doc":
                try:
                    lean_doc = json.loads(o[3:]) if o.startswith("ok ") else None
                except Exception:  # noqa
                    lean_doc = None
                if lean_doc is None or not docs_equal(lean_doc, meta[1]):
                    res["disagreements"].append(dict(op="doc", lean=o[:300], impl=json.dumps(meta[1])[:300]))
            else:
                _, pred, smooth, d = meta
                cell = o[3:].split(",")[0] if o.startswith("ok ") else "err"
                if cell == "err" or not c11.compare_floats(cell, pred, smooth):
                    res["oracle_failures"].append(dict(clause="prediction_is_not_the_documented_formula_of_the_JSON_parameters",
                                                       formula_value=None if cell == "err" else unhex(cell), predicted=pred, **d))
    res["samples"] = [dict(op=m_[0]) for m_ in metas[:2]] + [dict(profiles=[p[0] for p in profiles])]
    res["distinct_nontrivial"] = len(sigs)
    res["rule"] = ("fitted models of every family/profile (daily current, legacy, custom season+weekday maps, developer overrides; billing; "
                   "hourly non-solar (thorough: solar); CalTRACK hourly) carrying an extra warning, predicted on reporting data inside and far "
                   "outside the fitted range and temperature-only; synthetic documents over all seven shapes x four split layouts; the formula "
                   "from the JSON alone on temperatures in [-60, 140]. distinct = (family/profile), (split layout)")
    return res


def same_document(a, b):
    """equality of parsed documents (12 == 12.0; NaN == NaN)"""
    if isinstance(a, dict) and isinstance(b, dict):
        return set(a) == set(b) and all(same_document(a[k], b[k]) for k in a)
    if isinstance(a, list) and isinstance(b, list):
        return len(a) == len(b) and all(same_document(x, y) for x, y in zip(a, b))
    if isinstance(a, float) and isinstance(b, float) and a != a and b != b:
        return True
    return a == b


def docs_equal(a, b):
    """the Lean document (numbers as 16-hex bit patterns) against the real to_dict()"""
    if isinstance(a, dict) and isinstance(b, dict):
        return set(a) == set(b) and all(docs_equal(a[k], b[k]) for k in a)
    if isinstance(a, str) and len(a) == 16 and isinstance(b, (int, float)) and not isinstance(b, bool):
        return a == fhex(b) or unhex(a) == float(b)
    return a == b


def replay_finding(entry):
    return False


def replay(obj):
    r = run(dict(tier="quick", seed=obj.get("seed", 0), model_ok=False, findings=[]))
    return r["oracle_failures"]


LEVEL_TEXT = ("Lean 4 theorems (daily/billing): the stored document of a sub-model (pydantic field lists ModelCoefficients / "
              "DailySubmodelParameters) round-trips through JSON exactly for every record — fromDoc (dumpsLoads (toDoc s)) = s — hence "
              "the restored model predicts identically and re-serialises to the same document; and the prediction is the documented "
              "closed-form curve evaluated from the stored parameters alone (C11's refinement of the kernels regenerated from /repo). "
              "For hourly and CalTRACK hourly the numeric cores are parameters: round trip, re-serialisation and metadata are established "
              "by the oracle on fitted models of every family/profile (partial for those families).")
LEVEL_NOTE = ("Trusted: Lean kernel + standard axioms; json.dumps/loads round-trips doubles, NaN, +-Infinity, strings and None and turns "
              "integer keys into strings (assumption of the JSON model); the settings subtree and info are carried opaquely; hourly / "
              "CalTRACK restoration is checked on real fits only.")
TECHNIQUE = ("Lean 4 proof (document round trip by structural recursion; formula by C11 refinement; fitted-state-is-restored over footprint tables "
             "regenerated from the source on every run) + differential correspondence + real-fit round-trip oracle")
ASSUMPTIONS = ["JSON round-trips IEEE doubles exactly (Python repr)", "hourly/CalTRACK numeric cores are external parameters (partial)"]
