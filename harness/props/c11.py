"""C11 — the daily model curve is continuous, monotone and its loads add up.

T2: real `DailyModel._predict_submodel`, numba `full_model`, `get_full_model_x`,
`fix_full_model_x`, `get_smooth_coeffs` vs. the Lean model (generated kernels on Float).
Oracle: the property's clauses evaluated on the implementation's output."""
from __future__ import annotations

import math
import random

import numpy as np
import pandas as pd

from .. import core
from ..core import fhex, unhex, close

ID = "C11"
LEAN_MODULE = "EEM.Props.C11"
BUILD_TARGETS = ["EEM.Props.C11"]
DESIGN_REF = "DESIGN.md §5 C11"

SHAPES = ["hdd_tidd_cdd_smooth", "hdd_tidd_cdd", "hdd_tidd_smooth", "hdd_tidd",
          "tidd_cdd_smooth", "tidd_cdd", "tidd"]
KEYS = {"hdd_tidd_cdd_smooth": "hdd_tidd_cdd_smooth", "hdd_tidd_cdd": "hdd_tidd_cdd",
        "hdd_tidd_smooth": "c_hdd_tidd_smooth", "tidd_cdd_smooth": "c_hdd_tidd_smooth",
        "hdd_tidd": "c_hdd_tidd", "tidd_cdd": "c_hdd_tidd", "tidd": "tidd"}
FIELDS = ["hdd_bp", "hdd_beta", "hdd_k", "cdd_bp", "cdd_beta", "cdd_k"]


def _impl():
    from opendsm.eemeter.models.daily.model import DailyModel
    from opendsm.eemeter.models.daily.parameters import DailySubmodelParameters, ModelCoefficients
    from opendsm.eemeter.models.daily.base_models.full_model import full_model, get_full_model_x, fix_full_model_x
    from opendsm.eemeter.models.daily.utilities.base_model import get_smooth_coeffs
    return dict(DailyModel=DailyModel, DSP=DailySubmodelParameters, MC=ModelCoefficients,
                full_model=full_model, gfx=get_full_model_x, fix=fix_full_model_x, smooth=get_smooth_coeffs)


# --------------------------------------------------------------------------- generation
def gen_record(rng: random.Random):
    """A stored record: mostly inside the optimiser's box, with explicit boundary bias."""
    shape = rng.choice(SHAPES)
    T_min = rng.choice([-20.0, 0.0, 10.0, 25.5])
    T_max = T_min + rng.choice([30.0, 60.0, 85.0])
    seg = rng.choice([0.0, 1.0, 5.0, 9.25])
    T_min_seg, T_max_seg = T_min + seg, T_max - seg

    def bp():
        r = rng.random()
        if r < 0.12:
            return rng.choice([T_min, T_max, T_min_seg, T_max_seg])
        if r < 0.16:
            return rng.choice([T_min - 3.0, T_max + 3.0])
        return round(rng.uniform(T_min, T_max), rng.choice([0, 1, 6]))

    def beta():
        r = rng.random()
        if r < 0.1:
            return 0.0
        return round(rng.uniform(0.01, 3.0), rng.choice([1, 3, 9]))

    def pct():
        return rng.choice([0.0, 0.005, 0.01, 0.3, 0.5, 0.7, 1.0, round(rng.random(), 3)])

    c = dict(model_type=shape, intercept=round(rng.uniform(0.0, 60.0), rng.choice([0, 2, 7])))
    if shape in ("hdd_tidd_cdd_smooth", "hdd_tidd_cdd"):
        a, b = bp(), bp()
        if rng.random() < 0.12:
            b = a
        # stored records are ordered by from_np_arrays; keep a few reversed ones (from_dict accepts them)
        if a > b and rng.random() < 0.8:
            a, b = b, a
        c.update(hdd_bp=a, hdd_beta=beta(), cdd_bp=b, cdd_beta=beta())
        if shape.endswith("smooth"):
            c.update(hdd_k=pct(), cdd_k=pct())
    elif shape in ("hdd_tidd_smooth", "hdd_tidd"):
        b = beta()
        c.update(hdd_bp=bp(), hdd_beta=-b if rng.random() < 0.9 else b)
        if shape.endswith("smooth"):
            c.update(hdd_k=rng.choice([0.0, 0.5, 2.0, 7.5, round(rng.uniform(0, 20), 2)]))
    elif shape in ("tidd_cdd_smooth", "tidd_cdd"):
        b = beta()
        c.update(cdd_bp=bp(), cdd_beta=b if rng.random() < 0.9 else -b)
        if shape.endswith("smooth"):
            c.update(cdd_k=rng.choice([0.0, 0.5, 2.0, 7.5, round(rng.uniform(0, 20), 2)]))
    tc = dict(T_min=T_min, T_max=T_max, T_min_seg=T_min_seg, T_max_seg=T_max_seg)
    return dict(coefficients=c, temperature_constraints=tc)


def effective_x(I, rec):
    """the 7-vector the implementation hands to full_model (same calls as _predict_submodel)"""
    mc = I["MC"](**rec["coefficients"])
    tc = rec["temperature_constraints"]
    x = I["gfx"](mc.model_key, mc.to_np_array(), tc["T_min"], tc["T_max"], tc["T_min_seg"], tc["T_max_seg"])
    x = [float(v) for v in x]
    if mc.model_key == "hdd_tidd_cdd_smooth":
        hb, hk, cb, ck = [float(v) for v in I["smooth"](x[0], x[2], x[3], x[5])]
        x = [hb, x[1], hk, cb, x[4], ck, x[6]]
    return x


def temps_for(rng, rec, x):
    tc = rec["temperature_constraints"]
    pts = {-60.0, 140.0, tc["T_min"], tc["T_max"], tc["T_min_seg"], tc["T_max_seg"], x[0], x[3]}
    for b in (x[0], x[3]):
        for d in (1e-9, 1e-3, 0.5, 3.0, 20.0):
            pts.add(b - d)
            pts.add(b + d)
        pts.add(np.nextafter(b, -np.inf))
        pts.add(np.nextafter(b, np.inf))
    for _ in range(12):
        pts.add(round(rng.uniform(-60, 140), rng.choice([0, 1, 5])))
    # far tails: the clip thresholds of the exponent
    if x[2] > 0:
        pts.add(x[0] - 340.0 * x[2])
        pts.add(x[0] - 330.0 * x[2])
    if x[5] > 0:
        pts.add(x[3] + 340.0 * x[5])
    return sorted(float(p) for p in pts if math.isfinite(p))


def box_ok(rec):
    c = rec["coefficients"]
    s = c["model_type"]
    if s in ("hdd_tidd_cdd_smooth", "hdd_tidd_cdd"):
        ok = c["hdd_beta"] >= 0 and c["cdd_beta"] >= 0
        if s.endswith("smooth"):
            ok = ok and c["hdd_k"] >= 0 and c["cdd_k"] >= 0
        return ok
    if s == "hdd_tidd_smooth":
        return c["hdd_k"] >= 0
    if s == "tidd_cdd_smooth":
        return c["cdd_k"] >= 0
    return True


def not_whole(x, T_max):
    return not (x[0] == x[3] and x[3] >= T_max)


# --------------------------------------------------------------------------- oracle (on the implementation)
def oracle(rec, x, Ts, model, hdd, cdd):
    """C11's clauses on the implementation's output for an admissible record.
    Returns a list of (clause, detail)."""
    hb, bh, kh, cb, bc, kc, c = x
    fails = []
    # "a straight line with the FITTED slope beyond each balance point": the slope the curve is evaluated with is the stored one
    # unless the balance point sits on the end of the ABSOLUTE temperature range (where there is no "beyond" inside the data).
    # Judged from the stored record alone, not from the implementation's own read-back of it.
    co, tc_ = rec["coefficients"], rec["temperature_constraints"]
    if co["model_type"] in ("hdd_tidd_cdd", "hdd_tidd_cdd_smooth"):
        a, sa, b, sb = co["hdd_bp"], co["hdd_beta"], co["cdd_bp"], co["cdd_beta"]
        if b < a:
            a, sa, b, sb = b, sb, a, sa
        if a != b:
            if b < tc_["T_max"] and bc != sb:
                fails.append(("fitted_cooling_slope_not_used", dict(cdd_bp=b, stored_slope=sb, slope_used=bc, T_max=tc_["T_max"], T_max_seg=tc_["T_max_seg"])))
            if (a > tc_["T_min"] or b >= tc_["T_max"]) and bh != sa:
                fails.append(("fitted_heating_slope_not_used", dict(hdd_bp=a, stored_slope=sa, slope_used=bh, T_min=tc_["T_min"], T_min_seg=tc_["T_min_seg"])))
    scale = max(1.0, abs(c), float(np.max(np.abs(model))))
    tol = 1e-9 * scale
    L = max(bh, bc)
    for i, T in enumerate(Ts):
        m, h, d = float(model[i]), float(hdd[i]), float(cdd[i])
        if not (math.isfinite(m)):
            fails.append(("finite", dict(T=T, model=m)))
            continue
        if h < -tol or d < -tol:
            fails.append(("loads_nonneg", dict(T=T, hdd_load=h, cdd_load=d)))
        if abs(h) > tol and abs(d) > tol:
            fails.append(("loads_exclusive", dict(T=T, hdd_load=h, cdd_load=d)))
        if abs((c + h + d) - m) > 1e-12 * scale:
            fails.append(("loads_add_up", dict(T=T, intercept=c, hdd_load=h, cdd_load=d, model=m)))
        if hb <= T <= cb and m != c:
            fails.append(("flat_between", dict(T=T, model=m, intercept=c)))
        if kh == 0 and T <= hb and abs(m - (c + bh * (hb - T))) > 1e-9 * scale:
            fails.append(("linear_below_hb", dict(T=T, model=m)))
        if kc == 0 and T >= cb and abs(m - (c + bc * (T - cb))) > 1e-9 * scale:
            fails.append(("linear_above_cb", dict(T=T, model=m)))
        # smoothed: distance to the line with the FITTED slope is at most slope*k*exp(u) (C11_asymptote_*)
        LNMIN = -331.1723583361916
        if kh > 0 and T <= hb:
            u = max((T - hb) / kh, LNMIN)
            if abs(m - (c - bh * kh + bh * (hb - T))) > bh * kh * math.exp(u) * (1 + 1e-6) + tol:
                fails.append(("asymptote_below_hb", dict(T=T, model=m, line=c - bh * kh + bh * (hb - T), stored_slope=bh)))
        if kc > 0 and T >= cb:
            u = max((cb - T) / kc, LNMIN)
            if abs(m - (c - bc * kc + bc * (T - cb))) > bc * kc * math.exp(u) * (1 + 1e-6) + tol:
                fails.append(("asymptote_above_cb", dict(T=T, model=m, line=c - bc * kc + bc * (T - cb), stored_slope=bc)))
        if i > 0:
            T0, m0 = Ts[i - 1], float(model[i - 1])
            if T <= hb and m > m0 + tol:
                fails.append(("antitone_below_hb", dict(T0=T0, T1=T, m0=m0, m1=m)))
            if T0 >= cb and m < m0 - tol:
                fails.append(("monotone_above_cb", dict(T0=T0, T1=T, m0=m0, m1=m)))
            # continuity, quantitatively: the curve is Lipschitz with constant max(βh, βc)
            if abs(m - m0) > L * (T - T0) * (1 + 1e-9) + tol:
                fails.append(("continuous_lipschitz", dict(T0=T0, T1=T, m0=m0, m1=m, L=L)))
    return fails


def regime_signature(rec, x, Ts):
    hb, bh, kh, cb, bc, kc, c = x
    return (rec["coefficients"]["model_type"], bh == 0, bc == 0, kh == 0, kc == 0, hb == cb,
            hb <= rec["temperature_constraints"]["T_min"], cb >= rec["temperature_constraints"]["T_max"])


# --------------------------------------------------------------------------- one case through both sides
def submodel_line(rec, Ts):
    c = rec["coefficients"]
    tc = rec["temperature_constraints"]
    parts = ["submodel", c["model_type"], fhex(c["intercept"])]
    parts += [fhex(c[f]) if c.get(f) is not None else "-" for f in FIELDS]
    parts += [fhex(tc[k]) for k in ("T_min", "T_max", "T_min_seg", "T_max_seg")]
    parts += [fhex(t) for t in Ts]
    return " ".join(parts)


def compare_floats(a_hex, b, smooth):
    a = unhex(a_hex)
    if a_hex != "nan" and fhex(b) == a_hex:
        return True
    if a != a and b != b:
        return True
    if a == b:           # +0.0 vs -0.0
        return True
    return smooth and close(a, b, 1e-12)


_INTERNAL_BROKEN = []


def public_eval(I, rec, Ts):
    """the same record evaluated through the PUBLIC API: a one-component stored model, predict() on a frame of the temperatures"""
    from . import pframe
    from opendsm.eemeter.models.daily.data import DailyReportingData
    doc = pframe.make_doc("fw-su_sh_wi", "UTC", I["DailyModel"]().settings.model_dump())
    doc["submodels"]["fw-su_sh_wi"] = dict(coefficients=dict(rec["coefficients"]), temperature_constraints=dict(rec["temperature_constraints"]), f_unc=1.0)
    m = I["DailyModel"].from_dict(doc)
    idx = pd.date_range("2021-01-01", periods=len(Ts), freq="D", tz="UTC")
    out = m.predict(DailyReportingData(pd.DataFrame({"temperature": np.asarray(Ts, dtype=float)}, index=idx), is_electricity_data=True))
    return (out["predicted"].to_numpy(dtype=float), out["predicted_unc"].to_numpy(dtype=float),
            out["heating_load"].to_numpy(dtype=float), out["cooling_load"].to_numpy(dtype=float))


def eval_submodel(I, dm, rec, sp, Ts):
    """`_predict_submodel(submodel, T)` as the harness has always called it; when that internal signature no longer exists the tie is
    broken (recorded once) and the record is evaluated through the public API instead, so that the oracle can still look for a failing input"""
    if not _INTERNAL_BROKEN:
        try:
            return dm._predict_submodel(sp, np.array(Ts))
        except (TypeError, AttributeError, KeyError) as e:
            _INTERNAL_BROKEN.append(f"DailyModel._predict_submodel(submodel, T) is no longer callable: {type(e).__name__}: {str(e)[:100]}")
    return public_eval(I, rec, Ts)


def reused_object_scenario(I):
    """fit(A) -> predict -> fit(B = A at another scale) -> predict on ONE DailyModel object: the last prediction must be the curve of
    the stored parameters (what a fresh model restored from to_dict() predicts).  Returns a failure record or None."""
    from .c12 import meter as _meter
    from opendsm.eemeter.models.daily.data import DailyBaselineData, DailyReportingData
    import contextlib, io
    with contextlib.redirect_stdout(io.StringIO()), contextlib.redirect_stderr(io.StringIO()):
        m = I["DailyModel"]()
        # the second building has the first one's weather and load shape at another scale, so that both fits choose the same split
        dA = _meter(random.Random(11), "both", n=365, noise=0.2)
        dB = dA.copy()
        dB["observed"] = dB["observed"] * 3.0 + 20.0
        m.fit(DailyBaselineData(dA, is_electricity_data=True), ignore_disqualification=True)
        m.predict(DailyReportingData(dA, is_electricity_data=True), ignore_disqualification=True)
        m.fit(DailyBaselineData(dB, is_electricity_data=True), ignore_disqualification=True)
        sweep = pd.DataFrame({"temperature": np.linspace(-20.0, 120.0, 365)}, index=dB.index)
        got = m.predict(DailyReportingData(sweep, is_electricity_data=True), ignore_disqualification=True)
        fresh = I["DailyModel"].from_dict(m.to_dict()).predict(DailyReportingData(sweep, is_electricity_data=True), ignore_disqualification=True)
    a, b = got["predicted"].to_numpy(dtype=float), fresh["predicted"].to_numpy(dtype=float)
    bad = np.flatnonzero(~((a == b) | (np.isnan(a) & np.isnan(b))))
    if len(bad):
        i = int(bad[0])
        return dict(clause="prediction_is_the_curve_of_the_current_parameters",
                    detail=dict(T=float(sweep["temperature"].iloc[i]), predicted=float(a[i]), curve_of_stored_parameters=float(b[i]),
                                rows_differing=int(len(bad))),
                    history="fit(building A) -> predict -> fit(building B = A at another scale) -> predict, one DailyModel object")
    return None


def run(ctx):
    """ctx: dict(tier, seed, model_ok, budget_scale). Returns result dict."""
    rng = random.Random(ctx["seed"] * 1000003 + 11)
    I = _impl()
    dm = I["DailyModel"]()
    n_rec = int((300 if ctx["tier"] == "quick" else 6000) * ctx.get("budget_scale", 1))
    cases = []
    # corpus first
    for rec in ctx.get("corpus", []):
        cases.append(rec)
    for _ in range(n_rec):
        cases.append(gen_record(rng))

    lines, metas = [], []
    res = dict(evaluations=0, disagreements=[], oracle_failures=[], finding_instances={}, samples=[],
               signatures=set(), hist={}, traces=0)
    for rec in cases:
        try:
            x = effective_x(I, rec)
        except Exception as e:   # noqa
            res["hist"]["impl_error"] = res["hist"].get("impl_error", 0) + 1
            continue
        Ts = temps_for(rng, rec, x)
        sp = I["DSP"](coefficients=I["MC"](**rec["coefficients"]),
                      temperature_constraints=rec["temperature_constraints"], f_unc=1.0)
        model, unc, hdd, cdd = eval_submodel(I, dm, rec, sp, Ts)
        res["evaluations"] += len(Ts)
        sig = regime_signature(rec, x, Ts)
        res["signatures"].add(sig)
        res["hist"][rec["coefficients"]["model_type"]] = res["hist"].get(rec["coefficients"]["model_type"], 0) + 1
        adm = box_ok(rec) and not_whole(x, rec["temperature_constraints"]["T_max"])
        if adm:
            fails = oracle(rec, x, Ts, model, hdd, cdd)
            if fails:
                res["oracle_failures"].append(dict(record=rec, effective_x=x, clause=fails[0][0], detail=fails[0][1],
                                                   n_clauses_failed=len(fails)))
        elif box_ok(rec):
            fails = oracle(rec, x, Ts, model, hdd, cdd)
            if fails:
                d = res["finding_instances"].setdefault("C11-F1", dict(count=0, example=None))
                d["count"] += 1
                if d["example"] is None:
                    d["example"] = dict(record=rec, effective_x=x, clause=fails[0][0], detail=fails[0][1])
            res["hist"]["whole_range"] = res["hist"].get("whole_range", 0) + 1
        else:
            res["hist"]["outside_sign_conventions"] = res["hist"].get("outside_sign_conventions", 0) + 1
        lines.append(submodel_line(rec, Ts))
        metas.append(("submodel", rec, Ts, model, hdd, cdd, x))
        # raw kernel ops on the same numbers (translator differential test, incl. reversed order)
        raw = [rng.choice([x[0], x[3]]), x[1], x[2], rng.choice([x[0], x[3]]), x[4], x[5], x[6]]
        tc = rec["temperature_constraints"]
        lines.append("full_model " + " ".join(fhex(v) for v in raw + [tc["T_min"], tc["T_max"]] + Ts))
        fm = I["full_model"](*raw, np.array([tc["T_min"], tc["T_max"]]), np.array(Ts))
        metas.append(("full_model", raw, Ts, fm))
        if len(res["samples"]) < 3:
            res["samples"].append(dict(record=rec, effective_x=x, temperatures=Ts[:6],
                                       impl_model=[float(v) for v in model[:6]]))

    if ctx.get("model_ok", True) and lines:
        outs = core.run_driver(lines)
        for out, meta in zip(outs, metas):
            res["traces"] += 1
            if meta[0] == "submodel":
                _, rec, Ts, model, hdd, cdd, x = meta
                smooth = x[2] != 0 or x[5] != 0
                if not out.startswith("ok "):
                    res["disagreements"].append(dict(op="submodel", record=rec, model_out=out))
                    continue
                cells = out[3:].split(" ")
                for i, cell in enumerate(cells):
                    if cell == "err":
                        res["disagreements"].append(dict(op="submodel", record=rec, T=Ts[i], model_out="err"))
                        break
                    m, h, d = cell.split(",")
                    if not (compare_floats(m, float(model[i]), smooth) and compare_floats(h, float(hdd[i]), smooth)
                            and compare_floats(d, float(cdd[i]), smooth)):
                        res["disagreements"].append(dict(op="submodel", record=rec, T=Ts[i],
                                                         lean=[unhex(m), unhex(h), unhex(d)],
                                                         impl=[float(model[i]), float(hdd[i]), float(cdd[i])]))
                        break
            else:
                _, raw, Ts, fm = meta
                smooth = raw[2] != 0 or raw[5] != 0
                cells = out[3:].split(" ") if out.startswith("ok ") else []
                if len(cells) != len(Ts):
                    res["disagreements"].append(dict(op="full_model", x=raw, model_out=out[:200]))
                    continue
                for i, cell in enumerate(cells):
                    if cell == "err" or not compare_floats(cell, float(fm[i]), smooth):
                        res["disagreements"].append(dict(op="full_model", x=raw, T=Ts[i],
                                                         lean=None if cell == "err" else unhex(cell), impl=float(fm[i])))
                        break
    if _INTERNAL_BROKEN:
        res["disagreements"].append(dict(op="internal_api", detail=_INTERNAL_BROKEN[0]))

    # ---- the curve a model object predicts is the curve of ITS CURRENT parameters: one object fitted on a building, used, then
    # fitted on a different building must predict the second building with the second fit's coefficients (formula from to_dict())
    try:
        f_ = reused_object_scenario(I)
        res["evaluations"] += 365
        if f_:
            res["oracle_failures"].append(f_)
        res["signatures"].add(("reused_object",))
    except Exception as e:  # noqa
        res["hist"]["reused_object_scenario_failed:" + type(e).__name__] = 1

    res["distinct_nontrivial"] = len(res["signatures"])
    res["rule"] = ("stored records of all seven shapes drawn inside and on the optimiser's box (balance points on "
                   "T_min/T_max/segment limits, equal balance points, zero slopes, zero/partial/full smoothing) x a sweep of "
                   "temperatures incl. the effective balance points, their float neighbours and the exponent clip thresholds; "
                   "a case is non-trivial/distinct when its regime signature (shape, zero-slope flags, zero-smoothing flags, "
                   "hb=cb, hb<=T_min, cb>=T_max) has not been seen before in the run")
    del res["signatures"]
    return res


# --------------------------------------------------------------------------- known findings
def replay_finding(entry):
    """True if the listed witness still fails on the implementation."""
    I = _impl()
    dm = I["DailyModel"]()
    w = entry["witness"]
    rec = w["record"]
    sp = I["DSP"](coefficients=I["MC"](**rec["coefficients"]),
                  temperature_constraints=rec["temperature_constraints"], f_unc=1.0)
    Ts = np.array(w["temperatures"], dtype=float)
    model, unc, hdd, cdd = dm._predict_submodel(sp, Ts)
    x = effective_x(I, rec)
    return bool(oracle(rec, x, list(Ts), model, hdd, cdd))


def replay(path_obj):
    """re-execute a replay file against the current tree; returns list of failures"""
    I = _impl()
    if path_obj.get("clause") == "prediction_is_the_curve_of_the_current_parameters":
        f_ = reused_object_scenario(I)
        return [(f_["clause"], f_["detail"])] if f_ else []
    dm = I["DailyModel"]()
    rec = path_obj["record"]
    x = effective_x(I, rec)
    Ts = temps_for(random.Random(0), rec, x)
    sp = I["DSP"](coefficients=I["MC"](**rec["coefficients"]),
                  temperature_constraints=rec["temperature_constraints"], f_unc=1.0)
    model, unc, hdd, cdd = eval_submodel(I, dm, rec, sp, Ts)
    return oracle(rec, x, Ts, model, hdd, cdd)

LEVEL_TEXT = ("Lean 4 theorems over R about the read path of _predict_submodel: the kernels full_model / get_full_model_x / "
              "fix_full_model_x / get_smooth_coeffs are re-translated from /repo on every run (py2lean) and proved to refine a "
              "closed-form curve for every record obeying the sign conventions and every temperature; continuity, flatness, "
              "monotonicity, linear/asymptotic behaviour and the load identities are theorems about that curve. The composition and "
              "the translator are tied to the real code by a bit-level differential run on Float.")
LEVEL_NOTE = ("Trusted: Lean kernel + propext/Classical.choice/Quot.sound; py2lean; hand model of the 20-line composition in "
              "_predict_submodel (validated by T2 only); reals vs IEEE doubles (oracle tolerances 1e-9 relative, additivity 1e-12). "
              "Excluded boundary (effective balance points coinciding at/beyond T_max) is known finding C11-F1.")
TECHNIQUE = "Lean 4 proof (refinement of generated kernel to closed-form spec over R) + differential correspondence"
ASSUMPTIONS = ["theorems are over exact reals; IEEE rounding is outside them (T2 compares bit patterns / 1e-12)",
               "NaN/inf temperatures and coefficients are outside the real-number statements",
               "the composition of the kernels in _predict_submodel is a hand model validated by correspondence only"]
