"""C08 — usage is conserved when meter data is resampled to days.

T2: the real data classes (Billing/Daily x Baseline/Reporting, frame and from_series) vs. the Lean
interval model (`EEM.Model.Resample`, exact rationals): `data.df['observed']` day by day.
Oracle: the property's clauses on the implementation's output with exact interval arithmetic
(Fractions) written here independently of the model."""
from __future__ import annotations

import contextlib
import os
import io
import bisect
import math
import random
import warnings
from fractions import Fraction

import numpy as np
import pandas as pd

from .. import core

ID = "C08"
LEAN_MODULE = "EEM.Props.C08"
BUILD_TARGETS = ["EEM.Props.C08"]
MODEL_TARGETS = ["EEM.Model.Resample"]
DESIGN_REF = "DESIGN.md §5 C08"

ZONES = ["America/New_York", "Europe/Berlin", "Australia/Sydney", "America/Los_Angeles", "UTC", "Asia/Kolkata",
         "America/Chicago", "Pacific/Auckland"]
# (year, month, day) a few days before a DST change, per zone family, plus plain dates
STARTS = ["2021-03-08", "2021-10-28", "2021-01-11", "2021-06-15", "2021-03-22", "2021-09-20", "2021-04-01", "2021-11-01"]


DST_LAST_DAY_ZONES = ["America/New_York", "Europe/Berlin", "Australia/Sydney", "America/Los_Angeles", "Pacific/Auckland",
                      "America/Santiago", "America/Havana"]
_DST_DAYS = {}


def dst_days(tz):
    """local dates of 2021-2022 on which the UTC offset at the start and at the end of the day differ"""
    if tz not in _DST_DAYS:
        days = pd.date_range("2021-01-01", "2022-12-31", freq="D")
        loc = days.tz_localize(tz, ambiguous=True, nonexistent="shift_forward")
        off = np.array([t.utcoffset().total_seconds() for t in loc])
        # the day itself and the day after it (zones that change at midnight: the day after starts at 01:00)
        _DST_DAYS[tz] = [days[i + k].strftime("%Y-%m-%d") for i in range(len(days) - 2) if off[i] != off[i + 1] for k in (0, 1)]
    return _DST_DAYS[tz]


def local_day_starts(a, b, inclusive):
    """starts of the local calendar days from a's day to b's day; a day whose midnight does not exist starts at the first
    instant that does, a repeated midnight counts at its first occurrence (zones that change at 00:00)"""
    wall = pd.date_range(a.tz_localize(None).normalize(), b.tz_localize(None).normalize(), freq="D", inclusive=inclusive)
    return wall.tz_localize(a.tz, ambiguous=True, nonexistent="shift_forward")


def raised_in_implementation(e):
    """does the traceback pass through the package under test?"""
    import traceback
    return any("/opendsm/" in fr.filename for fr in traceback.extract_tb(e.__traceback__))


def quiet(f, *a, **k):
    with contextlib.redirect_stdout(io.StringIO()), contextlib.redirect_stderr(io.StringIO()):
        return f(*a, **k)


def minute(ts):
    return int(ts.value // 60_000_000_000)


def local_midnights(first, last_exclusive_day, tz):
    """local midnights from the day of `first` up to and including `last_exclusive_day`"""
    d0 = first.tz_convert(tz).normalize() if first.tzinfo else first
    return pd.date_range(d0, last_exclusive_day, freq="D")


def frac_str(v):
    if v is None:
        return "nan"
    v = Fraction(v)
    return f"{v.numerator}/{v.denominator}"


def parse_out(out):
    cells = out[3:].split(" ") if out.startswith("ok ") else None
    if cells is None:
        return None
    res = []
    for c in cells:
        if c == "none":
            res.append(None)
        else:
            n, d = c.split("/")
            res.append(Fraction(int(n), int(d)))
    return res


def close_enough(model, impl):
    if model is None:
        return impl is None or (isinstance(impl, float) and math.isnan(impl))
    if impl is None or math.isnan(impl):
        return False
    m = float(model)
    return abs(m - impl) <= 1e-9 * max(1.0, abs(m))


# --------------------------------------------------------------------------- billing
def gen_billing(rng: random.Random):
    tz = rng.choice(ZONES)
    start = pd.Timestamp(rng.choice(["2020-11-20", "2021-01-05", "2021-02-17", "2021-03-01", "2021-09-12"]), tz=tz)
    style = rng.choice(["monthly", "monthly", "bimonthly"])
    n = rng.choice([6, 9, 13]) if style == "monthly" else rng.choice([5, 7])
    lens = []
    for _ in range(n):
        if style == "monthly":
            lens.append(rng.choice([30, 30, 31, 29, 28, 32, 24, 25, 26, 34, 35, 36, 33, 12, 45]))
        else:
            lens.append(rng.choice([60, 61, 59, 62, 58, 69, 70, 71, 24, 25, 40, 65]))
    dates = [start]
    for L in lens:
        dates.append((dates[-1].tz_localize(None) + pd.Timedelta(days=L)).tz_localize(tz))
    if rng.random() < 0.25:
        # directed: the LAST DAY of the final period is a day on which the clocks change (23 or 25 hours,
        # in some zones starting at a midnight that does not exist) — the read calendar is built backwards from it
        tz2 = rng.choice(DST_LAST_DAY_ZONES)
        last = pd.Timestamp(rng.choice(dst_days(tz2))) + pd.Timedelta(days=1)
        wall = [last]
        for L in reversed(lens):
            wall.append(wall[-1] - pd.Timedelta(days=L))
        try:
            # every read must be AT a local midnight that exists exactly once (the property's quantifier); a calendar with a
            # read on a skipped or repeated midnight (zones that change at 00:00) is not generated
            dates, tz = [w.tz_localize(tz2) for w in reversed(wall)], tz2
        except Exception:
            pass
    vals = [Fraction(rng.randrange(200, 4000), rng.choice([1, 2, 4])) for _ in lens]
    if rng.random() < 0.25 and len(vals) > 2:
        vals[rng.randrange(1, len(vals) - 1)] = None     # a missing bill in the middle (at either end it only trims the series)
    electric = rng.random() < 0.7
    ext = rng.choice([0, 0, 5, 30])                      # temperature running past the last read
    return dict(kind="billing", tz=tz, dates=[d.isoformat() for d in dates], values=[None if v is None else str(v) for v in vals],
                electric=electric, temp_extra_hours=ext, entry=rng.choice(["from_series", "from_series", "frame"]),
                cls=rng.choice(["baseline", "reporting"]))


def billing_cycle(dates):
    """compute_minimum_granularity on the read calendar (irregular calendars: median period in days)"""
    idx = pd.DatetimeIndex(dates)
    d = (idx[1:] - idx[:-1]).total_seconds() / 86400.0
    med = float(np.median(d))
    if idx.inferred_freq is not None:
        return None      # regular calendars take another branch; the generator avoids them
    if med < 1:
        return "hourly"
    if med == 1:
        return "daily"
    if 1 < med <= 35:
        return "billing_monthly"
    if 35 < med <= 70:
        return "billing_bimonthly"
    return "billing_bimonthly"


def run_billing(case):
    from opendsm.eemeter.models.billing.data import BillingBaselineData, BillingReportingData
    tz = case["tz"]
    dates = [pd.Timestamp(d) for d in case["dates"]]
    dates = [d.tz_convert(tz) for d in dates]
    vals = [None if v is None else Fraction(v) for v in case["values"]]
    meter = pd.Series([np.nan if v is None else float(v) for v in vals] + [np.nan], index=pd.DatetimeIndex(dates), name="observed")
    if case["entry"] == "from_series":
        tend = dates[-1] + pd.Timedelta(hours=case["temp_extra_hours"])
    else:
        # frame convention of the class: the frame ends inside the last day of the final period
        tend = dates[-1] - pd.Timedelta(hours=1 + case["temp_extra_hours"] % 20)
    temp = pd.Series(60.0, index=pd.date_range(dates[0], tend, freq="h"), name="temperature")
    cls = BillingBaselineData if case["cls"] == "baseline" else BillingReportingData
    if case["entry"] == "from_series":
        data = quiet(cls.from_series, meter, temp, is_electricity_data=case["electric"])
    else:
        df = temp.to_frame().join(meter, how="left")
        data = quiet(cls, df, is_electricity_data=case["electric"])
    return data, dates, vals


def billing_reads_line(case, dates, vals):
    # reads with a value; a missing bill is dropped by the class (dropna) so the previous bill runs on
    present = [(d, v) for d, v in zip(dates[:-1], vals) if v is not None]
    present_dates = [d for d, _ in present] + [dates[-1]]
    cyc = billing_cycle([d for d, _ in present])
    bounds = local_day_starts(dates[0], dates[-1], inclusive="both")
    wall = lambda d: minute(d.tz_localize(None))
    reads = [f"{minute(d)}:{wall(d)}:{frac_str(v)}" for d, v in present] + [f"{minute(dates[-1])}:{wall(dates[-1])}:nan"]
    return cyc, bounds, " ".join(["resample", cyc or "billing_monthly", ",".join(str(minute(b)) for b in bounds)] + reads), present


def oracle_billing(case, data, dates, vals):
    """exact clauses: every valid period's days add up to the bill; off-cycle periods are missing"""
    fails = []
    df = data.df
    present = [(d, v) for d, v in zip(dates[:-1], vals) if v is not None]
    ends = [d for d, _ in present][1:] + [dates[-1]]
    cyc = billing_cycle([d for d, _ in present])
    if cyc is None or not cyc.startswith("billing"):
        return None
    hi = 35 if cyc == "billing_monthly" else 70
    total_valid = Fraction(0)
    for (a, v), b in zip(present, ends):
        ndays = (b.tz_localize(None) - a.tz_localize(None)).days          # local calendar days
        rows = df.loc[(df.index >= a) & (df.index < b), "observed"]
        nloc = len(local_day_starts(a, b, inclusive="left"))
        if 25 <= ndays <= hi:
            total_valid += v
            if len(rows) != nloc or rows.isna().any():
                fails.append(("valid_period_has_all_days", dict(period=[a.isoformat(), b.isoformat()], rows=len(rows), local_days=nloc,
                                                                missing=int(rows.isna().sum()))))
            elif abs(float(rows.sum()) - float(v)) > 1e-9 * max(1.0, abs(float(v))):
                fails.append(("period_conserved", dict(period=[a.isoformat(), b.isoformat()], billed=float(v), daily_sum=float(rows.sum()))))
        else:
            if rows.notna().any():
                fails.append(("offcycle_dropped", dict(period=[a.isoformat(), b.isoformat()], days=ndays, cycle=cyc,
                                                       daily_sum=float(rows.sum()))))
    tot = float(df["observed"].sum())
    if abs(tot - float(total_valid)) > 1e-9 * max(1.0, float(total_valid)):
        fails.append(("nothing_invented_or_lost", dict(total_daily=tot, total_valid_bills=float(total_valid))))
    return fails


# --------------------------------------------------------------------------- sub-daily / daily
def gen_subdaily(rng: random.Random):
    tz = rng.choice(ZONES)
    freq = rng.choice([15, 30, 60, 60])
    start = pd.Timestamp(rng.choice(STARTS), tz=tz)
    if rng.random() < 0.3:
        start = start + pd.Timedelta(minutes=freq * rng.randrange(1, (1440 // freq)))   # series starting mid-day
    if rng.random() < 0.25:
        # a feed stamped on the UTC grid and converted to local time: in a zone whose offset is not a whole number of reading
        # intervals (India +5:30, Nepal +5:45, ...) the readings sit at hh:30 / hh:45 local and one of them straddles local midnight
        tz = rng.choice(["Asia/Kolkata", "Asia/Kathmandu", "Australia/Darwin", "America/St_Johns"])
        start = pd.Timestamp(rng.choice(STARTS), tz=tz)
        off_min = int(start.utcoffset().total_seconds() // 60)
        start = start + pd.Timedelta(minutes=(-off_min) % freq)
    ndays = rng.choice([6, 9, 12])
    idx = pd.date_range(start, start.normalize() + pd.Timedelta(days=ndays + 1), freq=f"{freq}min", inclusive="left")
    idx = idx[idx < (start.normalize().tz_localize(None) + pd.Timedelta(days=ndays)).tz_localize(tz)]
    n = len(idx)
    vals = [Fraction(rng.randrange(1, 64), 8) for _ in range(n)]
    per_day = 1440 // freq
    missing = set()
    style = rng.choice(["none", "second", "scattered", "inside_day", "half_day", "over_half", "straddle", "day_edge", "zeros"])
    if style == "second":
        missing.update(range(1, 1 + rng.choice([1, 2, 3])))
    elif style == "scattered":
        missing.update(rng.sample(range(1, n - 1), min(n - 2, rng.choice([1, 3, 8]))))
    elif style in ("inside_day", "half_day", "over_half"):
        day = rng.randrange(1, ndays - 1)
        L = {"inside_day": rng.choice([1, 2, per_day // 4]), "half_day": per_day // 2, "over_half": per_day // 2 + rng.choice([1, 2])}[style]
        off = rng.randrange(1, max(2, per_day - L - 1))
        base = next((i for i, t in enumerate(idx) if t.normalize() == idx[0].normalize() + pd.Timedelta(days=day) or
                     t.tz_localize(None).normalize() == (idx[0].tz_localize(None).normalize() + pd.Timedelta(days=day))), per_day * day)
        missing.update(range(base + off, min(n - 1, base + off + L)))
    elif style == "straddle":
        day = rng.randrange(2, ndays - 1)
        base = per_day * day - rng.choice([1, 2, 3])
        missing.update(range(max(1, base), min(n - 1, base + rng.choice([2, 4, 6]))))
    elif style == "day_edge":
        day = rng.randrange(2, ndays - 1)
        base = per_day * day
        missing.update(range(base, min(n - 1, base + rng.choice([1, 2]))) if rng.random() < 0.5 else
                       range(max(1, base - rng.choice([1, 2])), base))
    how = rng.choice(["nan", "absent"])
    electric = rng.random() < 0.6
    if style == "zeros":
        electric = True
        how = "zero"
        missing.update(rng.sample(range(1, n - 1), rng.choice([1, 2, 5])))
    missing.discard(0)
    missing.discard(n - 1)
    case = dict(kind="subdaily", tz=tz, freq=freq, start=idx[0].isoformat(), n=n, values=[str(v) for v in vals],
                missing=sorted(missing), how=how, electric=electric, entry=rng.choice(["frame", "from_series"]),
                cls=rng.choice(["baseline", "reporting"]), gap_style=style)
    if rng.random() < 0.2:
        # a meter whose reading interval changes part-way (e.g. hourly, then 15-minute after a meter swap): whole days at
        # `freq`, then whole days at `freq2`; no gaps, start at local midnight, so every day but the last is fully covered
        start = start.normalize()
        freq, freq2 = rng.choice([(60, 15), (60, 30), (30, 15), (15, 60), (30, 60), (15, 30)])
        coarse, fine = max(freq, freq2), min(freq, freq2)
        dfine = rng.choice([1, 2])
        # mostly: the coarse stretch has MORE readings than the fine one (so the typical spacing of the series is the coarse one)
        dcoarse = dfine * (coarse // fine) + rng.choice([1, 2]) if rng.random() < 0.65 else rng.choice([1, 2, 3])
        d1, d2 = (dcoarse, dfine) if freq == coarse else (dfine, dcoarse)
        mid = (start.tz_localize(None) + pd.Timedelta(days=d1)).tz_localize(tz)
        end = (start.tz_localize(None) + pd.Timedelta(days=d1 + d2)).tz_localize(tz)
        k = len(pd.date_range(start, mid, freq=f"{freq}min", inclusive="left"))
        n = k + len(pd.date_range(mid, end, freq=f"{freq2}min", inclusive="left"))
        case.update(freq=freq, switch=[k, freq2], start=start.isoformat(), n=n, missing=[], how="nan", gap_style="interval_switch",
                    values=[str(Fraction(rng.randrange(1, 64), 8)) for _ in range(n)], entry="from_series")
    return case


def subdaily_index(case):
    start = pd.Timestamp(case["start"]).tz_convert(case["tz"])
    if not case.get("switch"):
        return pd.date_range(start, periods=case["n"], freq=f"{case['freq']}min")
    k, freq2 = case["switch"]
    a = pd.date_range(start, periods=k, freq=f"{case['freq']}min")
    b = pd.date_range(a[-1] + pd.Timedelta(minutes=case["freq"]), periods=case["n"] - k, freq=f"{freq2}min")
    return a.append(b)


def run_subdaily(case):
    from opendsm.eemeter.models.daily.data import DailyBaselineData, DailyReportingData
    if case.get("after"):
        # a meter processed earlier in the same process (portfolio sequence): its processing must leave nothing behind
        run_subdaily(case["after"])
    tz = case["tz"]
    idx = subdaily_index(case)
    vals = [Fraction(v) for v in case["values"]]
    obs = np.array([float(v) for v in vals])
    miss = set(case["missing"])
    if case["how"] == "zero":
        for i in miss:
            obs[i] = 0.0
    else:
        for i in miss:
            obs[i] = np.nan
    meter = pd.Series(obs, index=idx, name="observed")
    temp = pd.Series(55.0, index=idx if not case.get("switch") else pd.date_range(idx[0], idx[-1], freq="h"), name="temperature")
    if case["how"] == "absent":
        meter = meter.dropna()
    cls = DailyBaselineData if case["cls"] == "baseline" else DailyReportingData
    if case["entry"] == "from_series" or case["how"] == "absent":
        data = quiet(cls.from_series, meter, temp, is_electricity_data=case["electric"])
    else:
        data = quiet(cls, pd.concat([meter, temp], axis=1), is_electricity_data=case["electric"])
    return data, idx, vals, miss


def subdaily_line(case, idx, vals, miss):
    tz = case["tz"]
    first = idx[0].normalize()
    last = idx[-1].normalize() + pd.Timedelta(days=1)
    last = (idx[-1].tz_localize(None).normalize() + pd.Timedelta(days=1)).tz_localize(tz)
    bounds = pd.date_range(first, last, freq="D")
    reads = [f"{minute(t)}:{'nan' if i in miss else frac_str(v)}" for i, (t, v) in enumerate(zip(idx, vals))]
    return bounds, " ".join(["resample", "subdaily", ",".join(str(minute(b)) for b in bounds)] + reads)


def oracle_subdaily(case, data, idx, vals, miss):
    """Returns (fails, finding_days): property clauses per local day, last day excluded.
    A day is 'gap-touched' when a missing reading, or the interval of the reading before a run of
    missing readings, meets it; such days are judged by the property's coverage rule."""
    df = data.df
    got = {t.strftime("%Y-%m-%d"): (None if pd.isna(v) else float(v)) for t, v in df["observed"].items()}
    step = case["freq"]
    by_day = {}
    for i, (t, v) in enumerate(zip(idx, vals)):
        by_day.setdefault(t.strftime("%Y-%m-%d"), []).append((i, t, v))
    days = sorted(by_day)
    fails, finding = [], []
    first_day = days[0]
    mins = [minute(t) for t in idx]
    for day in days[:-1]:
        rows = by_day[day]
        d0 = rows[0][1].normalize()
        d1 = (d0.tz_localize(None) + pd.Timedelta(days=1)).tz_localize(case["tz"])
        total_slots = int(round((d1 - d0).total_seconds() / 60 / step))
        if case.get("switch"):
            total_slots = len(rows)          # no gaps, whole days at one interval each: every day is fully covered by its own readings
        present = [(i, t, v) for i, t, v in rows if i not in miss]
        n_present = len(present)
        if case.get("switch"):
            s = sum((v for _, _, v in present), Fraction(0))
            cov = Fraction(n_present, total_slots)
        else:
            # each reading is a constant rate over [its stamp, the next stamp): the part of it inside the day belongs to the day
            # (for stamps aligned with local midnight this is the plain sum of the day's readings)
            m0, m1 = minute(d0), minute(d1)
            s, covered = Fraction(0), 0
            lo = max(0, bisect.bisect_right(mins, m0) - 1)
            hi = min(len(mins) - 1, bisect.bisect_left(mins, m1))
            for i in range(lo, hi):
                a, b = mins[i], mins[i + 1]
                ov = max(0, min(b, m1) - max(a, m0))
                if ov and i not in miss:
                    s += vals[i] * Fraction(ov, b - a)
                    covered += ov
            cov = Fraction(covered, m1 - m0)
        if cov > Fraction(1, 2):
            want = float(s / cov)
        else:
            want = None
        g = got.get(day, "absent")
        ok = (g is None and want is None) or (g not in (None, "absent") and want is not None and abs(g - want) <= 1e-9 * max(1.0, abs(want)))
        if ok:
            continue
        has_gap = any(i in miss for i, _, _ in rows)
        # the reading before a gap is held over the gap: a gap that started the previous day reaches into this one
        prev_gap = rows[0][0] - 1 in miss
        # ... and a gap that starts right after this day's last reading takes part of that reading away
        next_gap = rows[-1][0] + 1 in miss
        detail = dict(day=day, present=n_present, slots=total_slots, coverage=float(cov), expected=want, got=g)
        if has_gap or prev_gap or next_gap:
            finding.append(detail)
        else:
            fails.append(("day_is_sum_of_its_readings" if cov == 1 else "partial_day_scaled", detail))
    return fails, finding


def gen_daily(rng: random.Random):
    tz = rng.choice(ZONES)
    start = pd.Timestamp(rng.choice(STARTS), tz=tz)
    n = rng.choice([20, 40, 90])
    vals = [Fraction(rng.randrange(1, 400), 4) for _ in range(n)]
    # few enough gaps that the median spacing stays one day (otherwise the class reads the series as billing data)
    miss = sorted(rng.sample(range(1, n - 1), rng.choice([0, 1, 3])))
    return dict(kind="daily", tz=tz, start=start.isoformat(), n=n, values=[str(v) for v in vals], missing=miss,
                electric=rng.random() < 0.5, cls=rng.choice(["baseline", "reporting"]), entry=rng.choice(["frame", "from_series"]))


def run_daily(case):
    from opendsm.eemeter.models.daily.data import DailyBaselineData, DailyReportingData
    start = pd.Timestamp(case["start"]).tz_convert(case["tz"])
    idx = pd.date_range(start, periods=case["n"], freq="D")
    vals = [Fraction(v) for v in case["values"]]
    obs = np.array([float(v) for v in vals])
    for i in case["missing"]:
        obs[i] = np.nan
    meter = pd.Series(obs, index=idx, name="observed")
    temp = pd.Series(55.0, index=pd.date_range(start, periods=case["n"] * 24, freq="h"), name="temperature")
    cls = DailyBaselineData if case["cls"] == "baseline" else DailyReportingData
    if case["entry"] == "from_series":
        data = quiet(cls.from_series, meter, temp, is_electricity_data=case["electric"])
    else:
        data = quiet(cls, temp.to_frame().join(meter, how="left"), is_electricity_data=case["electric"])
    fails = []
    got = {t.strftime("%Y-%m-%d"): (None if pd.isna(v) else float(v)) for t, v in data.df["observed"].items()}
    for i, (t, v) in enumerate(zip(idx[:-1], vals[:-1])):
        want = None if i in case["missing"] else float(v)
        g = got.get(t.strftime("%Y-%m-%d"), "absent")
        if g != want:
            fails.append(("daily_reading_kept", dict(day=t.strftime("%Y-%m-%d"), expected=want, got=g)))
    return fails


# --------------------------------------------------------------------------- run
def one_case(case, res, sigs, lines, metas):
    res["evaluations"] += 1
    res["hist"][case["kind"]] = res["hist"].get(case["kind"], 0) + 1
    try:
        if case["kind"] == "billing":
            # a calendar on which EVERY period is off-cycle is not billing data the class can use (it raises); not a C08 matter
            dts = [pd.Timestamp(d).tz_convert(case["tz"]) for d in case["dates"]]
            pres = [d for d, v in zip(dts[:-1], case["values"]) if v is not None] + [dts[-1]]
            cyc0 = billing_cycle(pres[:-1])
            lens0 = [(b.tz_localize(None) - a.tz_localize(None)).days for a, b in zip(pres[:-1], pres[1:])]
            if cyc0 is None or not cyc0.startswith("billing") or not any(25 <= L <= (35 if cyc0 == "billing_monthly" else 70) for L in lens0):
                res["hist"]["billing_calendar_without_any_on_cycle_period_skipped"] = res["hist"].get("billing_calendar_without_any_on_cycle_period_skipped", 0) + 1
                return
            data, dates, vals = run_billing(case)
            fails = oracle_billing(case, data, dates, vals)
            if fails is None:
                res["hist"]["billing_regular_calendar_skipped"] = res["hist"].get("billing_regular_calendar_skipped", 0) + 1
                return
            cyc, bounds, line, present = billing_reads_line(case, dates, vals)
            sigs.add(("billing", cyc, case["tz"], case["entry"], case["cls"], any(v is None for v in vals),
                      tuple(sorted({min(max((b - a).days, 20), 75) for a, b in zip(dates[:-1], dates[1:])}))[:4]))
            lines.append(line)
            metas.append((case, data, bounds))
        elif case["kind"] == "subdaily":
            data, idx, vals, miss = run_subdaily(case)
            fails, finding = oracle_subdaily(case, data, idx, vals, miss)
            if finding:
                d = res["finding_instances"].setdefault("C08-F1", dict(count=0, example=None))
                d["count"] += len(finding)
                if d["example"] is None:
                    d["example"] = dict(case={k: v for k, v in case.items() if k != "values"}, day=finding[0])
            bounds, line = subdaily_line(case, idx, vals, miss)
            sigs.add(("subdaily", case["freq"], case["tz"], case["gap_style"], case["how"], case["entry"], case["cls"]))
            res["hist"]["gap:" + case["gap_style"]] = res["hist"].get("gap:" + case["gap_style"], 0) + 1
            lines.append(line)
            metas.append((case, data, bounds))
            # a few small cases also through the MINUTE-GRID model (the algorithm as_freq runs; proved equal to the closed form)
            if case["freq"] == 60 and len(idx) <= 24 * 10 and res["hist"].get("minute_grid_cases", 0) < 6:
                res["hist"]["minute_grid_cases"] = res["hist"].get("minute_grid_cases", 0) + 1
                lines.append(line.replace("resample subdaily ", "resample subdaily_min ", 1))
                metas.append((dict(case, model="minute_grid"), data, bounds))
        else:
            fails = run_daily(case)
            sigs.add(("daily", case["tz"], case["entry"], case["cls"], bool(case["missing"])))
    except Exception as e:  # noqa
        if not raised_in_implementation(e):
            raise                                   # an error of the harness itself is an infrastructure failure, never a violation
        fails = [("accepted", dict(error=f"{type(e).__name__}: {e}"[:300]))]
    if fails:
        res["oracle_failures"].append(dict(case=case, clause=fails[0][0], detail=fails[0][1], n_clauses_failed=len(fails)))


def run(ctx):
    warnings.filterwarnings("ignore")
    rng = random.Random(ctx["seed"] * 99991 + 8)
    thorough = ctx["tier"] == "thorough"
    scale = ctx.get("budget_scale", 1)
    res = dict(evaluations=0, disagreements=[], oracle_failures=[], finding_instances={}, samples=[], hist={}, traces=0)
    sigs = set()
    lines, metas = [], []
    # corpus first: the witnesses of the repaired defects (a fixed entry suppresses nothing; if one returns it is a violation)
    import json as _json
    kf = _json.load(open(os.path.join(core.VERIF, "known_findings.json")))["findings"]
    for e in kf:
        c = (e.get("witness") or {}).get("case")
        if e["property"] == "C08" and e["status"] == "fixed" and isinstance(c, dict) and c.get("kind") in ("billing", "subdaily", "daily"):
            one_case(c, res, sigs, lines, metas)
            res["hist"]["corpus"] = res["hist"].get("corpus", 0) + 1
    # a portfolio processed one meter after the other in one process: the same instants and the same length in a zone without
    # and then a zone with daylight saving (both ends of the span in standard time): nothing computed for the first meter
    # (day lengths, bin sizes) may be reused for the second
    pairs = [("America/Phoenix", "America/Denver", "2019-02-15", 278), ("America/Regina", "America/Chicago", "2019-02-15", 278),
             ("Australia/Brisbane", "Australia/Sydney", "2019-06-01", 364)]
    for za, zb, d0, nd in (pairs[:1] + [rng.choice(pairs[1:])] if not thorough else pairs):
        prev = None
        for tzname in (za, zb):
            st = pd.Timestamp(d0, tz=tzname)
            en = (pd.Timestamp(d0) + pd.Timedelta(days=nd)).tz_localize(tzname)
            n_h = int((en - st) / pd.Timedelta(hours=1))
            case = dict(kind="subdaily", tz=tzname, freq=60, start=st.isoformat(), n=n_h, values=[str(Fraction(rng.randrange(1, 64), 8)) for _ in range(n_h)],
                        missing=[], how="nan", electric=True, entry="from_series", cls="baseline", gap_style="portfolio_sequence")
            if prev is not None:
                case["after"] = prev
            one_case(case, res, sigs, lines, metas)
            prev = {k: v for k, v in case.items() if k != "after"}
    n = int((96 if not thorough else 1200) * scale)
    for i in range(n):
        gen = [gen_billing, gen_subdaily, gen_subdaily, gen_daily][i % 4] if i % 12 != 11 else gen_billing
        case = gen(rng)
        one_case(case, res, sigs, lines, metas)
        if len(res["samples"]) < 3 and case["kind"] != "daily":
            res["samples"].append({k: v for k, v in case.items() if k != "values"})
    if ctx.get("model_ok", True) and lines:
        outs = core.run_driver(lines)
        for out, (case, data, bounds) in zip(outs, metas):
            res["traces"] += 1
            model = parse_out(out)
            small = {k: v for k, v in case.items() if k != "values"} if case["kind"] == "subdaily" else case
            if model is None or len(model) != len(bounds) - 1:
                res["disagreements"].append(dict(op="resample", case=small, model_out=out[:200]))
                continue
            got = {t.strftime("%Y-%m-%d"): (None if pd.isna(v) else float(v)) for t, v in data.df["observed"].items()}
            days = [b.strftime("%Y-%m-%d") for b in bounds[:-1]]
            last = len(days) - 1
            for j, (day, mv) in enumerate(zip(days, model)):
                if j == last:
                    continue       # the final day is open-ended: excluded by the property
                g = got.get(day, None)
                if not close_enough(mv, g):
                    res["disagreements"].append(dict(op="resample", case=small, day=day, lean=None if mv is None else float(mv), impl=g))
                    break
    res["distinct_nontrivial"] = len(sigs)
    res["rule"] = ("billing read calendars aligned to local midnight (period lengths around 24/25/26, 34/35/36, 69/70/71 days, missing bills, "
                   "monthly and bi-monthly, eight zones incl. DST changes inside periods, temperature ending on / after the last read), sub-daily "
                   "series (15/30/60 min, starting at or after local midnight, gaps as NaN / absent rows / electricity zeros placed after the "
                   "first reading, scattered, inside a day, exactly half a day, over half, straddling midnight, at a day edge) and daily series, "
                   "through Baseline and Reporting classes by frame and from_series; distinct = new (kind, cycle/frequency, zone, gap style, "
                   "entry point, class) signature")
    return res


# --------------------------------------------------------------------------- findings / replay
def _run_case(case):
    res = dict(evaluations=0, disagreements=[], oracle_failures=[], finding_instances={}, samples=[], hist={}, traces=0)
    one_case(case, res, set(), [], [])
    return res


def replay_finding(entry):
    r = _run_case(entry["witness"]["case"])
    return bool(r["finding_instances"].get(entry["id"])) or bool(r["oracle_failures"])


def replay(obj):
    r = _run_case(obj["case"])
    return r["oracle_failures"]


LEVEL_TEXT = ("Lean 4 theorems over exact rationals about the interval form of as_freq / downsample_and_clean_daily_data / the off-cycle "
              "filter: overlaps of an interval with consecutive days telescope (any day lengths), so a billed amount whose period is aligned to "
              "day boundaries is conserved exactly, totals over any run of days equal the prorated usage (nothing invented or lost), a day whose "
              "readings lie inside it is their sum, the 50 % rule and the 1/coverage scaling hold with value x coverage = measured sum, off-cycle "
              "periods contribute nothing. The model is compared day by day with data.df['observed'] of the real data classes.")
LEVEL_NOTE = ("Hand model (closed interval form, not a port of the pandas calls); local-day boundaries are computed by the harness (zoneinfo) and "
              "are an input of the model; the read-calendar glue of from_series/_compute_meter_value_df (trimming, final-NaN convention, granularity "
              "detection) is validated by T2 only. Float results are compared with the exact rationals at 1e-9 relative.")
TECHNIQUE = ("Lean 4 proof (telescoping-overlap induction over day boundaries, exact rationals; refinement proof that the minute-grid "
             "algorithm of as_freq - spread, forward fill, per-day sum and count - equals the closed interval-overlap form; the row masks of clean_billing_data / "
             "downsample_and_clean_daily_data translated from the source on every run are proved equal to the model's rules) + differential "
             "correspondence with the data classes")
ASSUMPTIONS = ["local midnights supplied by the harness (IANA database via pandas) are the day boundaries the data classes use",
               "values are dyadic rationals so that float sums are exact to 1e-9",
               "temperature covers the whole read span; regular (inferable-frequency) billing calendars are not generated"]
