"""C04 — the disqualification gate is fail-closed and survives storage.

T1: guard sequences of every fit()/predict() re-extracted from the source (Gen/Guards).
T2: the real methods driven over the whole grid of atom valuations (fitted / data dq / model dq /
override / data type / timezone / features) with real model and data objects (the numeric fit is
stubbed for the grid; real fits are run separately), stored/not stored, vs. the Lean evaluation of
the extracted guards.  Oracle: the property's sentence per grid cell; real fits of qualified
synthetic baselines return fitted models in every family; disqualifications survive to_json."""
from __future__ import annotations

import itertools
import random
import warnings

import numpy as np
import pandas as pd

from .. import core

ID = "C04"
LEAN_MODULE = "EEM.Props.C04"
BUILD_TARGETS = ["EEM.Props.C04"]
MODEL_TARGETS = ["EEM.Model.Gate", "EEM.Gen.Guards", "EEM.Proto"]
DESIGN_REF = "DESIGN.md §5 C04"
TZ = "America/Chicago"
TZ2 = "America/New_York"


def synth_daily(tz=TZ, n=365, seed=0):
    idx = pd.date_range("2021-01-01", periods=n, freq="D", tz=tz)
    rng = np.random.default_rng(seed)
    T = 55 + 25 * np.sin(np.arange(n) / 365 * 2 * np.pi - 2) + rng.normal(0, 3, n)
    obs = 20 + 1.2 * np.maximum(55 - T, 0) + 2.0 * np.maximum(T - 68, 0) + rng.normal(0, 1, n)
    return pd.DataFrame({"temperature": T, "observed": obs}, index=idx)


def synth_hourly(tz=TZ, days=365, seed=0):
    idx = pd.date_range("2021-01-01", periods=24 * days, freq="h", tz=tz)
    h = np.arange(len(idx))
    rng = np.random.default_rng(seed)
    temp = 55 + 25 * np.sin(h / 8760 * 2 * np.pi - 2) + 6 * np.sin(h / 24 * 2 * np.pi)
    obs = 1.5 + 0.04 * np.abs(temp - 60) + 0.5 * (np.sin(h / 24 * 2 * np.pi) > 0) + rng.normal(0, 0.15, len(h))
    return pd.DataFrame({"temperature": temp, "observed": obs}, index=idx)


def dq_warning():
    from opendsm.eemeter.common.warnings import EEMeterWarning
    return EEMeterWarning(qualified_name="eemeter.sufficiency_criteria.test_disqualification", description="injected", data={})


def exc_name(e):
    return type(e).__name__


def run(ctx):
    warnings.filterwarnings("ignore")
    from opendsm.eemeter.models.daily.model import DailyModel
    from opendsm.eemeter.models.billing.model import BillingModel
    from opendsm.eemeter.models.hourly.model import HourlyModel
    from opendsm.eemeter.models.daily.data import DailyBaselineData, DailyReportingData
    from opendsm.eemeter.models.billing.data import BillingBaselineData, BillingReportingData
    from opendsm.eemeter.models.hourly.data import HourlyBaselineData, HourlyReportingData
    from opendsm.eemeter.common.exceptions import DataSufficiencyError, DisqualifiedModelError
    from . import pframe

    thorough = ctx["tier"] == "thorough"
    res = dict(evaluations=0, disagreements=[], oracle_failures=[], finding_instances={}, samples=[], hist={}, traces=0)
    sigs = set()
    lines, expect, descs = [], [], []

    def env_line(method, e):
        order = ["fitted", "dataDq", "modelDq", "ignore", "rightType", "tzEqual", "featuresMissing", "ghiRequiredMissing"]
        return f"gate {method} " + " ".join("1" if e.get(k, False) else "0" for k in order)

    # ---------------- data objects
    dd = synth_daily()
    hd = synth_hourly(days=40)
    daily_b = DailyBaselineData(dd, is_electricity_data=True)
    daily_r = DailyReportingData(dd.iloc[:60], is_electricity_data=True)
    daily_r_tz2 = DailyReportingData(synth_daily(TZ2).iloc[:60], is_electricity_data=True)
    reads = pd.date_range("2021-01-01", periods=13, freq="30D", tz=TZ)
    meter = pd.Series(np.linspace(500, 900, 13), index=reads, name="observed")
    htemp = synth_hourly(days=365)["temperature"]
    bill_b = BillingBaselineData.from_series(meter, htemp, is_electricity_data=True)
    bill_r = BillingReportingData.from_series(meter.iloc[:5], htemp.iloc[:24 * 130], is_electricity_data=True)
    htemp2 = synth_hourly(TZ2, days=130)["temperature"]
    bill_r_tz2 = BillingReportingData.from_series(pd.Series(meter.iloc[:5].to_numpy(), index=reads[:5].tz_convert(TZ2).tz_localize(None).tz_localize(TZ2), name="observed"),
                                                  htemp2, is_electricity_data=True)
    hour_b = HourlyBaselineData(synth_hourly(days=365), is_electricity_data=True)
    hour_r = HourlyReportingData(hd, is_electricity_data=True)
    hour_r_tz2 = HourlyReportingData(synth_hourly(TZ2, days=40), is_electricity_data=True)
    res["hist"]["baseline_dq"] = dict(daily=[d.qualified_name for d in daily_b.disqualification],
                                      billing=[d.qualified_name for d in bill_b.disqualification],
                                      hourly=[d.qualified_name for d in hour_b.disqualification])

    # ---------------- (A) real fits: qualified synthetic baselines give fitted models in every family
    fitted = {}
    for name, mk, data in [("daily", lambda: DailyModel(), daily_b), ("daily_legacy", lambda: DailyModel(model="legacy"), daily_b),
                           ("billing", lambda: BillingModel(), bill_b), ("hourly", lambda: HourlyModel(), hour_b)]:
        res["evaluations"] += 1
        try:
            m = mk().fit(data, ignore_disqualification=bool(data.disqualification))
            ok = bool(getattr(m, "is_fitted", False))
            fitted[name] = m
            if not ok:
                res["oracle_failures"].append(dict(clause="fit_returns_fitted_model", family=name, detail="is_fitted is False"))
        except DataSufficiencyError as e:
            res["oracle_failures"].append(dict(clause="fit_returns_fitted_model", family=name, detail="DataSufficiencyError with the override given"))
        except Exception as e:  # noqa
            res["oracle_failures"].append(dict(clause="fit_returns_fitted_model_or_DataSufficiencyError", family=name,
                                               detail=f"{exc_name(e)}: {str(e)[:100]}", input="synthetic qualified baseline (harness/props/c04.py synth_*)"))
        sigs.add(("real_fit", name))
    # ---------------- (A3) well-formed baselines in other numeric types and shapes: integer / float32 readings (whole-degree
    # weather feeds, integer-kWh meters), a meter read on working days only, a baseline without a single meter reading.  Building the
    # data object and calling fit() may only end in a fitted model or a DataSufficiencyError.
    def _variant(kind):
        d = synth_daily()
        if kind == "int_temperature":
            d["temperature"] = d["temperature"].round().astype("int64")
        elif kind == "float32_temperature":
            d["temperature"] = d["temperature"].astype("float32")
        elif kind == "int_usage":
            d["observed"] = (d["observed"] * 10).round().astype("int64")
        elif kind == "float32_both":
            d = d.astype({"temperature": "float32", "observed": "float32"})
        elif kind == "weekdays_only":
            d = d[d.index.dayofweek < 5]
        elif kind == "no_meter_reading":
            d["observed"] = np.nan
        return d
    for kind in ["int_temperature", "float32_temperature", "int_usage", "float32_both", "weekdays_only", "no_meter_reading"]:
        for fam, mk, dcls in [("daily", lambda: DailyModel(), DailyBaselineData), ("daily_legacy", lambda: DailyModel(model="legacy"), DailyBaselineData)]:
            if fam == "daily_legacy" and kind not in ("int_temperature", "float32_both"):
                continue
            res["evaluations"] += 1
            stage = "data object"
            try:
                data = dcls(_variant(kind), is_electricity_data=True)
                stage = "fit"
                try:
                    m = mk().fit(data)
                    outcome = "fitted" if getattr(m, "is_fitted", False) else "not fitted"
                except DataSufficiencyError:
                    outcome = "DataSufficiencyError"
                    if not data.disqualification:
                        res["oracle_failures"].append(dict(clause="fit_raises_exactly_when_disqualified", family=fam, input=kind,
                                                           detail="DataSufficiencyError for a baseline without disqualification"))
                if outcome == "fitted" and data.disqualification:
                    res["oracle_failures"].append(dict(clause="fit_raises_exactly_when_disqualified", family=fam, input=kind,
                                                       detail="fitted although the baseline is disqualified and no override was given"))
                if outcome == "fitted":
                    stage = "predict"
                    m.predict(DailyReportingData(_variant(kind).iloc[:90], is_electricity_data=True))
                res["hist"][f"variant:{kind}:{outcome}"] = res["hist"].get(f"variant:{kind}:{outcome}", 0) + 1
            except Exception as e:  # noqa
                res["oracle_failures"].append(dict(clause="fit_returns_fitted_model_or_DataSufficiencyError", family=fam, input=kind, stage=stage,
                                                   detail=f"{exc_name(e)}: {str(e)[:120]}"))
            sigs.add(("variant", kind, fam))
    # ---------------- (A4) the gate is evaluated on EVERY call: one model object, the same disqualified data object, first with the
    # override, then without (and with an explicit False) - the second call must raise whatever the first one did
    dq_daily = DailyBaselineData(synth_daily(n=200), is_electricity_data=True)
    dq_hourly = HourlyBaselineData(synth_hourly(days=200), is_electricity_data=True)
    for fam, mk, data in [("daily", lambda: DailyModel(), dq_daily), ("daily_legacy", lambda: DailyModel(model="legacy"), dq_daily),
                          ("hourly", lambda: HourlyModel(), dq_hourly)]:
        if not data.disqualification:
            res["hist"][f"gate_sequence_skipped:{fam}"] = 1
            continue
        try:
            m = mk()
            m.fit(data, ignore_disqualification=True)
        except Exception as e:  # noqa
            res["hist"][f"gate_sequence_first_fit_failed:{fam}:{exc_name(e)}"] = 1
            continue
        for label, kw in (("no override", {}), ("ignore_disqualification=False", dict(ignore_disqualification=False))):
            res["evaluations"] += 1
            try:
                m.fit(data, **kw)
                res["oracle_failures"].append(dict(clause="fit_raises_exactly_when_disqualified", family=fam,
                                                   sequence=f"fit(data, ignore_disqualification=True) then fit(same data, {label}) on one model object",
                                                   detail="the second call returned instead of raising DataSufficiencyError"))
            except DataSufficiencyError:
                pass
            except Exception as e:  # noqa
                res["oracle_failures"].append(dict(clause="fit_returns_fitted_model_or_DataSufficiencyError", family=fam,
                                                   sequence=f"refit {label}", detail=f"{exc_name(e)}: {str(e)[:100]}"))
        sigs.add(("gate_sequence", fam))
    # ---------------- (A2) a baseline that IS disqualified, fitted with the override: the model inherits the disqualification, refuses
    # to predict without the override, and still does after storage (real fit path, nothing stubbed)
    from opendsm.eemeter.common.exceptions import DisqualifiedModelError as _DQE
    for name, mk, mkdata, rd, from_json in [
            ("daily", lambda: DailyModel(), lambda: DailyBaselineData(dd, is_electricity_data=True), daily_r, DailyModel.from_json),
            ("billing", lambda: BillingModel(), lambda: BillingBaselineData.from_series(meter, htemp, is_electricity_data=True), bill_r, BillingModel.from_json),
            ("hourly", lambda: HourlyModel(), lambda: HourlyBaselineData(synth_hourly(days=365), is_electricity_data=True), hour_r, HourlyModel.from_json)]:
        res["evaluations"] += 1
        try:
            data = mkdata()
            data.disqualification.append(dq_warning())
            m = mk().fit(data, ignore_disqualification=True)
        except Exception as e:  # noqa
            res["oracle_failures"].append(dict(clause="fit_with_override_proceeds", family=name, detail=f"{exc_name(e)}: {str(e)[:100]}"))
            continue
        for how, model in (("fresh", m), ("after to_json/from_json", None)):
            try:
                model = model if model is not None else from_json(m.to_json())
            except Exception as e:  # noqa
                res["oracle_failures"].append(dict(clause="model_restores_from_json", family=name, how="disqualified baseline", detail=f"{exc_name(e)}: {str(e)[:80]}"))
                continue
            carried = [w.qualified_name for w in model.disqualification]
            if not any("test_disqualification" in q for q in carried):
                res["oracle_failures"].append(dict(clause="fitted_model_inherits_baseline_disqualification", family=name, how=how, model_disqualification=carried))
            try:
                model.predict(rd)
                res["oracle_failures"].append(dict(clause="predict_gate_closed_for_model_fitted_on_disqualified_baseline", family=name, how=how,
                                                   behaviour="returned a prediction", model_disqualification=carried))
            except _DQE:
                pass
            except Exception as e:  # noqa
                res["oracle_failures"].append(dict(clause="predict_gate_closed_for_model_fitted_on_disqualified_baseline", family=name, how=how,
                                                   behaviour=f"{exc_name(e)}: {str(e)[:80]}"))
        sigs.add(("fit_on_disqualified_baseline", name))
    # CalTRACK hourly
    try:
        from opendsm.eemeter.models.hourly_caltrack.wrapper import HourlyModel as CTModel
        from opendsm.eemeter.models.hourly_caltrack.data import HourlyBaselineData as CTB, HourlyReportingData as CTR
        ct_b = CTB(synth_hourly(days=365), is_electricity_data=True)
        ct = CTModel().fit(ct_b)
        fitted["caltrack"] = ct
        res["evaluations"] += 1
        try:
            CTModel().predict(CTR(hd, is_electricity_data=True))
            res["oracle_failures"].append(dict(clause="unfitted_never_predicts", family="caltrack"))
        except RuntimeError:
            pass
        lines.append(env_line("caltrackPredict", dict(fitted=False)))
        expect.append("ok RuntimeError")
        descs.append(dict(method="caltrackPredict", fitted=False))
    except Exception as e:  # noqa
        res["oracle_failures"].append(dict(clause="fit_returns_fitted_model_or_DataSufficiencyError", family="caltrack",
                                           detail=f"{exc_name(e)}: {str(e)[:100]}"))

    # ---------------- (B) fit gate grid: real fit() with the numeric part stubbed
    class Foreign:
        tz = TZ
        disqualification = []
        warnings = []

        def log_warnings(self):
            pass

    def run_fit(model, data, ignore):
        model._fit = lambda *a, **k: None
        model._adaptive_fit = lambda *a, **k: None
        model.error = {"CVRMSE": 0.0}
        model._model_fit_is_acceptable = lambda: True
        try:
            model.fit(data, ignore_disqualification=ignore)
            return "proceeds"
        except Exception as e:  # noqa
            return exc_name(e)

    fit_cases = [("dailyFit", lambda: DailyModel(), lambda: DailyBaselineData(dd, is_electricity_data=True), "daily"),
                 ("dailyFit", lambda: BillingModel(), lambda: BillingBaselineData.from_series(meter, htemp, is_electricity_data=True), "billing"),
                 ("hourlyFit", lambda: HourlyModel(), lambda: HourlyBaselineData(synth_hourly(days=365), is_electricity_data=True), "hourly")]
    for method, mk, mkdata, fam in fit_cases:
        for data_dq, ignore, right in itertools.product([False, True], repeat=3):
            data = mkdata() if right else Foreign()
            if right:
                data.disqualification.clear()
            if data_dq:
                data.disqualification = list(data.disqualification) + [dq_warning()] if not right else data.disqualification
                if right:
                    data.disqualification.append(dq_warning())
            got = run_fit(mk(), data, ignore)
            res["evaluations"] += 1
            exp = "TypeError" if not right else ("DataSufficiencyError" if data_dq and not ignore else "proceeds")
            if got != exp:
                res["oracle_failures"].append(dict(clause="fit_gate", family=fam, data_disqualified=data_dq, ignore_disqualification=ignore,
                                                   right_type=right, behaviour=got, required=exp))
            lines.append(env_line(method, dict(dataDq=data_dq, ignore=ignore, rightType=right)))
            expect.append("ok " + ("none" if got == "proceeds" else got))
            descs.append(dict(method=method, family=fam, dataDq=data_dq, ignore=ignore, rightType=right))
            sigs.add((method, fam, got))

    # ---------------- (C) predict gate grid, stored and not stored
    def predict_models(fam):
        """fitted model objects of a family, both in-memory and restored from JSON"""
        if fam == "daily":
            doc = pframe.make_doc("fw-su_sh_wi", TZ, DailyModel().settings.model_dump())
            return [("from_dict", lambda: DailyModel.from_dict(doc))] + \
                   ([("fit", lambda: fitted["daily"]), ("json", lambda: DailyModel.from_json(fitted["daily"].to_json()))] if "daily" in fitted else [])
        if fam == "billing":
            st = BillingModel().settings.model_dump()
            st.update(developer_mode=True, silent_developer_mode=True)
            doc = pframe.make_doc("fw-su_sh_wi", TZ, st)
            return [("from_dict", lambda: BillingModel.from_dict(doc))] + \
                   ([("fit", lambda: fitted["billing"]), ("json", lambda: BillingModel.from_json(fitted["billing"].to_json()))] if "billing" in fitted else [])
        if fam == "hourly":
            return ([("fit", lambda: fitted["hourly"]), ("json", lambda: HourlyModel.from_json(fitted["hourly"].to_json()))] if "hourly" in fitted else [])
        return []

    pred_cases = [("dailyPredict", "daily", daily_r, daily_r_tz2, hour_r, lambda: DailyModel()),
                  ("billingPredict", "billing", bill_r, bill_r_tz2, daily_r, lambda: BillingModel()),
                  ("hourlyPredict", "hourly", hour_r, hour_r_tz2, daily_r, lambda: HourlyModel())]
    for method, fam, rd_ok, rd_tz2, rd_foreign, mk_unfitted in pred_cases:
        for how, mk in [("unfitted", mk_unfitted)] + predict_models(fam):
            for model_dq, ignore, right, tzeq in itertools.product([False, True], repeat=4):
                if not right and not tzeq:
                    continue               # a foreign object in another timezone: one deviation at a time for the type cell
                try:
                    m = mk()
                except Exception as e:  # noqa
                    res["oracle_failures"].append(dict(clause="model_restores_from_json", family=fam, how=how, detail=f"{exc_name(e)}: {str(e)[:80]}"))
                    break
                is_fitted = how != "unfitted"
                saved = (list(getattr(m, "disqualification", [])), list(getattr(m, "warnings", []))) if is_fitted else None
                if is_fitted:
                    m.disqualification = [dq_warning()] if model_dq else []
                elif model_dq:
                    m.disqualification = [dq_warning()]
                else:
                    m.disqualification = []
                data = rd_ok if (right and tzeq) else (rd_tz2 if right else rd_foreign)
                try:
                    m.predict(data, ignore_disqualification=ignore)
                    got = "predicts"
                except Exception as e:  # noqa
                    got = exc_name(e)
                if saved is not None:
                    m.disqualification, m.warnings = saved
                res["evaluations"] += 1
                must_raise = (not is_fitted) or (model_dq and not ignore) or (not right) or (not tzeq)
                if (got != "predicts") != must_raise:
                    res["oracle_failures"].append(dict(clause="predict_raises_rather_than_predicts", family=fam, model=how, fitted=is_fitted,
                                                       model_disqualified=model_dq, ignore_disqualification=ignore, right_type=right,
                                                       same_timezone=tzeq, behaviour=got))
                elif is_fitted and right and tzeq and (got == "DisqualifiedModelError") != (model_dq and not ignore):
                    res["oracle_failures"].append(dict(clause="DisqualifiedModelError_exactly_when", family=fam, model=how,
                                                       model_disqualified=model_dq, ignore_disqualification=ignore, behaviour=got))
                if got in ("predicts", "RuntimeError", "DisqualifiedModelError", "ValueError", "TypeError"):
                    lines.append(env_line(method, dict(fitted=is_fitted, modelDq=model_dq, ignore=ignore, rightType=right, tzEqual=tzeq)))
                    expect.append("ok " + ("none" if got == "predicts" else got))
                    descs.append(dict(method=method, model=how, fitted=is_fitted, modelDq=model_dq, ignore=ignore, rightType=right, tzEqual=tzeq))
                sigs.add((method, how, got))

    # ---------------- (C2) timezone pairs that differ only slightly: prefixes, fixed offsets, aliases — all must be refused
    import datetime as _dt
    tzpairs = [("UTC", _dt.timezone(_dt.timedelta(hours=-6))), ("UTC", "Etc/GMT+6"), ("Etc/GMT+1", "Etc/GMT+10"), ("EST", "EST5EDT"),
               ("America/Chicago", "US/Central"), ("America/Indiana/Knox", "America/Indiana/Knox".replace("/Knox", "/Tell_City")),
               ("Etc/GMT+10", "Etc/GMT+1"), ("GMT", "Etc/GMT+6")]
    for base_tz, rep_tz in tzpairs:
        try:
            ddr = dd.iloc[:40].copy()
            ddr.index = ddr.index.tz_localize(None).tz_localize(rep_tz)
            rd_d = DailyReportingData(ddr, is_electricity_data=True)
            hdr = hd.copy()
            hdr.index = hdr.index.tz_localize(None).tz_localize(rep_tz, ambiguous="NaT", nonexistent="NaT") if isinstance(rep_tz, str) else hdr.index.tz_localize(None).tz_localize(rep_tz)
            hdr = hdr[hdr.index.notna()]
            rd_h = HourlyReportingData(hdr, is_electricity_data=True)
        except Exception as e:  # noqa
            res["hist"]["tzpair_data_rejected"] = res["hist"].get("tzpair_data_rejected", 0) + 1
            continue
        trials = [("daily", DailyModel.from_dict(pframe.make_doc("fw-su_sh_wi", base_tz, DailyModel().settings.model_dump())), rd_d)]
        if "hourly" in fitted:
            hm2 = HourlyModel.from_json(fitted["hourly"].to_json())
            hm2.baseline_timezone = base_tz
            hm2.disqualification = []
            trials.append(("hourly", hm2, rd_h))
        for fam, m, rd in trials:
            if str(base_tz) == str(rd.tz):
                continue
            res["evaluations"] += 1
            try:
                m.predict(rd, ignore_disqualification=True)
                res["oracle_failures"].append(dict(clause="predict_raises_rather_than_predicts", family=fam, baseline_timezone=str(base_tz),
                                                   reporting_timezone=str(rd.tz), behaviour="predicts",
                                                   note="timezone different from the baseline's (near-miss name)"))
            except ValueError:
                pass
            except Exception as e:  # noqa
                res["hist"]["tzpair_other_exception:" + exc_name(e)] = res["hist"].get("tzpair_other_exception:" + exc_name(e), 0) + 1
        sigs.add(("tzpair", str(base_tz)))

    # ---------------- (D) a disqualification survives storage (inherited and poor-fit)
    for fam, mkmodel, cls in [("daily", lambda: fitted.get("daily"), DailyModel), ("billing", lambda: fitted.get("billing"), BillingModel),
                              ("hourly", lambda: fitted.get("hourly"), HourlyModel)]:
        m = mkmodel()
        if m is None:
            continue
        keep = list(m.disqualification)
        m.disqualification = keep + [dq_warning()]
        if hasattr(m, "params") and fam != "hourly":
            m.params = m._create_params_from_fit_model()
        try:
            m2 = cls.from_json(m.to_json())
            names = [d.qualified_name for d in m2.disqualification]
            res["evaluations"] += 1
            if "eemeter.sufficiency_criteria.test_disqualification" not in names:
                res["oracle_failures"].append(dict(clause="disqualification_survives_storage", family=fam, restored=names))
            try:
                m2.predict({"daily": daily_r, "billing": bill_r, "hourly": hour_r}[fam])
                res["oracle_failures"].append(dict(clause="stored_disqualified_model_predicts", family=fam))
            except DisqualifiedModelError:
                pass
        except Exception as e:  # noqa
            res["oracle_failures"].append(dict(clause="disqualification_survives_storage", family=fam, detail=f"{exc_name(e)}: {str(e)[:100]}"))
        finally:
            m.disqualification = keep
            if hasattr(m, "params") and fam != "hourly":
                m.params = m._create_params_from_fit_model()
        sigs.add(("storage", fam))

    # ---------------- (D2) a disqualification the FIT ITSELF adds (poor fit) survives storage and keeps the gate shut
    rng_pf = np.random.default_rng(404 + ctx["seed"])
    poor = dd.copy()
    poor["observed"] = np.abs(rng_pf.normal(10, 60, len(poor))) ** 2 + 0.1          # heavy-tailed, unrelated to the weather
    poor_reads = pd.Series(np.abs(rng_pf.normal(10, 60, 13)) ** 2 + 0.1, index=reads, name="observed")
    poor_cases = [("daily", DailyModel, lambda: DailyBaselineData(poor, is_electricity_data=True), daily_r),
                  ("billing", BillingModel, lambda: BillingBaselineData.from_series(poor_reads, htemp, is_electricity_data=True), bill_r)]
    if thorough:
        hp = synth_hourly(days=365)
        hp["observed"] = np.abs(rng_pf.normal(1, 6, len(hp))) ** 2 + 0.01
        poor_cases.append(("hourly", HourlyModel, lambda: HourlyBaselineData(hp, is_electricity_data=True), hour_r))
    for fam, cls, mkdata, rdata in poor_cases:
        res["evaluations"] += 1
        try:
            data = mkdata()
            data_dq_before = [d.qualified_name for d in data.disqualification]
            m = cls().fit(data, ignore_disqualification=True)
        except Exception as e:  # noqa
            res["hist"]["poor_fit_unavailable:" + fam + ":" + exc_name(e)] = 1
            continue
        own = [d.qualified_name for d in m.disqualification if d.qualified_name not in data_dq_before]
        res["hist"]["poor_fit:" + fam] = own
        if not own:
            continue                              # the fit was not judged poor: nothing to carry (the verdict itself is C16's)
        desc_pf = dict(family=fam, input="heavy-tailed usage unrelated to the weather (harness/props/c04.py D2)", fit_added=own)
        try:
            m.predict(rdata)
            res["oracle_failures"].append(dict(clause="poor_fit_model_predicts_without_override", **desc_pf))
        except DisqualifiedModelError:
            pass
        try:
            m2 = cls.from_json(m.to_json())
            names = [getattr(d, "qualified_name", str(d)) for d in m2.disqualification]
            if not set(own) <= set(names):
                res["oracle_failures"].append(dict(clause="poor_fit_disqualification_lost_in_storage", restored=names, **desc_pf))
            try:
                m2.predict(rdata)
                res["oracle_failures"].append(dict(clause="stored_poor_fit_model_predicts_without_override", **desc_pf))
            except DisqualifiedModelError:
                pass
        except Exception as e:  # noqa
            res["oracle_failures"].append(dict(clause="poor_fit_disqualification_lost_in_storage", detail=f"{exc_name(e)}: {str(e)[:100]}", **desc_pf))
        sigs.add(("poor_fit_storage", fam))

    if ctx.get("model_ok", True):
        outs = core.run_driver(lines)
        for out, exp, d in zip(outs, expect, descs):
            res["traces"] += 1
            if out != exp:
                res["disagreements"].append(dict(case=d, lean=out, impl=exp))
    res["samples"] = descs[:2] + descs[-1:]
    res["distinct_nontrivial"] = len(sigs)
    res["exhaustive"] = True
    res["rule"] = ("whole grid: family {daily, billing, hourly} x model {unfitted, from_dict, fitted, restored from JSON} x model dq x override "
                   "x data type {own, foreign} x timezone {same, other}; fit grid data dq x override x type with the numeric fit stubbed; "
                   "real fits of qualified synthetic baselines in five families/profiles; an injected disqualification through to_json/"
                   "from_json. distinct = (method, model provenance, outcome)")
    return res


def replay_finding(entry):
    return False


def replay(obj):
    r = run(dict(tier="quick", seed=0, model_ok=False, findings=[]))
    return r["oracle_failures"]


LEVEL_TEXT = ("Lean 4 theorems: the guard sequence of every fit()/predict() is re-extracted from the source on every run and the gate "
              "decisions (fit raises DataSufficiencyError exactly when the data is disqualified without override; predict raises exactly "
              "for unfitted / disqualified-without-override / foreign type / other timezone; DisqualifiedModelError exactly when...) are "
              "closed over all 2^8 atom valuations by kernel evaluation. The extracted guards are tied to the real methods by driving them "
              "over the whole grid with real objects (fitted, from_dict, restored from JSON); real fits and storage of disqualifications "
              "are checked by the oracle.")
LEVEL_NOTE = ("Trusted: Lean kernel + standard axioms; the guard extractor (pattern table of recognised conditions; fails closed on an "
              "unknown one; statements between guards are assumed not to raise); 'fit returns a model' depends on the external optimisers "
              "and is observed on real fits only; the data classes' own sufficiency verdicts are C10's subject.")
TECHNIQUE = "Lean 4 proof (decide +kernel over all valuations of guards regenerated from the AST) + exhaustive differential correspondence"
ASSUMPTIONS = ["non-guard statements between guards do not raise", "poor-fit disqualification appended by fit() is C16's decision theorem"]
