"""C16 — reported fit statistics are the true statistics of the model predictions.

T1: `_safe_divide` translated by py2lean.  T2: real `BaselineMetrics`/`ReportingMetrics`, the
hourly poor-fit gate and the daily CVRMSE gate vs. the Lean model (EEM.Model.Metrics) on Float.
Oracle: independent numpy textbook formulas on the finite pairs; stored hourly metrics vs metrics
of predict(baseline) on non-interpolated hours (both fit paths, fit made possible by working
around the vendored BisectingKMeans)."""
from __future__ import annotations

import math
import random
import warnings

import numpy as np
import pandas as pd

from .. import core
from ..core import fhex, unhex, close

ID = "C16"
LEAN_MODULE = "EEM.Props.C16"
BUILD_TARGETS = ["EEM.Props.C16"]
MODEL_TARGETS = ["EEM.Model.Metrics", "EEM.Model.CaltrackMetrics", "EEM.Gen.SafeDivide", "EEM.Proto"]
DESIGN_REF = "DESIGN.md §5 C16"


def gen_series(rng):
    n = rng.choice([2, 3, 5, 24, 100, 1000])
    kind = rng.choice(["normal", "normal", "zero_mean", "zero_spread", "negative", "tiny", "const_resid", "perfect", "near_flat"])
    if kind == "near_flat":
        # a large, almost flat load (level / spread ~ 1e4..1e8): every statistic is still well defined, but a formula that
        # subtracts two large sums (one-pass variance / covariance) loses all its digits here
        level, spread = rng.choice([(1.2e6, 1.0), (8.6e7, 40.0), (3.0e4, 2.0), (5.0e5, 0.05)])
        n = max(n, 24)
        o = level + np.array([rng.uniform(0, spread) for _ in range(n)])
        p = o + np.array([rng.gauss(0, spread / 3) for _ in range(n)])
        o, p = np.round(o, 6), np.round(p, 6)
        return kind, o, p, rng.choice([1, 2, 5])
    if kind == "zero_spread":
        o = np.full(n, round(rng.uniform(1, 50), 2))
    elif kind == "zero_mean":
        o = np.array([(-1) ** i * (1 + (i % 3)) for i in range(n)], dtype=float)
        if n % 2:
            o[-1] = 0.0
        o -= o.mean()
    elif kind == "negative":
        o = np.array([rng.uniform(-30, 10) for _ in range(n)])
    elif kind == "tiny":
        o = np.array([rng.uniform(0, 2e-3) for _ in range(n)])
    else:
        o = np.array([rng.uniform(5, 60) for _ in range(n)])
    if kind == "const_resid":
        p = o - 0.75
    elif kind == "perfect":
        p = o.copy()
    else:
        p = o + np.array([rng.gauss(0, 3) for _ in range(n)])
    o, p = np.round(o, 6), np.round(p, 6)
    # non-finite rows
    for _ in range(rng.choice([0, 0, 1, 3])):
        i = rng.randrange(n)
        (o if rng.random() < 0.5 else p)[i] = rng.choice([np.nan, np.inf, -np.inf])
    k = rng.choice([1, 1, 2, 5, n, n + 3])
    return kind, o, p, max(1, k)


def textbook(o, p, k):
    """independent formulas on the finite pairs"""
    m = np.isfinite(o) & np.isfinite(p)
    o, p = o[m], p[m]
    n = len(o)
    r = o - p
    sse = float(np.sum(r * r))
    ddof = max(n - k, 1)
    out = dict(n=n, ddof=ddof, sse=sse, mse=sse / n, rmse=math.sqrt(sse / n), rmse_adj=math.sqrt(sse / ddof),
               mae=float(np.mean(np.abs(r))), mbe=float(np.mean(r)), mean_obs=float(np.mean(o)))
    with np.errstate(all="ignore"):
        out["r_squared"] = float(np.corrcoef(p, o)[0, 1] ** 2) if n > 1 else float("nan")
    q = np.sort(o)
    out["iqr"] = float(np.quantile(q, 0.75) - np.quantile(q, 0.25))
    out["savings"] = float(np.sum(p) - np.sum(o))
    return out


def r2_tolerance(o, p):
    """how far a CENTRED (two-pass) correlation computed in doubles may be from the exact one: rounding of the means is
    amplified by level/spread (not by its square, which is what a one-pass formula suffers)"""
    eps = 2.220446049250313e-16
    with np.errstate(all="ignore"):
        cond = max(float(np.max(np.abs(x)) / max(np.std(x), 1e-300)) for x in (o, p))
    return 1e-9 + 4 * eps * len(o) * cond


SRC_FIELDS = ["n_prime", "ddof", "ddof_autocorr", "mse", "rmse", "rmse_adj", "rmse_autocorr_adj", "cvrmse", "cvrmse_adj",
              "cvrmse_autocorr_adj", "pnrmse", "pnrmse_adj", "pnrmse_autocorr_adj", "nmae", "pnmae", "nmbe", "pnmbe", "r_squared_adj"]


def src_field_agrees(f, lv, g, got, kv, d):
    """generated formula (run on the model's base quantities) vs the attribute of the real class.  Where a statistic is an
    ill-conditioned function of a base quantity (n' of the autocorrelation near +-1, anything over a ~zero denominator, the clamp
    of ddof_autocorr at 1, adjusted R^2 of R^2) nothing is compared: the two sides legitimately differ in the last bits of that
    base quantity, and the statistic (even its definedness) follows those bits."""
    const_resid = (float(got["mse"]) - float(got["mbe"]) ** 2) <= 1e-10 * max(1.0, float(got["mse"]))
    uses_rho = f in ("n_prime", "ddof_autocorr") or "autocorr" in f
    tol = 1e-7
    if f == "r_squared_adj":
        r_l, r_i = unhex(kv["r_squared"]), float(got["r_squared"])
        if r_l != r_l or r_i != r_i or d.get("r2tol", 0.0) > 1e-3:
            return True                          # R^2 itself is undefined / ill-conditioned here (zero spread)
        if float(got["ddof"]) - 1 <= 1e-3:
            return True                          # (1 - R^2)(n - 1) / 0: inf or NaN according to the last bit of R^2
    if uses_rho:
        rho_l, rho_i = unhex(kv["autocorr"]), float(got["autocorr"])
        if const_resid or rho_l != rho_l or rho_i != rho_i or 1 - rho_i * rho_i < 1e-3 or 1 - rho_l * rho_l < 1e-3:
            return True
        npr = float(got["src_n_prime"])
        if abs(npr - d["k"] - 1) <= 1e-6 * max(1.0, abs(npr)):
            return True                          # on the clamp of ddof_autocorr
        tol = 1e-6 + 8 * abs(rho_l - rho_i) / (1 - rho_i * rho_i)
    if f.startswith(("cvrmse", "nmae", "nmbe")) and abs(float(got["mean_obs"])) <= 1e-3:
        return True                              # ratio over a ~zero mean (instances of finding C16-F1)
    if f.startswith("pn") and abs(float(got["iqr"])) <= 1e-3:
        return True
    if g is None or lv == "none":
        return (g is None) == (lv == "none")
    a, b = unhex(lv), float(g)
    if math.isinf(a) or math.isinf(b):
        return a == b
    if a != a or b != b:
        return (a != a) == (b != b)
    if f == "r_squared_adj":
        n, dd = float(got["n"]), float(got["ddof"])
        amp = (n - 1) / max(dd - 1, 1e-3)
        return abs(a - b) <= 1e-7 * max(1.0, abs(b)) + 2 * d.get("r2tol", 0.0) * amp
    return close(a, b, tol) or abs(a - b) <= 1e-9


def safely_positive(den):
    return den > 1e-3


def run(ctx):
    warnings.filterwarnings("ignore")
    from opendsm.common.metrics import BaselineMetrics, ReportingMetrics, _safe_divide
    rng = random.Random(ctx["seed"] * 86028121 + 16)
    thorough = ctx["tier"] == "thorough"
    n_cases = int((250 if not thorough else 20000) * ctx.get("budget_scale", 1))
    res = dict(evaluations=0, disagreements=[], oracle_failures=[], finding_instances={}, samples=[], hist={}, traces=0)
    findings = {e["id"]: e for e in ctx.get("findings", []) if e.get("status") == "finding"}
    sigs = set()
    lines, metas = [], []

    def tok(x):
        return fhex(x) if math.isfinite(x) else "x"

    FIELDS = ["n", "ddof", "sse", "mse", "rmse", "rmse_adj", "mae", "mbe", "r_squared", "cvrmse", "cvrmse_adj", "pnrmse",
              "pnrmse_adj", "nmae", "nmbe"]
    for _ in range(n_cases):
        kind, o, p, k = gen_series(rng)
        idx = pd.date_range("2021-01-01", periods=len(o), freq="h", tz="UTC")
        df = pd.DataFrame({"observed": o, "predicted": p}, index=idx)
        m = np.isfinite(o) & np.isfinite(p)
        if m.sum() < 1:
            continue
        bm = BaselineMetrics(df=df, num_model_params=k)
        res["evaluations"] += 1
        got = {f: getattr(bm, f) for f in FIELDS}
        for f in SRC_FIELDS:                     # the statistics whose formula chain is re-extracted from the source (T1)
            got["src_" + f] = getattr(bm, f)
        got["mean_obs"] = bm.observed.mean
        got["iqr"] = bm.observed.iqr
        got["autocorr"] = float(bm._df["residuals"].autocorr(lag=1)) if m.sum() > 2 else float("nan")
        rm = ReportingMetrics(baseline_metrics=bm, reporting_df=df, data_frequency="daily")
        got["savings"] = rm.savings
        exp = textbook(o, p, k)
        scale = max(1.0, float(np.max(np.abs(o[m]))), float(np.max(np.abs(p[m]))))
        for f, v in exp.items():
            g = got[f]
            okv = (g == v) if f in ("n", "ddof") else (close(float(g), v, 1e-9) or abs(float(g) - v) <= 1e-9 * scale * scale * max(1, len(o)) * 1e-3)
            if f == "r_squared":
                okv = abs(float(g) - v) <= r2_tolerance(o[m], p[m]) if (g == g and v == v) else (g != g) == (v != v)
            if f == "r_squared" and (v != v or exp["sse"] == 0 or np.std(o[m]) < 1e-9 or np.std(p[m]) < 1e-9):
                okv = True              # correlation undefined / ill-conditioned for zero spread
            if not okv:
                res["oracle_failures"].append(dict(clause="statistic_differs_from_textbook", statistic=f, reported=float(g), textbook=v,
                                                   case=dict(kind=kind, n=len(o), num_params=k, observed=o[:6].tolist(), predicted=p[:6].tolist())))
                break
        # ratios: undefined exactly when the denominator is not safely positive
        for f, num, den in (("cvrmse", got["rmse"], got["mean_obs"]), ("nmbe", got["mbe"], got["mean_obs"]),
                            ("nmae", got["mae"], got["mean_obs"]), ("pnrmse", got["rmse"], got["iqr"])):
            g = got[f]
            bad = None
            if not safely_positive(den) and g is not None:
                bad = "denominator_not_safely_positive_but_number_reported"
            elif safely_positive(den) and (g is None or not close(float(g), num / den, 1e-9)):
                bad = "ratio_wrong"
            if bad:
                f_ = dict(clause=bad, statistic=f, reported=None if g is None else float(g), numerator=float(num), denominator=float(den),
                          case=dict(kind=kind, n=len(o), num_params=k, observed=o[:6].tolist(), predicted=p[:6].tolist()))
                if bad.startswith("denominator") and "C16-F1" in findings and num <= 1e-2:
                    d = res["finding_instances"].setdefault("C16-F1", dict(count=0, example=None))
                    d["count"] += 1
                    d["example"] = d["example"] or f_
                else:
                    res["oracle_failures"].append(f_)
                break
        sigs.add((kind, len(o) > 24, int(m.sum()) < len(o), k >= m.sum(), got["cvrmse"] is None, got["pnrmse"] is None))
        lines.append(f"metrics {k} " + " ".join(f"{tok(a)} {tok(b)}" for a, b in zip(o, p)))
        metas.append(("metrics", kind, got, dict(n=len(o), k=k, r2tol=r2_tolerance(o[m], p[m]), sumscale=float(np.sum(np.abs(o[m])) + np.sum(np.abs(p[m]))))))
        if len(res["samples"]) < 3:
            res["samples"].append(dict(kind=kind, n=len(o), num_params=k, rmse=float(got["rmse"]), cvrmse=got["cvrmse"]))

    # ---- the CalTRACK-hourly ModelMetrics (hourly_caltrack/metrics.py): two series on one index, NaNs in either
    from opendsm.eemeter.models.hourly_caltrack.metrics import ModelMetrics
    CT_FIELDS = ["observed_length", "predicted_length", "merged_length", "rmse", "rmse_adj", "cvrmse", "cvrmse_adj", "nmae", "nmbe",
                 "r_squared", "autocorr_resid", "n_prime"]
    for j in range(int((60 if not thorough else 3000) * ctx.get("budget_scale", 1))):
        n = rng.choice([12, 48, 200])
        g = np.random.default_rng(rng.randrange(1 << 30))
        o = 10 + 3 * np.sin(np.arange(n) / 24 * 2 * np.pi) + g.normal(0, 1, n)
        p = o + np.convolve(g.normal(0, 0.7, n), [0.6, 0.4], "same")
        kind = ["clean", "prediction_gaps", "usage_gaps", "both_gaps", "net_metered", "biased"][j % 6]
        if kind in ("prediction_gaps", "both_gaps"):
            p = np.where(g.random(n) < 0.12, np.nan, p)
        if kind in ("usage_gaps", "both_gaps"):
            o = np.where(g.random(n) < 0.12, np.nan, o)
        if kind == "net_metered":
            o, p = o - 11.0, p - 11.0
        if kind == "biased":
            p = p * 0.8 + 4
        k = rng.choice([1, 3, 8])
        idx = pd.date_range("2021-01-01", periods=n, freq="h", tz="UTC")
        try:
            mm = ModelMetrics(pd.Series(o, index=idx), pd.Series(p, index=idx), num_parameters=k)
        except Exception as e:  # noqa
            res["oracle_failures"].append(dict(clause="caltrack_metrics_raise", kind=kind, error=f"{type(e).__name__}: {str(e)[:100]}"))
            continue
        res["evaluations"] += 1
        got = {f: getattr(mm, f) for f in CT_FIELDS}
        ok = np.isfinite(o) & np.isfinite(p)
        oo, pp = o[ok], p[ok]
        r = pp - oo
        npairs = int(ok.sum())
        rho = float(np.corrcoef(r[1:], r[:-1])[0, 1]) if npairs > 2 else float("nan")
        tb = dict(merged_length=npairs, rmse=float(np.sqrt(np.mean(r ** 2))),
                  rmse_adj=float(np.sqrt(np.sum(r ** 2) / (npairs - k))) if npairs > k else float("nan"),
                  cvrmse=float(np.sqrt(np.mean(r ** 2)) / np.mean(oo)), nmbe=float(r.sum() / oo.sum()), nmae=float(np.abs(r).sum() / oo.sum()),
                  autocorr_resid=rho, n_prime=npairs * (1 - rho) / (1 + rho))
        for f, v in tb.items():
            gv = got[f]
            same = (int(gv) == v) if f == "merged_length" else ((gv != gv and v != v) or close(float(gv), v, 1e-8) or abs(float(gv) - v) < 1e-9)
            if same:
                continue
            f_ = dict(clause="caltrack_statistic_differs_from_textbook", statistic=f, reported=float(gv), textbook_on_finite_pairs=v, kind=kind,
                      observed_values=int(np.isfinite(o).sum()), finite_pairs=npairs, negative_observed=int((oo < 0).sum()))
            if f == "n_prime" and int(np.isfinite(o).sum()) != npairs and "C16-F3" in findings:
                fid = "C16-F3"          # observed values without a prediction are counted (input-level predicate)
            elif f == "cvrmse" and (oo < 0).any() and "C16-F4" in findings:
                fid = "C16-F4"          # negative observed values: the class divides by the mean of absolute values
            else:
                fid = None
            if fid:
                d = res["finding_instances"].setdefault(fid, dict(count=0, example=None))
                d["count"] += 1
                d["example"] = d["example"] or f_
            else:
                res["oracle_failures"].append(f_)
                break
        sigs.add(("ctmetrics", kind, n, npairs > k))
        lines.append(f"ctmetrics {k} " + " ".join(f"{tok(a)} {tok(b)}" for a, b in zip(o, p)))
        metas.append(("ctmetrics", kind, got, dict(n=n, k=k)))

    # ---- _safe_divide directly (T1 kernel), boundary-biased
    vals = [0.0, 1e-3, 1e-3 + 1e-12, 9.999e-4, 1e-2, 1e-2 + 1e-12, 0.00999, -0.5, 0.5, 5.0, -1e-3, 1e9]
    for a in vals:
        for b in vals:
            with np.errstate(all="ignore"):
                g = _safe_divide(np.float64(a), np.float64(b), 1e-3)
            res["evaluations"] += 1
            lines.append(f"safe_divide {fhex(a)} {fhex(b)} {fhex(1e-3)}")
            metas.append(("safe_divide", a, b, g))
            if not safely_positive(b) and g is not None:
                f_ = dict(clause="denominator_not_safely_positive_but_number_reported", numerator=a, denominator=b,
                          reported=float(g) if g == g else "nan")
                if "C16-F1" in findings and a <= 1e-2:
                    d = res["finding_instances"].setdefault("C16-F1", dict(count=0, example=None))
                    d["count"] += 1
                    d["example"] = d["example"] or f_
                else:
                    res["oracle_failures"].append(f_)

    # ---- gates: the real methods with injected statistics
    from opendsm.eemeter.models.hourly.model import HourlyModel
    hm = HourlyModel()
    cvt, pnt = hm.settings.cvrmse_threshold, hm.settings.pnrmse_threshold

    class _BM:
        pass
    for cv in [None, 0.0, cvt - 1e-9, cvt, cvt + 1e-9, 5.0]:
        for pn in [None, 0.0, pnt - 1e-9, pnt, pnt + 1e-9, 5.0]:
            b = _BM()
            b.cvrmse_adj, b.pnrmse_adj = cv, pn
            hm.baseline_metrics = b
            acc = bool(hm._model_fit_is_acceptable())
            res["evaluations"] += 1
            misses_both = not (cv is not None and cv < cvt) and not (pn is not None and pn < pnt)
            if acc == misses_both:
                res["oracle_failures"].append(dict(clause="hourly_gate", cvrmse_adj=cv, pnrmse_adj=pn, acceptable=acc))
            lines.append(f"hgate {'none' if cv is None else fhex(cv)} {'none' if pn is None else fhex(pn)} {fhex(cvt)} {fhex(pnt)}")
            metas.append(("hgate", cv, pn, acc))
    sigs.add(("gates",))

    if ctx.get("model_ok", True):
        outs = core.run_driver(lines)
        for out, meta in zip(outs, metas):
            res["traces"] += 1
            if meta[0] == "metrics":
                _, kind, got, d = meta
                kv = dict(x.split("=") for x in out[3:].split()) if out.startswith("ok n=") else {}
                for f in ["n", "ddof", "sse", "mse", "rmse", "rmse_adj", "mae", "mbe", "mean_obs", "r_squared", "iqr", "cvrmse",
                          "cvrmse_adj", "pnrmse", "pnrmse_adj", "nmae", "nmbe", "autocorr", "savings"]:
                    g = got[f]
                    lv = kv.get(f)
                    if lv is None:
                        res["disagreements"].append(dict(op="metrics", field=f, lean=out[:200], case=d))
                        break
                    if f in ("n", "ddof"):
                        same = int(lv) == int(g)
                    elif g is None or lv == "none":
                        same = (g is None) == (lv == "none")
                        if not same:
                            # a denominator that sits on the safe-denominator threshold to within rounding: pandas' pairwise sum and the
                            # model's left fold may land on different sides of it (seen once in a thorough run: mean = 1e-3 exactly up to 1 ulp)
                            den = got["iqr"] if f.startswith("pn") else got["mean_obs"]
                            if den is not None and abs(abs(float(den)) - 1e-3) <= 1e-12:
                                same = True
                    elif f in ("cvrmse", "cvrmse_adj", "nmae", "nmbe") and abs(float(got["mean_obs"])) <= 1e-3:
                        same = True     # ill-conditioned ratio over a ~zero mean (instances of finding C16-F1): only definedness compared
                    elif f in ("pnrmse", "pnrmse_adj") and abs(float(got["iqr"])) <= 1e-3:
                        same = True
                    elif f == "autocorr" and (float(got["mse"]) - float(got["mbe"]) ** 2) <= 1e-10 * max(1.0, float(got["mse"])):
                        same = True     # (almost) constant residuals: the lag-1 autocorrelation is 0/0, both sides return rounding noise
                    else:
                        a, b = unhex(lv), float(g)
                        if f == "r_squared":
                            same = a != a or b != b or abs(a - b) <= max(1e-9, 2 * d.get("r2tol", 0.0))
                        elif f == "savings":
                            # a difference of two sums: the summation order moves it by ~eps * (sum|o| + sum|p|)
                            same = close(a, b, 1e-7) or abs(a - b) <= 1e-9 + 1e-13 * d.get("sumscale", 0.0)
                        else:
                            same = close(a, b, 1e-7) or (f == "autocorr" and (a != a or b != b or abs(a - b) < 1e-6)) or abs(a - b) <= 1e-9
                    if not same:
                        res["disagreements"].append(dict(op="metrics", kind=kind, field=f, lean=lv if lv == "none" else unhex(lv),
                                                         impl=None if g is None else float(g), case=d))
                        break
                else:
                    for f in SRC_FIELDS:
                        lv, g = kv.get("src_" + f), got["src_" + f]
                        if lv is None or not src_field_agrees(f, lv, g, got, kv, d):
                            res["disagreements"].append(dict(op="metrics.generated_formula", kind=kind, field=f,
                                                             lean=lv if lv in (None, "none") else unhex(lv),
                                                             impl=None if g is None else float(g), case=d))
                            break
            elif meta[0] == "ctmetrics":
                _, kind, got, d = meta
                kv = dict(x.split("=", 1) for x in out[3:].split(" ")) if out.startswith("ok ") and out != "ok empty" else {}
                for f, gv in got.items():
                    lv = kv.get(f)
                    if lv is None:
                        res["disagreements"].append(dict(op="ctmetrics", field=f, lean=out[:200], case=d))
                        break
                    if f.endswith("_length"):
                        same = int(lv) == int(gv)
                    elif lv == "none":
                        same = gv != gv                      # the class reports NaN where the model has no value
                    else:
                        a, b = unhex(lv), float(gv)
                        same = (a != a and b != b) or close(a, b, 1e-7) or abs(a - b) <= 1e-9 or \
                            (f in ("autocorr_resid", "n_prime", "r_squared") and (a != a or b != b or abs(a - b) <= 1e-6 * max(1.0, abs(b)))) or \
                            (a in (float("inf"), float("-inf")) or b in (float("inf"), float("-inf")))
                    if not same:
                        res["disagreements"].append(dict(op="ctmetrics", kind=kind, field=f, lean=lv if lv == "none" else unhex(lv), impl=float(gv), case=d))
                        break
            elif meta[0] == "safe_divide":
                _, a, b, g = meta
                exp = "ok none" if g is None else "ok " + (fhex(g) if g == g else "nan")
                if out != exp and not (g is not None and g == 0 and unhex(out[3:]) == 0):
                    res["disagreements"].append(dict(op="safe_divide", a=a, b=b, lean=out, impl=exp))
            else:
                _, cv, pn, acc = meta
                if out != ("ok acceptable" if acc else "ok disqualified"):
                    res["disagreements"].append(dict(op="hgate", cv=cv, pn=pn, lean=out, impl=acc))

    # ---- stored hourly metrics vs metrics of predict(baseline) on non-interpolated hours (both fit paths)
    n_fits = 0 if ctx.get("budget_scale", 1) > 1 else (3 if not thorough else 8)
    for j in range(n_fits):
        # the third fit of each round uses the smallest daily-training-hours threshold (0: no day is excluded for having
        # too few measured hours), thorough also the largest sensible one
        mdth = None if j % 3 != 2 else (0 if j % 6 == 2 else 20)
        r = hourly_fit_oracle(rng, adaptive=(j % 3 == 1), mdth=mdth)
        res["evaluations"] += 1
        res["hist"]["hourly_fits"] = res["hist"].get("hourly_fits", 0) + 1
        if r:
            res["oracle_failures"].append(r)
        sigs.add(("hourly_fit", j % 3, mdth))
    # ---- daily fits: reported RMSE / MAE / CVRMSE / PNRMSE vs the textbook formulas on the finite (observed, predicted) pairs of
    # predict(baseline), and the CVRMSE gate — incl. baselines with days that have usage but no temperature, and missing-usage days
    # the last two use the APPROVED settings (the kept model is the final refit of the chosen components) on meters with
    # heavy-tailed noise / outlier days, where that refit differs from the component fits the split selection compared
    dscen = ["ordinary", "temperature_outage", "scattered_missing_temperature", "missing_usage", "approved_settings_heavy_tails",
             "approved_settings_outlier_days"]
    for j, scen in enumerate(dscen if (thorough or ctx.get("budget_scale", 1) == 1) else []):
        r = daily_fit_oracle(rng, scen)
        res["evaluations"] += 1
        res["hist"]["daily_fit:" + scen] = res["hist"].get("daily_fit:" + scen, 0) + 1
        if r:
            res["oracle_failures"].append(r)
        sigs.add(("daily_fit", scen))
    res["distinct_nontrivial"] = len(sigs)
    res["rule"] = ("series of 2-1000 pairs: ordinary, zero-mean, zero-spread, negative (net-metered), tiny, constant residual, perfect fit, "
                   "with NaN/+-inf rows and parameter counts up to n+3; _safe_divide on a boundary grid; the hourly gate on a threshold grid "
                   "through the real method; hourly fits (default and adaptive) with interpolated hours; daily fits (ordinary, four weeks without weather but with usage, scattered missing temperature, missing usage) whose reported RMSE/MAE/CVRMSE/PNRMSE and gate are recomputed from predict(baseline). distinct = (kind, long?, has "
                   "non-finite rows?, params>=n?, cvrmse undefined?, pnrmse undefined?)")
    return res


def daily_fit_oracle(rng, scenario):
    """DailyModel: error dict and CVRMSE gate vs independent recomputation from predict(baseline).  The first four scenarios keep the
    selected component fits as the final model (developer setting alpha_final_type=None), the `approved_settings_*` scenarios use the
    approved constants, under which the kept model is a final refit of the chosen components."""
    import contextlib, io
    from opendsm.eemeter.models.daily.model import DailyModel
    from opendsm.eemeter.models.daily.data import DailyBaselineData
    n = 365
    idx = pd.date_range("2021-01-01", periods=n, freq="D", tz="America/Chicago")
    g = np.random.default_rng(rng.randrange(1 << 30))
    doy = np.arange(n)
    T = 52 - 24 * np.cos(2 * np.pi * doy / 365) + g.normal(0, 4, n)
    u = 12 + 1.4 * np.clip(58 - T, 0, None) + 0.7 * np.clip(T - 70, 0, None) + g.normal(0, 1.5, n)
    df = pd.DataFrame({"temperature": T, "observed": u}, index=idx)
    if scenario == "temperature_outage":
        df.iloc[5:33, 0] = np.nan                                   # four January weeks without weather, usage present
    elif scenario == "scattered_missing_temperature":
        df.iloc[sorted(g.choice(np.arange(3, n - 3), 22, replace=False)), 0] = np.nan
    elif scenario == "missing_usage":
        df.iloc[sorted(g.choice(np.arange(3, n - 3), 20, replace=False)), 1] = np.nan
    elif scenario == "approved_settings_heavy_tails":
        df["observed"] = df["observed"] + g.standard_t(2, n) * 2.0
    elif scenario == "approved_settings_outlier_days":
        df["observed"] = df["observed"] + g.standard_t(3, n) * 1.0
        df.iloc[sorted(g.choice(np.arange(3, n - 3), 8, replace=False)), 1] *= 4.0
    settings = {"developer_mode": True, "silent_developer_mode": True, "alpha_final_type": None, "final_bounds_scalar": None}
    if scenario.startswith("approved_settings"):
        settings = None
    try:
        with contextlib.redirect_stdout(io.StringIO()), contextlib.redirect_stderr(io.StringIO()):
            data = DailyBaselineData(df, is_electricity_data=True)
            m = DailyModel(settings=settings).fit(data, ignore_disqualification=True)
            pred = m.predict(data, ignore_disqualification=True)
    except Exception as e:  # noqa
        return dict(clause="daily_fit_runs", scenario=scenario, error=f"{type(e).__name__}: {e}"[:200])
    o, p = pred["observed"].to_numpy(dtype=float), pred["predicted"].to_numpy(dtype=float)
    ok = np.isfinite(o) & np.isfinite(p)
    o, p = o[ok], p[ok]
    resid = o - p
    rmse = float(np.sqrt(np.mean(resid ** 2)))
    want = dict(RMSE=rmse, MAE=float(np.mean(np.abs(resid))), CVRMSE=rmse / float(np.mean(o)),
                PNRMSE=rmse / float(np.quantile(o, 0.95) - np.quantile(o, 0.05)))
    stored = m.to_dict()["info"]["error"]
    for k, v in want.items():
        for src, rep in (("model.error", m.error[k]), ("to_dict()['info']['error']", stored[k])):
            if not close(float(rep), v, 1e-7):
                return dict(clause="daily_reported_statistic_is_not_the_textbook_one", scenario=scenario, statistic=k, where=src,
                            reported=float(rep), textbook_on_finite_pairs=v, finite_pairs=int(ok.sum()))
    has_dq = any("cvrmse" in w.qualified_name.lower() for w in m.disqualification)
    if has_dq != (want["CVRMSE"] > m.settings.cvrmse_threshold):
        return dict(clause="daily_gate_is_exactly_cvrmse_over_threshold", scenario=scenario, cvrmse=want["CVRMSE"],
                    threshold=float(m.settings.cvrmse_threshold), disqualified=has_dq)
    return None


def hourly_fit_oracle(rng, adaptive, mdth=None):
    """fit an HourlyModel on a synthetic baseline with gaps; stored baseline metrics must be those of
    predict(baseline) on non-interpolated hours.  The vendored BisectingKMeans calls a scikit-learn
    API that no longer exists (environment defect E3): worked around here only."""
    from opendsm.eemeter.models.hourly.model import HourlyModel
    from opendsm.eemeter.models.hourly.data import HourlyBaselineData
    from opendsm.common.metrics import BaselineMetrics
    from opendsm.common.clustering import bisect_k_means as bkm
    import sklearn.utils.validation as skv
    if not hasattr(bkm.BisectingKMeans, "_validate_data"):
        bkm.BisectingKMeans._validate_data = lambda self, X, **kw: skv.validate_data(self, X, **{k: v for k, v in kw.items() if k != "copy"}, **({"copy": kw["copy"]} if "copy" in kw else {}))
    idx = pd.date_range("2021-01-01", "2022-01-01", freq="h", tz="America/Chicago", inclusive="left")
    h = np.arange(len(idx))
    temp = 55 + 25 * np.sin(h / 8760 * 2 * np.pi - 2) + 6 * np.sin(h / 24 * 2 * np.pi)
    obs = 1.5 + 0.04 * np.abs(temp - 60) + 0.5 * (np.sin(h / 24 * 2 * np.pi) > 0) + np.array([rng.gauss(0, 0.15) for _ in h])
    df = pd.DataFrame({"temperature": temp, "observed": obs}, index=idx)
    for _ in range(12):
        a = rng.randrange(100, len(idx) - 100)
        df.iloc[a:a + rng.choice([1, 2, 5]), rng.choice([0, 1])] = np.nan
    # a meter outage of two and a half days shortly BEFORE the spring clock change (whole days fall under the daily-training-hours
    # threshold and are left out of the training set, while the hour bookkeeping of the clock change must still refer to the full frame)
    o0 = int(np.flatnonzero(idx >= pd.Timestamp("2021-03-08", tz="America/Chicago"))[0])
    df.iloc[o0:o0 + 62, 1] = np.nan
    try:
        bd = HourlyBaselineData(df, is_electricity_data=True)
        st = dict(elasticnet=dict(adaptive_weights=True, adaptive_weight_max_iter=3, adaptive_weight_tol=1e-3)) if adaptive else None
        if mdth is not None:
            st = dict(st or {}, min_daily_training_hours=mdth)
        m = HourlyModel(settings=st).fit(bd, ignore_disqualification=True)
        out = m.predict(bd, ignore_disqualification=True)
    except Exception as e:  # noqa
        return None        # fit not possible in this environment: clause not evaluated (recorded in the histogram by caller)
    cols = [c for c in out.columns if c.startswith("interpolated_")]
    mask = ~out[cols].any(axis=1)
    ref = BaselineMetrics(df=out.loc[mask], num_model_params=m.baseline_metrics.num_model_params)
    for f in ("n", "rmse", "rmse_adj", "mae", "mbe", "cvrmse_adj", "pnrmse_adj", "r_squared"):
        a, b = getattr(m.baseline_metrics, f), getattr(ref, f)
        if not close(float(a), float(b), 1e-9):
            return dict(clause="hourly_stored_metrics_not_on_noninterpolated_rows", adaptive_weights=adaptive, min_daily_training_hours=mdth, statistic=f,
                        stored=float(a), of_predict_baseline_noninterpolated=float(b), interpolated_hours=int((~mask).sum()))
    return None


def replay_finding(entry):
    from opendsm.common.metrics import _safe_divide
    w = entry["witness"]
    if entry["id"] in ("C16-F3", "C16-F4"):
        # fixed witnesses of the CalTRACK-hourly ModelMetrics deviations
        from opendsm.eemeter.models.hourly_caltrack.metrics import ModelMetrics
        n = 200
        g = np.random.default_rng(7)
        idx = pd.date_range("2021-01-01", periods=n, freq="h", tz="UTC")
        o = 10 + 3 * np.sin(np.arange(n) / 24 * 2 * np.pi) + g.normal(0, 1, n)
        p = o + np.convolve(g.normal(0, 0.7, n), [0.6, 0.4], "same")
        if entry["id"] == "C16-F3":
            p = np.where(np.arange(n) % 8 == 3, np.nan, p)
        else:
            o, p = o - 11.0, p - 11.0
        mm = ModelMetrics(pd.Series(o, index=idx), pd.Series(p, index=idx), num_parameters=3)
        ok = np.isfinite(o) & np.isfinite(p)
        r = (p - o)[ok]
        if entry["id"] == "C16-F3":
            rho = float(np.corrcoef(r[1:], r[:-1])[0, 1])
            return not close(float(mm.n_prime), int(ok.sum()) * (1 - rho) / (1 + rho), 1e-8)
        return not close(float(mm.cvrmse), float(np.sqrt(np.mean(r ** 2)) / np.mean(o[ok])), 1e-8)
    g = _safe_divide(w["numerator"], w["denominator"], 1e-3)
    return g is not None


def replay(obj):
    """re-run the generation the witness came from (same seed) with the listed findings recognised as such; what counts is a failure
    of the witness's own clause"""
    w = obj.get("witness", obj) if isinstance(obj, dict) else {}
    r = run(dict(tier=obj.get("tier", "quick"), seed=obj.get("seed", 0), model_ok=False, findings=core.load_findings("C16")))
    clause = w.get("clause")
    return [f for f in r["oracle_failures"] if clause is None or f.get("clause") == clause]


LEVEL_TEXT = ("Lean 4 theorems over R about an executable model of BaselineMetrics/ReportingMetrics (finite-pair filter, n, sse, mse, rmse, "
              "ddof, rmse_adj, mae, mbe, means, savings) with _safe_divide AND the 19 derived statistics of BaselineMetrics (ddof, mse, rmse, the adjusted and "
              "autocorrelation-adjusted RMSEs, CVRMSE/PNRMSE/NMAE/NMBE families, adjusted R^2) re-translated from /repo on every run "
              "(EEM.Gen.MetricFormulas) and proved equal to the model's definitions on the model's base quantities: rmse^2*n = sse, "
              "rmse_adj^2*ddof = sse, n*mbe = sum(obs) - sum(pred), |mbe| <= mae <= rmse (Cauchy-Schwarz), ddof >= 1, the statistics ignore "
              "non-finite rows, the exact condition under which a ratio is undefined, and the two poor-fit gates as decision theorems. "
              "The model is tied to the real classes by a differential run on Float; the stored hourly metrics are compared with the "
              "metrics of predict(baseline) on non-interpolated hours on real fits (both fit paths, min_daily_training_hours 0/default/20); daily "
              "fits with the approved settings on heavy-tailed meters compare the reported error with predict(baseline). The CalTRACK-hourly "
              "ModelMetrics (hourly_caltrack/metrics.py) has its own hand model (EEM.Model.CaltrackMetrics) with theorems stating exactly when its "
              "CVRMSE and autocorrelation-corrected n are the textbook values (non-negative usage; every observed value predicted) - the "
              "complements are findings C16-F4 / C16-F3 - and is run against the real class on series with gaps in either input.")
LEVEL_NOTE = ("Trusted: Lean kernel + standard axioms; py2lean (for _safe_divide and the metric-formula extractor; `x ** 0.5` is read as sqrt); the base "
              "quantities pandas computes (n, column mean/IQR/sum of squares, MAE, R^2, n') enter the generated formulas as fields of a record and are tied "
              "to the class by T2; hand model of the pandas reductions (validated by T2 at "
              "1e-7 relative; quantile/IQR, Pearson correlation and autocorrelation are in the executable model but their inequalities "
              "(0 <= r^2 <= 1) are not proved); the hourly fit needs the vendored BisectingKMeans worked around in the harness; the ratio "
              "clause of the property is false of the code for small numerators (known finding C16-F1).")
TECHNIQUE = "Lean 4 proof (identities and inequalities over R; decision theorems) + differential correspondence + real-fit oracle"
ASSUMPTIONS = ["theorems assume at least one finite pair", "pandas/numpy summation order differs from the model's (compared within tolerance)"]
