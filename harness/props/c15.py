"""C15 — a building that follows the model is recovered by the fit (PARTIAL).

T2: (a) "representable" on the real code — a stored record carrying the generating parameters is
evaluated by the real `_predict_submodel` and by the Lean model (generated kernels on Float) and
both are compared with the generator itself.  Oracle: real fits over a fixed grid of generating
parameters x weather years x zones x noise draws: NRMSE <= 5 % of mean usage on the baseline and
on a second weather year, no phantom heating / cooling load above 5 % of usage, and the measured
hypothesis of theorem C15_rms_bound (SSE of the fit vs SSE of the truth on the baseline)."""
from __future__ import annotations

import contextlib
import io
import math
import random
import warnings

import numpy as np
import pandas as pd

from .. import core
from ..core import fhex, unhex

ID = "C15"
LEAN_MODULE = "EEM.Props.C15"
BUILD_TARGETS = ["EEM.Props.C15"]
DESIGN_REF = "DESIGN.md §5 C15"

ZONES = ["UTC", "America/New_York", "Europe/Berlin", "America/Los_Angeles", "Australia/Sydney"]
SHAPES = ["heating", "cooling", "both", "flat"]


def generator(T, p):
    return p["base"] + p["hb_slope"] * np.clip(p["hbp"] - T, 0, None) + p["cb_slope"] * np.clip(T - p["cbp"], 0, None)


def weather(year, tz, seed, mean, amp, noise):
    idx = pd.date_range(f"{year}-01-01", periods=365, freq="D", tz=tz)
    g = np.random.default_rng(seed)
    doy = np.arange(365)
    return pd.Series(mean - amp * np.cos(2 * np.pi * (doy - 15) / 365) + g.normal(0, noise, 365), index=idx)


def gen_case(rng: random.Random):
    shape = rng.choice(SHAPES)
    p = dict(base=round(rng.uniform(5, 50), 3), hbp=round(rng.uniform(45, 58), 2), cbp=round(rng.uniform(64, 75), 2),
             hb_slope=round(rng.uniform(0.3, 3.0), 3) if shape in ("heating", "both") else 0.0,
             cb_slope=round(rng.uniform(0.3, 3.0), 3) if shape in ("cooling", "both") else 0.0)
    for _ in range(50):
        w = dict(mean=round(rng.uniform(44, 74), 2), amp=round(rng.uniform(12, 26), 2), noise=round(rng.uniform(3, 8), 2))
        seed = rng.randrange(1 << 20)
        T = weather(2018, "UTC", seed, **w).values
        T2 = weather(2019, "UTC", seed + 1, **w).values
        ok = all((not p["hb_slope"] or (T_ < p["hbp"]).sum() >= 31) and (not p["cb_slope"] or (T_ > p["cbp"]).sum() >= 31) for T_ in (T, T2))
        if ok:
            break
    return dict(shape=shape, params=p, weather=w, weather_seed=seed, tz=rng.choice(ZONES), year=rng.choice([2014, 2018, 2021]),
                noise_seed=rng.randrange(1 << 20), noise=rng.choice([0.0, 0.005, 0.01]), profile=rng.choice(["current", "current", "legacy"]))


def fit_and_measure(case, _model=None):
    """fit the case's building with the real DailyModel and measure the recovery.  `case["history"]`: buildings fitted and
    predicted with the SAME model object before this one (a portfolio loop re-using one object); `case["unit_scale"]`: the
    meter's unit (usage multiplied by a constant — the property is about usage relative to its mean)"""
    from opendsm.eemeter.models.daily.model import DailyModel
    from opendsm.eemeter.models.daily.data import DailyBaselineData, DailyReportingData
    p = case["params"]
    T1 = weather(case["year"], case["tz"], case["weather_seed"], **case["weather"])
    T2 = weather(case["year"] + 1, case["tz"], case["weather_seed"] + 1, **case["weather"])
    if case.get("other_year_amplitude"):
        # a harsher following year: colder winter and hotter summer than anything in the baseline (the curve extrapolates linearly)
        T2 = T2.mean() + (T2 - T2.mean()) * float(case["other_year_amplitude"])
    us = float(case.get("unit_scale", 1.0))
    g1, g2 = generator(T1.values, p) * us, generator(T2.values, p) * us
    eps = np.random.default_rng(case["noise_seed"]).uniform(-1, 1, len(g1)) * case["noise"]
    obs = g1 * (1 + eps)
    if case.get("billing"):
        return fit_and_measure_billing(case, T1, T2, g1, g2, obs)
    with contextlib.redirect_stdout(io.StringIO()), contextlib.redirect_stderr(io.StringIO()):
        base = DailyBaselineData(pd.DataFrame({"temperature": T1, "observed": obs}), is_electricity_data=True)
        m0 = _model
        if m0 is None:
            m0 = DailyModel(model="legacy") if case["profile"] == "legacy" else DailyModel()
            for h in case.get("history", []):
                fit_and_measure(dict(h, profile=case["profile"]), _model=m0)
        m = m0.fit(base, ignore_disqualification=True)
        p1 = m.predict(base, ignore_disqualification=True)
        p2 = m.predict(DailyReportingData(pd.DataFrame({"temperature": T2}), is_electricity_data=True), ignore_disqualification=True)
    out = dict(model_types={str(k): v.coefficients.model_type.value for k, v in m.params.submodels.items()})
    # per component of the chosen split: is each ACTIVE true balance point inside the component's optimiser box
    # [T_min_seg, T_max_seg] (the segment_minimum_count-th coldest / hottest day of that component)?
    nseg = int(m.settings.segment_minimum_count)
    comps = []
    for key in m.params.submodels:
        Tc = p1.loc[p1["model_split"] == key, "temperature"].to_numpy(dtype=float)
        Tc = Tc[np.isfinite(Tc)]
        if len(Tc) > 2 * nseg:
            lo, hi = float(np.partition(Tc, nseg)[nseg]), float(np.partition(Tc, -nseg)[-nseg])
        else:
            lo, hi = float("nan"), float("nan")
        Tc2 = p2.loc[p2["model_split"] == key, "temperature"].to_numpy(dtype=float) if "model_split" in p2 else np.array([])
        Tall = np.concatenate([Tc, Tc2[np.isfinite(Tc2)]])
        # ... and the regime beyond it is actually visited by that component's days (in the baseline or in the other weather year)
        outside = [name for name, bp, slope in (("heating", p["hbp"], p["hb_slope"]), ("cooling", p["cbp"], p["cb_slope"]))
                   if slope and not (lo <= bp <= hi) and bool(np.any(Tall < bp) if name == "heating" else np.any(Tall > bp))]
        comps.append(dict(component=str(key), days=int(len(Tc)), box=[lo, hi], true_balance_point_outside_box=outside))
    out["components"] = comps
    for name, pr, g in (("baseline", p1, g1), ("other_year", p2, g2)):
        f = pr["predicted"].to_numpy(dtype=float)
        out[f"nrmse_{name}"] = float(np.sqrt(np.mean((f - g) ** 2)) / np.mean(g))
        out[f"phantom_heating_{name}"] = float(np.nansum(pr["heating_load"].to_numpy(dtype=float)) / np.sum(g)) if p["hb_slope"] == 0 else 0.0
        out[f"phantom_cooling_{name}"] = float(np.nansum(pr["cooling_load"].to_numpy(dtype=float)) / np.sum(g)) if p["cb_slope"] == 0 else 0.0
        out[f"nan_{name}"] = int(np.isnan(f).sum())
    f1 = p1["predicted"].to_numpy(dtype=float)
    out["sse_fit"] = float(np.sum((obs - f1) ** 2))
    out["sse_truth"] = float(np.sum((obs - g1) ** 2))
    out["hypothesis_fit_explains_data_as_well_as_truth"] = bool(out["sse_fit"] <= out["sse_truth"] * (1 + 1e-9) + 1e-12)
    out["n_days"] = int(len(g1))
    out["rms_fit_minus_truth"] = float(np.sqrt(np.mean((f1 - g1) ** 2)))
    out["two_rms_noise"] = float(2 * np.sqrt(np.mean((obs - g1) ** 2)))
    return out


def fit_and_measure_billing(case, T1, T2, g1, g2, obs):
    """the same building metered MONTHLY: one read on the first of each local month (the sum of the month's days), hourly weather;
    BillingModel fitted on it, its daily predictions compared with the generating curve on the baseline days and on the other year"""
    from opendsm.eemeter.models.billing.model import BillingModel
    from opendsm.eemeter.models.billing.data import BillingBaselineData, BillingReportingData
    tz = case["tz"]
    o = pd.Series(obs, index=T1.index)
    starts = pd.date_range(T1.index[0].normalize(), periods=13, freq="MS", tz=tz)
    starts = starts[starts <= T1.index[-1] + pd.Timedelta(days=1)]
    vals = [float(o[(o.index >= a) & (o.index < b)].sum()) for a, b in zip(starts[:-1], starts[1:])] + [np.nan]
    meter = pd.Series(vals, index=starts, name="observed")
    with contextlib.redirect_stdout(io.StringIO()), contextlib.redirect_stderr(io.StringIO()):
        bd = BillingBaselineData.from_series(meter, T1.resample("h").ffill(), is_electricity_data=True)
        m = BillingModel().fit(bd, ignore_disqualification=True)
        p1 = m.predict(bd, ignore_disqualification=True)
        starts2 = pd.date_range(T2.index[0].normalize(), periods=13, freq="MS", tz=tz)
        starts2 = starts2[starts2 <= T2.index[-1] + pd.Timedelta(days=1)]
        rd = BillingReportingData.from_series(pd.Series([1.0] * (len(starts2) - 1) + [np.nan], index=starts2, name="observed"),
                                              T2.resample("h").ffill(), is_electricity_data=True)
        p2 = m.predict(rd, ignore_disqualification=True)
    out = dict(model_types={str(k): v.coefficients.model_type.value for k, v in m.params.submodels.items()}, components=[], billing=True)
    for name, pr, T, g in (("baseline", p1, T1, g1), ("other_year", p2, T2, g2)):
        j = pr.join(pd.Series(g, index=T.index, name="g"), how="inner")
        j = j[np.isfinite(j["g"]) & np.isfinite(j["predicted"].astype(float))]
        f, gg = j["predicted"].to_numpy(dtype=float), j["g"].to_numpy(dtype=float)
        out[f"nrmse_{name}"] = float(np.sqrt(np.mean((f - gg) ** 2)) / np.mean(gg)) if len(gg) else float("nan")
        p = case["params"]
        out[f"phantom_heating_{name}"] = float(np.nansum(j["heating_load"].to_numpy(dtype=float)) / np.sum(gg)) if p["hb_slope"] == 0 and len(gg) else 0.0
        out[f"phantom_cooling_{name}"] = float(np.nansum(j["cooling_load"].to_numpy(dtype=float)) / np.sum(gg)) if p["cb_slope"] == 0 and len(gg) else 0.0
        out[f"nan_{name}"] = 0 if len(gg) > 300 else 365 - len(gg)
    out.update(sse_fit=0.0, sse_truth=0.0, hypothesis_fit_explains_data_as_well_as_truth=False, n_days=int(len(g1)),
               rms_fit_minus_truth=0.0, two_rms_noise=0.0)
    return out


def explain(case, r):
    """C15-F1: the chosen split has a component in which a true, active balance point lies outside the optimiser's box (fewer than
    segment_minimum_count days of that component lie beyond it) — that component cannot represent the generator."""
    # C15-F3: the elastic-net penalty of the objective is dimensionless while the loss carries the meter's unit squared, so for
    # a meter in small units (mean daily usage well below 1) the penalty dominates and every slope is shrunk to zero.
    # Recognised from the INPUT alone: the generating curve's mean daily usage is below 1 unit.
    if float(case.get("unit_scale", 1.0)) * float(case["params"]["base"]) < 1.0:
        return "C15-F3"
    # C15-F4: monthly-billed buildings (recognised from the input alone: the case is metered monthly)
    if case.get("billing"):
        return "C15-F4"
    if any(c["true_balance_point_outside_box"] for c in r.get("components", [])):
        return "C15-F1"
    return None


def judge(case, r):
    fails = []
    for name in ("baseline", "other_year"):
        if r[f"nan_{name}"]:
            fails.append((f"predicts_every_day_{name}", dict(nan_days=r[f"nan_{name}"])))
        elif not r[f"nrmse_{name}"] <= 0.05:
            fails.append((f"nrmse_{name}_within_5pct", dict(nrmse=r[f"nrmse_{name}"], model_types=r["model_types"])))
        if r[f"phantom_heating_{name}"] > 0.05:
            fails.append((f"no_phantom_heating_{name}", dict(share=r[f"phantom_heating_{name}"], model_types=r["model_types"])))
        if r[f"phantom_cooling_{name}"] > 0.05:
            fails.append((f"no_phantom_cooling_{name}", dict(share=r[f"phantom_cooling_{name}"], model_types=r["model_types"])))
    # the theorem, on the real numbers: whenever its hypothesis holds its conclusion must
    # the hypothesis is evaluated with a slack delta on the SSE; the triangle inequality then gives 2*rms(noise) + sqrt(delta/n)
    delta = 1e-9 * r["sse_truth"] + 1e-12
    if r["hypothesis_fit_explains_data_as_well_as_truth"] and \
            r["rms_fit_minus_truth"] > (r["two_rms_noise"] + math.sqrt(delta / max(1, r.get("n_days", 365)))) * (1 + 1e-9) + 1e-9:
        fails.append(("theorem_C15_near_minimiser_recovers_on_real_numbers", dict(rms=r["rms_fit_minus_truth"], bound=r["two_rms_noise"])))
    return fails


# --------------------------------------------------------------------------- representable, on the real code and the model
def representable_cases(rng, n):
    out = []
    for _ in range(n):
        c = gen_case(rng)
        p = c["params"]
        shape = c["shape"]
        if shape == "both":
            coeffs = dict(model_type="hdd_tidd_cdd", intercept=p["base"], hdd_bp=p["hbp"], hdd_beta=p["hb_slope"], cdd_bp=p["cbp"], cdd_beta=p["cb_slope"])
        elif shape == "heating":
            coeffs = dict(model_type="hdd_tidd", intercept=p["base"], hdd_bp=p["hbp"], hdd_beta=-p["hb_slope"])
        elif shape == "cooling":
            coeffs = dict(model_type="tidd_cdd", intercept=p["base"], cdd_bp=p["cbp"], cdd_beta=p["cb_slope"])
        else:
            coeffs = dict(model_type="tidd", intercept=p["base"])
        tc = dict(T_min=5.0, T_max=100.0, T_min_seg=15.0, T_max_seg=90.0)
        Ts = sorted({round(rng.uniform(5, 100), 2) for _ in range(12)} | {p["hbp"], p["cbp"], 5.0, 100.0})
        out.append((c, dict(coefficients=coeffs, temperature_constraints=tc), Ts))
    return out


def run(ctx):
    warnings.filterwarnings("ignore")
    rng = random.Random(ctx["seed"] * 6700417 + 15)
    thorough = ctx["tier"] == "thorough"
    scale = ctx.get("budget_scale", 1)
    res = dict(evaluations=0, disagreements=[], oracle_failures=[], finding_instances={}, samples=[], hist={}, traces=0)
    sigs = set()

    # (a) representable
    from .c11 import _impl, submodel_line, compare_floats
    I = _impl()
    dm = I["DailyModel"]()
    lines, metas = [], []
    for c, rec, Ts in representable_cases(rng, 60 if not thorough else 600):
        sp = I["DSP"](coefficients=I["MC"](**rec["coefficients"]), temperature_constraints=rec["temperature_constraints"], f_unc=1.0)
        model, unc, hdd, cdd = dm._predict_submodel(sp, np.array(Ts))
        g = generator(np.array(Ts), c["params"])
        res["evaluations"] += 1
        if not np.allclose(model, g, rtol=1e-12, atol=1e-12):
            i = int(np.argmax(np.abs(model - g)))
            res["oracle_failures"].append(dict(case=dict(params=c["params"], shape=c["shape"]), clause="generator_is_representable",
                                               detail=dict(T=Ts[i], model=float(model[i]), generator=float(g[i]))))
        lines.append(submodel_line(rec, Ts))
        metas.append((rec, Ts, g))
        sigs.add(("representable", c["shape"]))
    if ctx.get("model_ok", True):
        outs = core.run_driver(lines)
        for out, (rec, Ts, g) in zip(outs, metas):
            res["traces"] += 1
            cells = out[3:].split(" ") if out.startswith("ok ") else []
            if len(cells) != len(Ts):
                res["disagreements"].append(dict(op="submodel", record=rec, model_out=out[:200]))
                continue
            for i, cell in enumerate(cells):
                mval = unhex(cell.split(",")[0]) if cell != "err" else float("nan")
                if not (abs(mval - g[i]) <= 1e-12 * max(1.0, abs(g[i]))):
                    res["disagreements"].append(dict(op="submodel-vs-generator", record=rec, T=Ts[i], lean=mval, generator=float(g[i])))
                    break

    # (b) recovery on real fits
    n_fits = int((8 if not thorough else 120) * scale)
    shapes_cycle = ["heating", "cooling", "both", "flat"]
    # corpus first: in-family buildings found by a survey of 240 single-slope fits on the clean tree whose fitted model
    # keeps a smoothing term (the rarer storage path); 3 in the quick tier, all in the thorough tier
    import json as _json, os as _os
    corpus = _json.load(open(_os.path.join(core.VERIF, "harness", "corpus", "c15.json")))
    corpus = corpus if (thorough or scale > 1) else corpus[:3]
    todo = [{k: v for k, v in c.items() if k != "why"} for c in corpus]
    # a building metered without any noise whose usage is perfectly constant: every residual is exactly zero (fixed defect C15-F2)
    todo.append(dict(shape="flat", params=dict(base=47.245, hbp=47.64, cbp=74.2, hb_slope=0.0, cb_slope=0.0),
                     weather=dict(mean=55.07, amp=24.58, noise=4.35), weather_seed=512612, tz="UTC", year=2014, noise_seed=30519,
                     noise=0.0, profile=rng.choice(["current", "legacy"])))
    for i in range(n_fits):
        for _ in range(100):
            case = gen_case(rng)
            if case["shape"] == shapes_cycle[i % 4]:
                break
        todo.append(case)
    # a portfolio loop: one model object fits and predicts another building first (its true curve is a different regime)
    for j, case in enumerate(list(todo[-min(len(todo), 3):])):
        other = dict(case, params=dict(case["params"], base=round(case["params"]["base"] * 2.5 + 3, 3),
                                       hb_slope=case["params"]["cb_slope"], cb_slope=case["params"]["hb_slope"]),
                     shape={"heating": "cooling", "cooling": "heating"}.get(case["shape"], case["shape"]))
        if case["shape"] == "flat":
            other = dict(other, shape="both", params=dict(other["params"], hb_slope=1.1, cb_slope=0.9))
        todo.append(dict(case, history=[{k: v for k, v in other.items() if k != "history"}]))
    # the same building metered in other units (MWh instead of kWh ...): recovery is relative to mean usage
    if todo:
        b = next((c for c in todo if c["shape"] == "both" and not c.get("history")), todo[0])
        for us in ((1e-3, 1e3) if not thorough else (1e-4, 1e-3, 1e-2, 1e2, 1e3, 1e5)):
            todo.append(dict({k: v for k, v in b.items() if k != "history"}, unit_scale=us))
    # a following year whose weather goes well beyond the baseline's range (single-slope buildings extrapolate along their line)
    for shp in ("heating", "cooling"):
        for _ in range(200):
            ch = gen_case(rng)
            if ch["shape"] == shp and ch["profile"] == ("legacy" if shp == "heating" else "current"):
                break
        todo.append(dict(ch, other_year_amplitude=1.4, noise=0.005))
    # the same kind of building metered monthly (BillingModel): a heating and a cooling one in the quick tier
    for shp in (("heating", "cooling") if not thorough else ("heating", "cooling", "both", "flat", "heating", "both")):
        for _ in range(200):
            cb = gen_case(rng)
            if cb["shape"] == shp:
                break
        todo.append(dict(cb, billing=True, profile="billing", noise=0.0))
    for case in todo:
        try:
            r = fit_and_measure(case)
        except Exception as e:  # noqa
            res["oracle_failures"].append(dict(case=case, clause="fit_runs", detail=dict(error=f"{type(e).__name__}: {e}"[:300])))
            continue
        res["evaluations"] += 1
        res["hist"][f"{case['shape']}:{case['profile']}"] = res["hist"].get(f"{case['shape']}:{case['profile']}", 0) + 1
        res["hist"]["hypothesis_holds" if r["hypothesis_fit_explains_data_as_well_as_truth"] else "hypothesis_fails"] = \
            res["hist"].get("hypothesis_holds" if r["hypothesis_fit_explains_data_as_well_as_truth"] else "hypothesis_fails", 0) + 1
        sigs.add((case["shape"], case["profile"], tuple(sorted(set(r["model_types"].values())))))
        fails = judge(case, r)
        fid = explain(case, r) if fails and all(c.startswith(("nrmse_", "no_phantom_")) for c, _ in fails) else None
        if any(c["true_balance_point_outside_box"] for c in r.get("components", [])):
            res["hist"]["split_component_with_true_bp_outside_its_box"] = res["hist"].get("split_component_with_true_bp_outside_its_box", 0) + 1
        if fid:
            d = res["finding_instances"].setdefault(fid, dict(count=0, example=None))
            d["count"] += 1
            d["example"] = d["example"] or dict(case=case, clause=fails[0][0], detail=fails[0][1],
                                                components=[c for c in r["components"] if c["true_balance_point_outside_box"]])
        elif fails:
            res["oracle_failures"].append(dict(case=case, clause=fails[0][0], detail=fails[0][1], measured=r, n_clauses_failed=len(fails)))
        if len(res["samples"]) < 4:
            res["samples"].append(dict(case=case, measured=r))
    res["distinct_nontrivial"] = len(sigs)
    res["rule"] = ("generating parameters drawn from the stated family (base 5-50, slopes 0.3-3, heating balance 45-58 F, cooling balance 64-75 F; "
                   "heating-only / cooling-only / both / flat in rotation), synthetic weather years with at least 31 days in each active regime, five "
                   "zones, noise 0 / 0.5 % / 1 % multiplicative, daily current and legacy profiles; each case is fitted with the real DailyModel and "
                   "predicted on the baseline and on the following weather year; distinct = (shape, profile, fitted model types)")
    return res


def replay_finding(entry):
    r = fit_and_measure(entry["witness"]["case"])
    return bool(judge(entry["witness"]["case"], r)) and explain(entry["witness"]["case"], r) == entry["id"]


def replay(obj):
    return judge(obj["case"], fit_and_measure(obj["case"]))


LEVEL_TEXT = ("PARTIAL. Lean 4 theorems over R: every generator of the stated family is the unsmoothed model curve with the generating parameters at "
              "every temperature (and the stored record predicts it, by C11's refinement), so zero residual is attainable; any fit that explains "
              "the data at least as well as the truth is within twice the noise of the truth in Euclidean norm (any normed space), and with "
              "relative noise <= eps within 2*eps of the generator's own RMS. NOT proved: that NLopt's DIRECT+SBPLX on the penalised adaptive "
              "loss reaches such a fit, split selection, and extrapolation to another weather year — measured on real fits by the oracle, "
              "together with the theorem's hypothesis.")
LEVEL_NOTE = ("The recovery bounds of the property (5 % NRMSE on both years, no phantom load above 5 %) are decided by sampling real fits over a grid, "
              "not by a theorem; the theorem isolates the single assumption (the fit explains the baseline at least as well as the truth) that the "
              "oracle measures and reports per case.")
TECHNIQUE = "Lean 4 proof (representability via the C11 refinement; near-minimiser bound in a normed space) + real-fit oracle over a parameter grid (partial)"
ASSUMPTIONS = ["the optimiser returns a fit whose SSE on the baseline is at most that of the generating curve (measured per case, reported in the evidence histogram)",
               "NRMSE / phantom-load bounds are sampled, not proved", "billing (monthly-read) buildings are exercised in the thorough tier of C12/C03 only"]
