#!/bin/bash
# Build the framework from files on disk only (offline). First build ≈ 2–5 min.
set -e
cd "$(dirname "$0")"
export OPENDSM_EEMETER_VERIF=1
mkdir -p evidence/replays .numba_cache
# T1: regenerate the generated Lean modules from /repo's working tree
PYTHONPATH="$PWD:${VERIF_REPO:-/repo}" /venv/bin/python -m harness.py2lean --repo "${VERIF_REPO:-/repo}" || true
cd lean
lake build
# self-test of the line protocol
printf 'safe_divide 3ff0000000000000 0000000000000000 3f50624dd2f1a9fc\n' | lake env lean --run Driver.lean | grep -q '^ok none$'
echo "setup ok"
