#!/venv/bin/python
"""Regenerate MANIFEST.json from the property modules registered in ./check."""
import importlib, json, os, re, sys
V = os.path.dirname(os.path.dirname(os.path.abspath(__file__)))
sys.path.insert(0, V)
src = open(os.path.join(V, "check")).read()
PROPS = dict(re.findall(r'"(C\d+)":\s*"([\w.]+)"', src))
props = [json.loads(l) for l in open(os.path.join(V, "properties.jsonl"))]
NA = json.load(open(os.path.join(V, "tools", "not_applicable.json")))
hooks = json.load(open(os.path.join(V, "tools", "hooks.json")))
checks = []
for pid in sorted(PROPS):
    m = importlib.import_module(PROPS[pid])
    checks.append({
        "property_id": pid, "quick_cmd": f"./check {pid} --tier quick", "thorough_cmd": f"./check {pid} --tier thorough",
        "evidence_file": f"evidence/{pid}.json", "replay_cmd_template": f"./check {pid} --replay {{path}}",
        "engine": "lean4-proof+correspondence",
        "level_claimed": {"category": "proof", "text": m.LEVEL_TEXT, "design_ref": getattr(m, "DESIGN_REF", "DESIGN.md §5")},
        "level_note": m.LEVEL_NOTE, "technique": m.TECHNIQUE})
na = [{"property_id": p["id"], "reason": NA.get(p["id"], "not yet built in this round (Lean model and theorems pending); see DESIGN.md §8")}
      for p in props if p["id"] not in PROPS]
man = {"version": 1, "setup_cmd": "./setup.sh", "hooks": hooks,
       "engines": [{"name": "lean4-proof+correspondence", "path": "check", "serves_properties": sorted(PROPS),
                    "kind_free_text": "Lean 4 theorems about a model regenerated from the source (py2lean) or hand-written, plus a differential line-protocol correspondence against the real code and the property oracle on the implementation"}],
       "checks": checks, "not_applicable": na,
       "notes": "Every check: T1 regeneration, lake build of the property's theorems, #print axioms audit, T2 correspondence, oracle on the implementation; a broken proof/tie triggers a failing-input search (DESIGN.md §2.5)."}
json.dump(man, open(os.path.join(V, "MANIFEST.json"), "w"), indent=1)
print("MANIFEST.json:", len(checks), "checks,", len(na), "not_applicable")
