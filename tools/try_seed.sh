#!/bin/bash
# usage: try_seed.sh <SEED-ID> [check-id] [tier] — apply seeded/<SEED-ID>/patch.diff to /repo, run the check of its property,
# undo the patch and regenerate Gen. Never run while a sweep or `vp run` is using /repo.
SID=$1; CID=${2:-${SID%%-*}}; TIER=${3:-quick}
cd "$(dirname "$0")/.."
if [ -n "$(git -C /repo status --porcelain)" ]; then echo "/repo not clean"; exit 2; fi
git -C /repo apply /verif/seeded/$SID/patch.diff || { echo "patch does not apply"; exit 2; }
s=$(date +%s)
VERIF_SEED=${VERIF_SEED:-0} ./check $CID --tier $TIER > /tmp/try_$SID.log 2>&1; rc=$?
git -C /repo checkout -- . ; git -C /repo clean -fdq -e '*.pyc' -e __pycache__ 2>/dev/null
PYTHONPATH="$PWD:/repo" /venv/bin/python -m harness.py2lean --repo /repo > /dev/null 2>&1
echo "$SID via $CID rc=$rc $(( $(date +%s) - s ))s"; grep '^VIOLATION' /tmp/try_$SID.log | head -5
