#!/bin/bash
# run the repository's baseline suite (guard OFF) in a tree (default /repo) and compare with BASELINE.json
T=${1:-/repo}
cd $T && env -u OPENDSM_EEMETER_VERIF /venv/bin/python -m pytest -q -p no:cacheprovider --timeout=900 --continue-on-collection-errors --junitxml=/tmp/baseline_run.xml > /tmp/baseline_run.txt 2>&1
tail -1 /tmp/baseline_run.txt
/venv/bin/python - <<PY
import json, xml.etree.ElementTree as ET
stable=set(json.load(open('/root/.vp/BASELINE.json'))['stable_pass'])
passed=set()
for tc in ET.parse('/tmp/baseline_run.xml').getroot().iter('testcase'):
    if not any(c.tag in ('failure','error','skipped') for c in tc):
        passed.add(tc.get('classname')+'::'+tc.get('name'))
print("stable tests passing:", len(stable&passed), "of", len(stable), "missing:", sorted(stable-passed)[:8], "newly passing:", len(passed-stable))
PY
