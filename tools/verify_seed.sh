#!/bin/bash
# usage: verify_seed.sh <ID> [worktree]   — confirm a seeded change: demo fails with / passes without the patch,
# and the 208 stable tests still pass with it. Uses a scratch worktree (created if absent), writes /tmp/seedverify_<ID>.txt
ID=$1; WT=${2:-/tmp/wt_$ID}; SEED=/verif/seeded/$ID; OUT=/tmp/seedverify_$ID.txt
set -u
if [ ! -d "$WT" ]; then git -C /repo worktree add -q --detach "$WT" HEAD; fi
cd "$WT"; git checkout -q -- . ; cp $SEED/demo.py $WT/demo_$ID.py
{
echo "== demo without patch"; PYTHONPATH=$WT timeout 1800 /venv/bin/python demo_$ID.py > /tmp/sv_$ID.a 2>&1; echo "exit=$?"; tail -2 /tmp/sv_$ID.a
git apply $SEED/patch.diff || echo "PATCH DOES NOT APPLY"
echo "== demo with patch"; PYTHONPATH=$WT timeout 1800 /venv/bin/python demo_$ID.py > /tmp/sv_$ID.b 2>&1; echo "exit=$?"; tail -3 /tmp/sv_$ID.b
echo "== test suite with patch"
/venv/bin/python -m pytest -q -p no:cacheprovider --timeout=900 --continue-on-collection-errors --junitxml=/tmp/sv_$ID.xml > /tmp/sv_$ID.t 2>&1; tail -1 /tmp/sv_$ID.t
/venv/bin/python - <<PY
import json, xml.etree.ElementTree as ET
stable=set(json.load(open('/root/.vp/BASELINE.json'))['stable_pass'])
passed=set()
for tc in ET.parse('/tmp/sv_$ID.xml').getroot().iter('testcase'):
    if not any(c.tag in ('failure','error','skipped') for c in tc):
        passed.add(tc.get('classname')+'::'+tc.get('name'))
missing=sorted(stable-passed)
print("stable tests passing:", len(stable&passed), "of", len(stable), "missing:", missing[:5])
PY
} > $OUT 2>&1
git checkout -q -- .
echo done >> $OUT
