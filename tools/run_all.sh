#!/bin/bash
# run every registered check (quick tier by default) and summarise; usage: tools/run_all.sh [quick|thorough] [seed]
cd "$(dirname "$0")/.."
TIER=${1:-quick}; SEED=${2:-0}; D=/tmp/run_all_$$; mkdir -p $D
for id in ${IDS:-C01 C02 C03 C04 C05 C06 C07 C08 C09 C10 C11 C12 C13 C14 C15 C16 C17 C18 C19 C20}; do
  s=$(date +%s)
  VERIF_SEED=$SEED ./check $id --tier $TIER > $D/$id.log 2>&1
  rc=$?
  echo "$id rc=$rc $(( $(date +%s) - s ))s $(grep -c '^VIOLATION' $D/$id.log) violations; $(grep -c '^KNOWN-FINDING' $D/$id.log) known; $(tail -1 $D/$id.log | cut -c1-160)"
done
echo "logs in $D"
