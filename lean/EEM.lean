-- This module serves as the root of the `EEM` library.
-- Import modules here that should be built as part of the library.
import EEM.Basic
