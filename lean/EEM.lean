-- Root of the `EEM` library: everything `lake build` should check.
import EEM.Carrier
import EEM.Proto
import EEM.Real
import EEM.Gen.DailyCurve
import EEM.Gen.SafeDivide
import EEM.Model.DailyCurve
import EEM.Spec.Curve
import EEM.Lemmas.Curve
import EEM.Bridge.Curve
import EEM.Props.C11
import EEM.Findings.C11
import EEM.Gen.CaltrackTables
import EEM.Model.Time
import EEM.Model.Caltrack
import EEM.Props.C18
