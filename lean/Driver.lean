/-
  Driver — line protocol: one operation per input line, one canonical output line per
  operation.  Run as `lake env lean --run Driver.lean < ops.txt`.  Imports no Mathlib.
-/
import EEM.Proto
import EEM.Model.DailyCurve
import EEM.Gen.SafeDivide

open EEM EEM.Proto EEM.Model

def parseModelType : String → Option ModelType
  | "hdd_tidd_cdd_smooth" => some .hdd_tidd_cdd_smooth
  | "hdd_tidd_cdd" => some .hdd_tidd_cdd
  | "hdd_tidd_smooth" => some .hdd_tidd_smooth
  | "hdd_tidd" => some .hdd_tidd
  | "tidd_cdd_smooth" => some .tidd_cdd_smooth
  | "tidd_cdd" => some .tidd_cdd
  | "tidd" => some .tidd
  | _ => none

/-- `submodel <type> <intercept> <hdd_bp> <hdd_beta> <hdd_k> <cdd_bp> <cdd_beta> <cdd_k>
     <T_min> <T_max> <T_min_seg> <T_max_seg> <T...>` -/
def opPredictSubmodel (args : List String) : String :=
  match args with
  | mt :: ic :: a :: b :: c :: d :: e :: f :: tmin :: tmax :: tmins :: tmaxs :: ts =>
    let r : Option String := do
      let mt ← parseModelType mt
      let ic ← parseFloat ic
      let a ← parseOptFloat a; let b ← parseOptFloat b; let c ← parseOptFloat c
      let d ← parseOptFloat d; let e ← parseOptFloat e; let f ← parseOptFloat f
      let s : Submodel Float := {
        coeffs := { model_type := mt, intercept := ic, hdd_bp := a, hdd_beta := b, hdd_k := c,
                    cdd_bp := d, cdd_beta := e, cdd_k := f },
        T_min := ← parseFloat tmin, T_max := ← parseFloat tmax,
        T_min_seg := ← parseFloat tmins, T_max_seg := ← parseFloat tmaxs, f_unc := 0.0 }
      let ts ← ts.mapM parseFloat
      let outs := ts.map fun t =>
        match predictSubmodel s t with
        | some p => s!"{showFloat p.model},{showFloat p.hdd_load},{showFloat p.cdd_load}"
        | none => "err"
      some (" ".intercalate outs)
    match r with
    | some s => "ok " ++ s
    | none => "bad-op"
  | _ => "bad-op"

def showList (l : Option (List Float)) : String :=
  match l with
  | some l => "ok " ++ " ".intercalate (l.map showFloat)
  | none => "ok err"

def parseKey : String → Option Gen.ModelKey
  | "hdd_tidd_cdd_smooth" => some .hdd_tidd_cdd_smooth
  | "hdd_tidd_cdd" => some .hdd_tidd_cdd
  | "c_hdd_tidd_smooth" => some .c_hdd_tidd_smooth
  | "c_hdd_tidd" => some .c_hdd_tidd
  | "tidd" => some .tidd
  | _ => none

/-- `full_model <7 floats> <T_min> <T_max> <T...>`: the generated kernel on a raw 7-vector -/
def opFullModel (args : List String) : String :=
  match args.mapM parseFloat with
  | some (a :: b :: c :: d :: e :: f :: g :: tmin :: tmax :: ts) =>
    "ok " ++ " ".intercalate (ts.map fun t =>
      match Gen.full_model_elem a b c d e f g [tmin, tmax] t with
      | some v => showFloat v
      | none => "err")
  | _ => "bad-op"

/-- `gfx <key> <T_min> <T_max> <T_min_seg> <T_max_seg> <x...>` -/
def opGfx (args : List String) : String :=
  match args with
  | k :: rest =>
    match parseKey k, rest.mapM parseFloat with
    | some k, some (tmin :: tmax :: tmins :: tmaxs :: x) =>
      showList (Gen.get_full_model_x k x tmin tmax tmins tmaxs)
    | _, _ => "bad-op"
  | _ => "bad-op"

def opFix (args : List String) : String :=
  match args.mapM parseFloat with
  | some (tmin :: tmax :: x) => showList (Gen.fix_full_model_x x tmin tmax)
  | _ => "bad-op"

def opSmooth (args : List String) : String :=
  match args.mapM parseFloat with
  | some [a, b, c, d] => showList (some (Gen.get_smooth_coeffs a b c d))
  | _ => "bad-op"

def opSafeDivide (args : List String) : String :=
  match args.mapM parseFloat with
  | some [a, b, c] =>
    match Gen.safe_divide a b c with
    | some v => "ok " ++ showFloat v
    | none => "ok none"
  | _ => "bad-op"

def step (line : String) : String :=
  match words line with
  | "submodel" :: args => opPredictSubmodel args
  | "safe_divide" :: args => opSafeDivide args
  | "full_model" :: args => opFullModel args
  | "gfx" :: args => opGfx args
  | "fix" :: args => opFix args
  | "smooth" :: args => opSmooth args
  | _ => "bad-op"

partial def loop (h : IO.FS.Stream) (out : IO.FS.Stream) : IO Unit := do
  let line ← h.getLine
  if line.isEmpty then return ()
  out.putStrLn (step (line.trimAscii.toString))
  loop h out

def main : IO Unit := do
  let out ← IO.getStdout
  loop (← IO.getStdin) out
  out.flush
