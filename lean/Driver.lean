/-
  Driver — line protocol: one operation per input line, one canonical output line per
  operation.  Run as `lake env lean --run Driver.lean < ops.txt`.  Imports no Mathlib.
-/
import EEM.Proto
import EEM.Model.DailyCurve
import EEM.Gen.SafeDivide
import EEM.Model.Caltrack
import EEM.Model.Splits
import EEM.Gen.SplitCandidates
import EEM.Model.Window
import EEM.Model.BillingAgg
import EEM.Model.PredictFrame
import EEM.Model.Metrics
import EEM.Model.CaltrackMetrics
import EEM.Gen.MetricFormulas
import EEM.Gen.BillingAggTable
import EEM.Model.SettingsTree
import EEM.Gen.SettingsTables
import EEM.Model.Gate
import EEM.Gen.Guards
import EEM.Model.Dst
import EEM.Model.DstSrc
import EEM.Model.Serial
import EEM.Model.History
import EEM.Model.HourlyPrep
import EEM.Model.Refine
import EEM.Model.Resample
import EEM.Model.ResampleMin
import EEM.Model.TempAgg
import EEM.Model.Sufficiency
import EEM.Model.Nondet

open EEM EEM.Proto EEM.Model

def parseModelType : String → Option ModelType
  | "hdd_tidd_cdd_smooth" => some .hdd_tidd_cdd_smooth
  | "hdd_tidd_cdd" => some .hdd_tidd_cdd
  | "hdd_tidd_smooth" => some .hdd_tidd_smooth
  | "hdd_tidd" => some .hdd_tidd
  | "tidd_cdd_smooth" => some .tidd_cdd_smooth
  | "tidd_cdd" => some .tidd_cdd
  | "tidd" => some .tidd
  | _ => none

/-- `submodel <type> <intercept> <hdd_bp> <hdd_beta> <hdd_k> <cdd_bp> <cdd_beta> <cdd_k>
     <T_min> <T_max> <T_min_seg> <T_max_seg> <T...>` -/
def opPredictSubmodel (args : List String) : String :=
  match args with
  | mt :: ic :: a :: b :: c :: d :: e :: f :: tmin :: tmax :: tmins :: tmaxs :: ts =>
    let r : Option String := do
      let mt ← parseModelType mt
      let ic ← parseFloat ic
      let a ← parseOptFloat a; let b ← parseOptFloat b; let c ← parseOptFloat c
      let d ← parseOptFloat d; let e ← parseOptFloat e; let f ← parseOptFloat f
      let s : Submodel Float := {
        coeffs := { model_type := mt, intercept := ic, hdd_bp := a, hdd_beta := b, hdd_k := c,
                    cdd_bp := d, cdd_beta := e, cdd_k := f },
        T_min := ← parseFloat tmin, T_max := ← parseFloat tmax,
        T_min_seg := ← parseFloat tmins, T_max_seg := ← parseFloat tmaxs, f_unc := 0.0 }
      let ts ← ts.mapM parseFloat
      let outs := ts.map fun t =>
        match predictSubmodel s t with
        | some p => s!"{showFloat p.model},{showFloat p.hdd_load},{showFloat p.cdd_load}"
        | none => "err"
      some (" ".intercalate outs)
    match r with
    | some s => "ok " ++ s
    | none => "bad-op"
  | _ => "bad-op"

def showList (l : Option (List Float)) : String :=
  match l with
  | some l => "ok " ++ " ".intercalate (l.map showFloat)
  | none => "ok err"

def parseKey : String → Option Gen.ModelKey
  | "hdd_tidd_cdd_smooth" => some .hdd_tidd_cdd_smooth
  | "hdd_tidd_cdd" => some .hdd_tidd_cdd
  | "c_hdd_tidd_smooth" => some .c_hdd_tidd_smooth
  | "c_hdd_tidd" => some .c_hdd_tidd
  | "tidd" => some .tidd
  | _ => none

/-- `full_model <7 floats> <T_min> <T_max> <T...>`: the generated kernel on a raw 7-vector -/
def opFullModel (args : List String) : String :=
  match args.mapM parseFloat with
  | some (a :: b :: c :: d :: e :: f :: g :: tmin :: tmax :: ts) =>
    "ok " ++ " ".intercalate (ts.map fun t =>
      match Gen.full_model_elem a b c d e f g [tmin, tmax] t with
      | some v => showFloat v
      | none => "err")
  | _ => "bad-op"

/-- `gfx <key> <T_min> <T_max> <T_min_seg> <T_max_seg> <x...>` -/
def opGfx (args : List String) : String :=
  match args with
  | k :: rest =>
    match parseKey k, rest.mapM parseFloat with
    | some k, some (tmin :: tmax :: tmins :: tmaxs :: x) =>
      showList (Gen.get_full_model_x k x tmin tmax tmins tmaxs)
    | _, _ => "bad-op"
  | _ => "bad-op"

def opFix (args : List String) : String :=
  match args.mapM parseFloat with
  | some (tmin :: tmax :: x) => showList (Gen.fix_full_model_x x tmin tmax)
  | _ => "bad-op"

def opSmooth (args : List String) : String :=
  match args.mapM parseFloat with
  | some [a, b, c, d] => showList (some (Gen.get_smooth_coeffs a b c d))
  | _ => "bad-op"

def opSafeDivide (args : List String) : String :=
  match args.mapM parseFloat with
  | some [a, b, c] =>
    match Gen.safe_divide a b c with
    | some v => "ok " ++ showFloat v
    | none => "ok none"
  | _ => "bad-op"

/-- `segrow <type> <localSecs>`: the segmentation row of that instant -/
def opSegRow (args : List String) : String :=
  match args with
  | [ty, t] =>
    match Model.Caltrack.tableOf ty, parseInt t with
    | some tbl, some t =>
      let m := (Time.monthOf t).toNat
      "ok " ++ " ".intercalate ((Model.Caltrack.weightsAt tbl m).map fun (n, w) => s!"{n}:{w}")
    | none, some _ => "ok ValueError"
    | _, _ => "bad-op"
  | _ => "bad-op"

/-- `contribs <localSecs> <ALL | name,name,...>` -/
def opContribs (args : List String) : String :=
  match args with
  | [t, f] =>
    match parseInt t with
    | some t =>
      let fitted := if f == "ALL" then Model.Caltrack.allFitted else if f == "NONE" then [] else f.splitOn ","
      let m := (Time.monthOf t).toNat
      "ok " ++ " ".intercalate ((Model.Caltrack.predictContribs fitted m).map fun (n, w) => s!"{n}:{w}")
    | none => "bad-op"
  | _ => "bad-op"

/-- `bins <T> <e...>` -/
def opBins (args : List String) : String :=
  match args.mapM parseFloat with
  | some (t :: es) => showList (some (Model.Caltrack.binFeatures t es))
  | _ => "bad-op"

/-- `occbins <0|1|n> <T> <n_occ> <e_occ...> <e_unocc...>`: occupied then unoccupied features -/
def opOccBins (args : List String) : String :=
  match args with
  | o :: t :: n :: es =>
    match parseFloat t, parseNat n, es.mapM parseFloat with
    | some t, some n, some es =>
      let occ : Option Bool := if o == "1" then some true else if o == "0" then some false else none
      let fo := Model.Caltrack.occupiedFeatures occ (Model.Caltrack.binFeatures t (es.take n))
      let fu := Model.Caltrack.unoccupiedFeatures occ (Model.Caltrack.binFeatures t (es.drop n))
      showList (some (fo ++ fu))
    | _, _, _ => "bad-op"
  | _ => "bad-op"

/-- `how <localSecs>` -> hour of week, month, weekday, hour -/
def opHow (args : List String) : String :=
  match args.mapM parseInt with
  | some [t] => s!"ok {Model.Caltrack.hourOfWeek t} {Time.monthOf t} {Time.weekday (Time.dayOf t)} {Time.hourOf t} {Time.yearOf t} {Time.domOf t}"
  | _ => "bad-op"

open EEM.Model.Splits in
def showComponent (c : Component) : String :=
  let p := match c.pre with | .fw => "fw" | .wd => "wd" | .we => "we"
  let ss := c.seasons.map fun | .su => "su" | .sh => "sh" | .wi => "wi"
  p ++ "-" ++ "_".intercalate ss

/-- `parse <combo>` -/
def opParse (args : List String) : String :=
  match args with
  | [s] => match Model.Splits.parseCombo s with
    | some c => "ok " ++ " ".intercalate (c.map showComponent)
    | none => "ok KeyError"
  | _ => "bad-op"

def parseBool01 : String → Option Bool
  | "0" => some false | "1" => some true | _ => none

/-- `trim <su> <sh> <wi> <wdwe> <n_su> <n_sh> <n_wi> <we_su> <we_sh> <we_wi>`: trimmed generated candidates -/
def opTrim (args : List String) : String :=
  match args with
  | [a, b, c, d, n1, n2, n3, w1, w2, w3] =>
    match parseBool01 a, parseBool01 b, parseBool01 c, parseBool01 d, [n1, n2, n3, w1, w2, w3].mapM parseNat with
    | some a, some b, some c, some d, some [n1, n2, n3, w1, w2, w3] =>
      let cnt : Model.Splits.Counts :=
        { season := fun | .su => n1 | .sh => n2 | .wi => n3, weekend := fun | .su => w1 | .sh => w2 | .wi => w3 }
      "ok " ++ " ".intercalate (Model.Splits.trim { su := a, sh := b, wi := c, wdwe := d } cnt Gen.Splits.candidates)
    | _, _, _, _, _ => "bad-op"
  | _ => "bad-op"

/-- `route <combo> <7 labels, comma separated> <season string> <dow>` -/
def opRoute (args : List String) : String :=
  match args with
  | [combo, wmap, season, dow] =>
    match Model.Splits.parseCombo combo, parseNat dow with
    | some c, some dow =>
      "ok " ++ " ".intercalate ((Model.Splits.segmentsOf (wmap.splitOn ",") c season dow).map showComponent)
    | none, _ => "ok KeyError"
    | _, _ => "bad-op"
  | _ => "bad-op"

/-- `best <name> <crit> <name> <crit> ...` -/
def opBest (args : List String) : String :=
  let rec pairs : List String → Option (List (String × Float))
    | [] => some []
    | n :: v :: rest => do let f ← parseFloat v; let r ← pairs rest; pure ((n, f) :: r)
    | _ => none
  match pairs args with
  | some ps =>
    let crit := fun n => (ps.lookup n).getD (0.0 / 0.0)
    match Model.Splits.best crit (ps.map (·.1)) with
    | some b => "ok " ++ b
    | none => "ok None"
  | none => "bad-op"

def parseOptInt (s : String) : Option (Option Int) :=
  if s == "-" then some none else (parseInt s).map some

def parseRow (s : String) : Option (Model.Window.Row String) :=
  match s.splitOn ":" with
  | [t, v] => (parseInt t).map fun t => (t, if v == "-" then none else some v)
  | _ => none

def showWindow (r : Except Model.Window.Err (List (Model.Window.Row String) × List Model.Window.Warn)) : String :=
  match r with
  | .error .valueError => "err ValueError"
  | .error .noBaselineData => "err NoBaselineDataError"
  | .error .noReportingData => "err NoReportingDataError"
  | .ok (rows, ws) =>
    "ok " ++ " ".intercalate (rows.map fun (t, v) => s!"{t}:{v.getD "-"}") ++ " |" ++
      String.join (ws.map fun | .gapAtEnd => " gap_at_end" | .gapAtStart => " gap_at_start")

/-- `baseline <start> <end> <max_days> <overshoot> <n_days> <ignore_gap> <t:v>...` (`-` = None) -/
def opBaseline (args : List String) : String :=
  match args with
  | st :: en :: md :: ov :: nd :: ig :: rows =>
    match parseOptInt st, parseOptInt en, parseOptInt md, parseBool01 ov, parseOptInt nd, parseBool01 ig, rows.mapM parseRow with
    | some st, some en, some md, some ov, some nd, some ig, some rows =>
      showWindow (Model.Window.getBaselineData
        { start := st, «end» := en, maxDays := md, allowOvershoot := ov, nDaysOvershoot := nd, ignoreGap := ig } rows)
    | _, _, _, _, _, _, _ => "bad-op"
  | _ => "bad-op"

/-- `reporting <start> <end> <max_days> <overshoot> <ignore_gap> <t:v>...` -/
def opReporting (args : List String) : String :=
  match args with
  | st :: en :: md :: ov :: ig :: rows =>
    match parseOptInt st, parseOptInt en, parseOptInt md, parseBool01 ov, parseBool01 ig, rows.mapM parseRow with
    | some st, some en, some md, some ov, some ig, some rows =>
      showWindow (Model.Window.getReportingData
        { start := st, «end» := en, maxDays := md, allowOvershoot := ov, ignoreGap := ig } rows)
    | _, _, _, _, _, _ => "bad-op"
  | _ => "bad-op"

/-- hex-encoded ASCII string -/
def parseHexString (s : String) : Option String :=
  let cs := s.toList
  let rec go : List Char → Option (List Char)
    | [] => some []
    | a :: b :: rest => do
      let x ← hexDigit a; let y ← hexDigit b
      let r ← go rest
      pure (Char.ofNat (x * 16 + y) :: r)
    | _ => none
  (go cs).map String.ofList

def parseNanFloat (s : String) : Option (Option Float) :=
  if s == "-" then some none else (parseFloat s).map some

def showOptFloat : Option Float → String
  | some f => showFloat f
  | none => "nan"

/-- `agg <k> <ym temp obs pred unc heat cool>...` (7 tokens per row, `-` = NaN) -/
def opAgg (args : List String) : String :=
  match args with
  | k :: rest =>
    let rec rows : List String → Option (List (Model.BillingAgg.DRow Float))
      | [] => some []
      | ym :: a :: b :: c :: d :: e :: f :: more => do
        let ym ← parseInt ym
        let a ← parseNanFloat a; let b ← parseNanFloat b; let c ← parseNanFloat c
        let d ← parseNanFloat d; let e ← parseNanFloat e; let f ← parseNanFloat f
        let r ← rows more
        pure ({ ym := ym, temperature := a, observed := b, predicted := c, unc := d, heating := e, cooling := f } :: r)
      | _ => none
    match parseInt k, rows rest with
    | some k, some rs =>
      "ok " ++ " ".intercalate ((Model.BillingAgg.aggregate k rs).map fun p =>
        s!"{p.ym}:{showOptFloat p.temperature},{showFloat p.observed},{showFloat p.predicted},{showFloat p.unc},{showFloat p.heating},{showFloat p.cooling}")
    | _, _ => "bad-op"
  | _ => "bad-op"

/-- `parseagg <hex string | ->` -/
def opParseAgg (args : List String) : String :=
  match args with
  | [a] =>
    let arg : Option (Option String) := if a == "-" then some none else (parseHexString a).map some
    match arg with
    | some arg => match Model.BillingAgg.parseAgg arg with
      | some .none => "ok none"
      | some .monthly => "ok monthly"
      | some .bimonthly => "ok bimonthly"
      | none => "ok ValueError"
    | none => "bad-op"
  | _ => "bad-op"

open EEM.Model.BillingAgg EEM.Gen.BillingAggTable in
/-- `srcagg <billing|weighted> <hex string | ->`: the if-chain on `aggregation` as re-extracted from the source -/
def opSrcAgg (args : List String) : String :=
  match args with
  | [cls, a] =>
    let arg : Option (Option String) := if a == "-" then some none else (parseHexString a).map some
    let chain := if cls == "weighted" then weightedArgChain else billingArgChain
    match arg with
    | some arg => match evalChain chain arg with
      | .noAgg => "ok noAgg"
      | .rule r => "ok rule:" ++ r
      | .reject => "ok reject"
      | .crash => "ok crash"
      | .fallThrough => "ok fallThrough"
    | none => "bad-op"
  | _ => "bad-op"

open EEM.Model.PredictFrame in
def parseCell (s : String) : Option (Cell Float) :=
  if s == "n" then some .nan else if s == "i" then some .inf else (parseFloat s).map .fin

open EEM.Model.PredictFrame in
def showCell : Cell Float → String
  | .nan => "n" | .inf => "i" | .fin v => showFloat v

open EEM.Model.PredictFrame in
/-- `pframe <noOp|nonFinite|nanOnly> <hasObs 0/1> <combo> <7 weekday labels> <t season dow T obs>...`;
prediction value of segment `s` is rendered as the segment name -/
def opPFrame (args : List String) : String :=
  match args with
  | mode :: ho :: combo :: wmap :: rest =>
    let rec rows : List String → Option (List (InRow Float))
      | [] => some []
      | t :: se :: dw :: tc :: oc :: more => do
        let t ← parseInt t; let dw ← parseNat dw; let tc ← parseCell tc; let oc ← parseCell oc
        let r ← rows more
        pure ({ t := t, season := se, dow := dw, temperature := tc, observed := oc } :: r)
      | _ => none
    let mode : Option MaskMode := match mode with
      | "noOp" => some .noOp | "nonFinite" => some .nonFinite | "nanOnly" => some .nanOnly | _ => none
    match mode, parseBool01 ho, Model.Splits.parseCombo combo, rows rest with
    | some mode, some ho, some c, some rs =>
      let wl := wmap.splitOn ","
      let route := fun (r : InRow Float) => (Model.Splits.segmentsOf wl c r.season r.dow).map showComponent
      let out := predictFrame mode ho route (fun s (_ : Float) => s) rs
      "ok " ++ " ".intercalate (out.map fun o =>
        s!"{o.t}:{showCell o.temperature}:{if ho then showCell o.observed else "x"}:{o.predicted.getD "-"}")
    | _, _, _, _ => "bad-op"
  | _ => "bad-op"

def parseFin (s : String) : Option (Option Float) :=
  if s == "x" then some none else (parseFloat s).map some

def showOptF : Option Float → String
  | some f => showFloat f
  | none => "none"

open EEM.Model.Metrics in
open EEM.Gen in
/-- `metrics <num_params> <obs pred>...` (`x` = not finite) -/
def opMetrics (args : List String) : String :=
  match args with
  | k :: rest =>
    let rec rows : List String → Option (List (Option Float × Option Float))
      | [] => some []
      | a :: b :: more => do
        let a ← parseFin a; let b ← parseFin b; let r ← rows more
        pure ((a, b) :: r)
      | _ => none
    match parseNat k, rows rest with
    | some k, some rs =>
      let ps := finitePairs rs
      if ps.isEmpty then "ok empty" else
      "ok " ++ " ".intercalate [
        s!"n={ps.length}", s!"ddof={ddof ps k}", s!"sse={showFloat (sse ps)}", s!"mse={showFloat (mse ps)}",
        s!"rmse={showFloat (rmse ps)}", s!"rmse_adj={showFloat (rmseAdj ps k)}", s!"mae={showFloat (mae ps)}",
        s!"mbe={showFloat (mbe ps)}", s!"mean_obs={showFloat (mean (obs ps))}", s!"var_obs={showFloat (variance (obs ps))}",
        s!"r_squared={showFloat (rSquared ps)}",
        s!"iqr={showFloat (iqr (obs ps))}", s!"cvrmse={showOptF (cvrmse ps)}", s!"cvrmse_adj={showOptF (cvrmseAdj ps k)}",
        s!"pnrmse={showOptF (pnrmse ps)}", s!"pnrmse_adj={showOptF (pnrmseAdj ps k)}", s!"nmae={showOptF (nmae ps)}",
        s!"nmbe={showOptF (nmbe ps)}", s!"autocorr={showFloat (autocorr1 ps)}", s!"savings={showFloat (savings ps)}",
        -- the SOURCE's formula chain (EEM.Gen.MetricFormulas, regenerated) on the model's base quantities
        s!"src_n_prime={showFloat (MetricFormulas.n_prime (baseOf ps k))}", s!"src_ddof={showFloat (MetricFormulas.ddof (baseOf ps k))}",
        s!"src_ddof_autocorr={showFloat (MetricFormulas.ddof_autocorr (baseOf ps k))}", s!"src_mse={showFloat (MetricFormulas.mse (baseOf ps k))}",
        s!"src_rmse={showFloat (MetricFormulas.rmse (baseOf ps k))}", s!"src_rmse_adj={showFloat (MetricFormulas.rmse_adj (baseOf ps k))}",
        s!"src_rmse_autocorr_adj={showFloat (MetricFormulas.rmse_autocorr_adj (baseOf ps k))}",
        s!"src_cvrmse={showOptF (MetricFormulas.cvrmse (baseOf ps k))}", s!"src_cvrmse_adj={showOptF (MetricFormulas.cvrmse_adj (baseOf ps k))}",
        s!"src_cvrmse_autocorr_adj={showOptF (MetricFormulas.cvrmse_autocorr_adj (baseOf ps k))}",
        s!"src_pnrmse={showOptF (MetricFormulas.pnrmse (baseOf ps k))}", s!"src_pnrmse_adj={showOptF (MetricFormulas.pnrmse_adj (baseOf ps k))}",
        s!"src_pnrmse_autocorr_adj={showOptF (MetricFormulas.pnrmse_autocorr_adj (baseOf ps k))}",
        s!"src_nmae={showOptF (MetricFormulas.nmae (baseOf ps k))}", s!"src_pnmae={showOptF (MetricFormulas.pnmae (baseOf ps k))}",
        s!"src_nmbe={showOptF (MetricFormulas.nmbe (baseOf ps k))}", s!"src_pnmbe={showOptF (MetricFormulas.pnmbe (baseOf ps k))}",
        s!"src_r_squared_adj={showOptF (MetricFormulas.r_squared_adj (baseOf ps k))}"]
    | _, _ => "bad-op"
  | _ => "bad-op"

/-- `ctmetrics <k> <o p>...`: the CalTRACK-hourly `ModelMetrics` of two series on one index (`nan` = missing) -/
def opCtMetrics (args : List String) : String :=
  match args with
  | k :: rest =>
    let rec rows : List String → Option (List (Option Float × Option Float))
      | [] => some []
      | a :: b :: more => do
        let a ← parseFin a; let b ← parseFin b; let r ← rows more
        pure ((a, b) :: r)
      | _ => none
    match parseNat k, rows rest with
    | some k, some rs =>
      let ps := EEM.Model.CaltrackMetrics.merged rs
      if ps.isEmpty then "ok empty" else
      "ok " ++ " ".intercalate [
        s!"observed_length={EEM.Model.CaltrackMetrics.observedLength rs}", s!"predicted_length={EEM.Model.CaltrackMetrics.predictedLength rs}",
        s!"merged_length={ps.length}", s!"rmse={showFloat (EEM.Model.CaltrackMetrics.rmse ps)}",
        s!"rmse_adj={showOptF (EEM.Model.CaltrackMetrics.rmseAdj ps k)}", s!"cvrmse={showFloat (EEM.Model.CaltrackMetrics.cvrmse ps)}",
        s!"cvrmse_adj={showOptF (EEM.Model.CaltrackMetrics.cvrmseAdj ps k)}", s!"nmae={showFloat (EEM.Model.CaltrackMetrics.nmae ps)}",
        s!"nmbe={showFloat (EEM.Model.CaltrackMetrics.nmbe ps)}", s!"r_squared={showFloat (EEM.Model.CaltrackMetrics.rSquared ps)}",
        s!"autocorr_resid={showFloat (EEM.Model.CaltrackMetrics.autocorr1 ps)}", s!"n_prime={showFloat (EEM.Model.CaltrackMetrics.nPrime rs)}"]
    | _, _ => "bad-op"
  | _ => "bad-op"

/-- `hgate <cv|none> <pn|none> <cv_thr> <pn_thr>` and `dgate <cvrmse> <thr>` -/
def opHGate (args : List String) : String :=
  match args with
  | [cv, pn, a, b] =>
    let po := fun (s : String) => if s == "none" then some none else (parseFloat s).map some
    match po cv, po pn, parseFloat a, parseFloat b with
    | some cv, some pn, some a, some b => if Model.Metrics.hourlyFitAcceptable cv pn a b then "ok acceptable" else "ok disqualified"
    | _, _, _, _ => "bad-op"
  | _ => "bad-op"

def opDGate (args : List String) : String :=
  match args.mapM parseFloat with
  | some [c, t] => if Model.Metrics.dailyDisqualified c t then "ok disqualified" else "ok acceptable"
  | _ => "bad-op"

open EEM.Model.Settings in
/-- `lock <daily|legacy|billing> <developer_mode 0/1> <hexpath=hexvalue>...`: path segments are
separated by `.` after decoding and key-normalised by the model; value is the canonical text -/
def opLock (args : List String) : String :=
  match args with
  | fam :: dm :: kvs =>
    let tree : Option Tree := match fam with
      | "daily" => some Gen.Settings.daily | "legacy" => some Gen.Settings.legacy
      | "billing" => some Gen.Settings.billing | _ => none
    let ovs : Option (List (List String × String)) := kvs.mapM fun kv =>
      match kv.splitOn "=" with
      | [k, v] => do
        let k ← parseHexString k; let v ← parseHexString v
        pure ((k.splitOn ".").map normKey, v)
      | _ => none
    match tree, parseBool01 dm, ovs with
    | some t, some dm, some ovs =>
      let cfg := ovs.foldl (fun c (p, v) => setPath c p v) (defaultCfg t)
      if accepts t cfg dm then "ok accept" else "ok reject"
    | _, _, _ => "bad-op"
  | _ => "bad-op"

open EEM.Model.Gate in
/-- `gate <method> <fitted dataDq modelDq ignore rightType tzEqual featuresMissing ghiRequiredMissing>` (0/1 each) -/
def opGate (args : List String) : String :=
  match args with
  | m :: bits =>
    let gs : Option (List (Cond × Exc)) := match m with
      | "dailyFit" => some Gen.Guards.dailyFit | "dailyPredict" => some Gen.Guards.dailyPredict
      | "billingPredict" => some Gen.Guards.billingPredict | "hourlyFit" => some Gen.Guards.hourlyFit
      | "hourlyPredict" => some Gen.Guards.hourlyPredict | "caltrackPredict" => some Gen.Guards.caltrackPredict
      | _ => none
    match gs, bits.mapM parseBool01 with
    | some gs, some [a, b, c, d, e, f, g, h] =>
      match evalGuards gs ⟨a, b, c, d, e, f, g, h⟩ with
      | none => "ok none"
      | some .typeError => "ok TypeError" | some .runtimeError => "ok RuntimeError"
      | some .valueError => "ok ValueError" | some .dataSufficiencyError => "ok DataSufficiencyError"
      | some .disqualifiedModelError => "ok DisqualifiedModelError"
    | _, _ => "bad-op"
  | _ => "bad-op"

open EEM.Model.Dst in
/-- `dst <nDays> <counted:h,h,...> × nDays <pred...>`: day ops and the transformed flat prediction -/
def opDst (args : List String) : String :=
  match args with
  | n :: rest =>
    match parseNat n with
    | some n =>
      let days := rest.take n
      let preds := rest.drop n
      let parseDay := fun (d : String) => match d.splitOn ":" with
        | [c, hs] => do
          let c ← parseNat c
          let hs ← (if hs == "" then some [] else (hs.splitOn ",").mapM parseNat)
          pure (hs, c)
        | _ => none
      match days.mapM parseDay, preds.mapM parseFloat with
      | some ds, some ps =>
        match ds.mapM (fun (hs, c) => dayOp hs c) with
        | .error _ => "err ValueError"
        | .ok ops =>
          let showOp := fun | DayOp.none => "n" | .interp h => s!"i{h}" | .mean h => s!"m{h}"
          -- third field: the literal transcription of the source's algorithm on the index lists `_get_dst_indices` returns
          let src := match EEM.Model.DstSrc.transformDstSrc ps (EEM.Model.DstSrc.interpOf ops) (EEM.Model.DstSrc.meanOf ops) with
            | some out => " ".intercalate (out.map showFloat)
            | none => "raise"
          "ok " ++ " ".intercalate (ops.map showOp) ++ " | " ++ " ".intercalate ((transformDst ops ps).map showFloat)
            ++ " | " ++ src
      | _, _ => "bad-op"
    | none => "bad-op"
  | _ => "bad-op"

/-- `dstsrc <interp d:h,d:h,...|-> <mean d:h,...|-> <pred...>`: the literal transcription of `_transform_dst` on arbitrary
index lists (function-level correspondence with the real `_transform_dst`) -/
def opDstSrc (args : List String) : String :=
  match args with
  | i :: m :: preds =>
    let parsePairs := fun (t : String) =>
      if t == "-" then some ([] : List (Nat × Nat)) else
        (t.splitOn ",").mapM fun (x : String) => match x.splitOn ":" with
          | [d, h] => do pure ((← parseNat d), (← parseNat h))
          | _ => none
    match parsePairs i, parsePairs m, preds.mapM parseFloat with
    | some i, some m, some ps =>
      match EEM.Model.DstSrc.transformDstSrc ps i m with
      | some out => "ok " ++ " ".intercalate (out.map showFloat)
      | none => "raise"
    | _, _, _ => "bad-op"
  | _ => "bad-op"

open EEM.Model.Serial in
partial def showJ : J Float → String
  | .null => "null"
  | .str s => "\"" ++ s ++ "\""
  | .num x => "\"" ++ showFloat x ++ "\""
  | .obj fs => "{" ++ ", ".intercalate (fs.map fun (k, v) => "\"" ++ k ++ "\": " ++ showJ v) ++ "}"

/-- `doc <type> <intercept> <6 optional> <T_min T_max T_min_seg T_max_seg> <f_unc>`: the document after
toDoc → JSON → fromDoc → toDoc (numbers as quoted bit patterns) -/
def opDoc (args : List String) : String :=
  match args with
  | [mt, ic, a, b, c, d, e, f, tmin, tmax, tmins, tmaxs, fu] =>
    let r : Option String := do
      let mt ← parseModelType mt
      let ic ← parseFloat ic
      let a ← parseOptFloat a; let b ← parseOptFloat b; let c ← parseOptFloat c
      let d ← parseOptFloat d; let e ← parseOptFloat e; let f ← parseOptFloat f
      let s : Submodel Float := {
        coeffs := { model_type := mt, intercept := ic, hdd_bp := a, hdd_beta := b, hdd_k := c,
                    cdd_bp := d, cdd_beta := e, cdd_k := f },
        T_min := ← parseFloat tmin, T_max := ← parseFloat tmax,
        T_min_seg := ← parseFloat tmins, T_max_seg := ← parseFloat tmaxs, f_unc := ← parseFloat fu }
      let s' ← Model.Serial.submodelFromDoc (Model.Serial.dumpsLoads (Model.Serial.submodelToDoc s))
      some (showJ (Model.Serial.submodelToDoc s'))
    match r with
    | some s => "ok " ++ s
    | none => "bad-op"
  | _ => "bad-op"

open EEM.Model.History in
/-- `clusters <keep|assignBack> <m.d.c,m.d.c,...> <m.d;m.d;...> ...`: the table after each predict -/
def opClusters (args : List String) : String :=
  match args with
  | mode :: tbl :: steps =>
    let mode : Option Mode := match mode with | "keep" => some .keep | "assignBack" => some .assignBack | _ => none
    let p3 := fun (x : String) => match x.splitOn "." with
      | [a, b, c] => do pure ((← parseNat a, ← parseNat b), ← parseNat c)
      | _ => none
    let p2 := fun (x : String) => match x.splitOn "." with
      | [a, b] => do pure (← parseNat a, ← parseNat b)
      | _ => none
    match mode, (tbl.splitOn ",").mapM p3, steps.mapM (fun st => (st.splitOn ";").mapM p2) with
    | some mode, some t, some steps =>
      let showT := fun (t : Table) => ",".intercalate (t.map fun ((a, b), c) => s!"{a}.{b}.{c}")
      let rec go (t : Table) : List (List (Nat × Nat)) → List String
        | [] => []
        | p :: rest => let t' := (predictStep mode t p).2; showT t' :: go t' rest
      "ok " ++ " | ".intercalate (go t steps)
    | _, _, _ => "bad-op"
  | _ => "bad-op"

open EEM.Model.HourlyPrep in
/-- `hprep <electric 0/1> <first> <last> <t:v>...` (input order; `-` = NaN): per output row
F = filled and flagged, P = supplied and present, M = missing -/
def opHPrep (args : List String) : String :=
  match args with
  | el :: first :: last :: rows =>
    let pr := fun (x : String) => match x.splitOn ":" with
      | [t, v] => do
        let t ← parseInt t
        let v ← (if v == "-" then some none else (parseFloat v).map some)
        pure (t, v)
      | _ => none
    match parseBool01 el, parseInt first, parseInt last, rows.mapM pr with
    | some el, some first, some last, some rows =>
      let rows := dedupe rows
      let idx := hourlyRange first last
      let col := reindex rows idx
      let col := if el then zeroToMissing (fun (v : Float) => v == 0.0) col else col
      let out := interpolateCol [] (fun _ => none) col
      let fl := flags col out
      "ok " ++ String.ofList ((fl.zip out).map fun (f, o) => if f then 'F' else if o.isSome then 'P' else 'M')
    | _, _, _, _ => "bad-op"
  | _ => "bad-op"

def showModelType : ModelType → String
  | .hdd_tidd_cdd_smooth => "hdd_tidd_cdd_smooth"
  | .hdd_tidd_cdd => "hdd_tidd_cdd"
  | .hdd_tidd_smooth => "hdd_tidd_smooth"
  | .hdd_tidd => "hdd_tidd"
  | .tidd_cdd_smooth => "tidd_cdd_smooth"
  | .tidd_cdd => "tidd_cdd"
  | .tidd => "tidd"

def showOF : Option Float → String
  | some v => showFloat v
  | none => "none"

/-- `refine <key> <T_min> <T_max> <T_min_seg> <T_max_seg> <raw x...>`: `OptimizedResult._refine_model`
(`get_full_model_x` then `reduce_model`) then `ModelCoefficients.from_np_arrays`; prints the coef-id
key, the reduced vector and the stored record -/
def opRefine (args : List String) : String :=
  match args with
  | k :: rest =>
    match parseKey k, rest.mapM parseFloat with
    | some k, some (tmin :: tmax :: tmins :: tmaxs :: raw) =>
      match Gen.get_full_model_x k raw tmin tmax tmins tmaxs with
      | some [hb, bh, pkh, cb, bc, pkc, c] =>
        match Model.Refine.reduceModel 3 hb bh pkh cb bc pkc c tmins tmaxs k with
        | none => "ok err"
        | some (ids, x) =>
          match Model.Refine.fromNpArrays ids x with
          | none => "ok err"
          | some r =>
            s!"ok {repr ids.key} {",".intercalate (x.map showFloat)} {showModelType r.model_type} {showFloat r.intercept} {showOF r.hdd_bp} {showOF r.hdd_beta} {showOF r.hdd_k} {showOF r.cdd_bp} {showOF r.cdd_beta} {showOF r.cdd_k}"
      | _ => "ok err"
    | _, _ => "bad-op"
  | _ => "bad-op"

/-- `getk <T_min_seg> <T_max_seg> <hb pkh cb pkc>` -/
def opGetK (args : List String) : String :=
  match args.mapM parseFloat with
  | some [tmins, tmaxs, hb, pkh, cb, pkc] => showList (Model.Refine.getK hb pkh cb pkc tmins tmaxs)
  | _ => "bad-op"

def parseRat (s : String) : Option Rat :=
  match s.splitOn "/" with
  | [n] => n.toInt?.map fun n => (n : Rat)
  | [n, d] => do
    let n ← n.toInt?
    let d ← d.toNat?
    if d = 0 then none else some ((n : Rat) / (d : Rat))
  | _ => none

def parseReading (s : String) : Option (Int × Option Rat) :=
  match s.splitOn ":" with
  | [t, "nan"] => t.toInt?.map fun t => (t, none)
  | [t, v] => do some (← t.toInt?, some (← parseRat v))
  | _ => none

def parseReadingW (s : String) : Option (Int × Int × Option Rat) :=
  match s.splitOn ":" with
  | [t, w, "nan"] => do some (← t.toInt?, ← w.toInt?, none)
  | [t, w, v] => do some (← t.toInt?, ← w.toInt?, some (← parseRat v))
  | _ => none

def showRat (r : Rat) : String := s!"{r.num}/{r.den}"

/-- `resample <billing_monthly|billing_bimonthly|subdaily> <b0,b1,...> <t:num/den|t:nan ...>` -/
def opResample (args : List String) : String :=
  match args with
  | mode :: bounds :: reads =>
    match (bounds.splitOn ",").mapM String.toInt? with
    | some bs =>
      let out : Option (List (Option Rat)) :=
        match mode with
        | "billing_monthly" => (reads.mapM parseReadingW).map fun rs => Model.Resample.billingDaily .monthly rs bs
        | "billing_bimonthly" => (reads.mapM parseReadingW).map fun rs => Model.Resample.billingDaily .bimonthly rs bs
        | "subdaily" => (reads.mapM parseReading).map fun rs => Model.Resample.subDaily rs bs
        -- the same pipeline computed minute by minute, as `as_freq` does (EEM.Model.ResampleMin)
        | "subdaily_min" => (reads.mapM parseReading).map fun rs => Model.ResampleMin.subDailyMin rs bs
        | _ => none
      match out with
      | some l => "ok " ++ " ".intercalate (l.map fun | some r => showRat r | none => "none")
      | none => "bad-op"
    | _ => "bad-op"
  | _ => "bad-op"

/-- `tempagg <hourly|inst_divided|inst> <b0,b1,...> <t:num/den|t:nan ...>` -/
def opTempAgg (args : List String) : String :=
  match args with
  | mode :: bounds :: reads =>
    match (bounds.splitOn ",").mapM String.toInt?, reads.mapM parseReading with
    | some bs, some rs =>
      let showO : Option Rat → String := fun | some r => showRat r | none => "none"
      match mode with
      | "hourly" => "ok " ++ " ".intercalate ((Model.TempAgg.hourlyDaily bs rs).map fun a =>
          s!"{a.notNull},{a.null},{showO a.temp}")
      | "hourly_billing" => "ok " ++ " ".intercalate ((Model.TempAgg.hourlyDailyBilling bs rs).map fun a =>
          s!"{a.notNull},{a.null},{showO a.temp}")
      | "inst_divided" => "ok " ++ " ".intercalate ((Model.TempAgg.instDaily true rs bs).map showO)
      | "inst" => "ok " ++ " ".intercalate ((Model.TempAgg.instDaily false rs bs).map showO)
      -- the same on the minute grid, as `as_freq(..., "instantaneous")` computes it (EEM.Model.ResampleMin)
      | "inst_min" => "ok " ++ " ".intercalate ((Model.ResampleMin.instDailyMin rs bs).map showO)
      | _ => "bad-op"
    | _, _ => "bad-op"
  | _ => "bad-op"

def parseSuffRow (s : String) : Option Model.Sufficiency.Row :=
  match s.splitOn "," with
  | [t, m, op, on, tp, tc, g, c] => do
    let b : String → Option Bool := fun | "1" => some true | "0" => some false | _ => none
    let ghi ← (if g == "-" then some none else (b g).map some)
    some { t := ← t.toInt?, month := ← m.toNat?, obsPresent := ← b op, obsNegative := ← b on, tempPresent := ← b tp,
           tempCovOK := ← b tc, ghi := ghi, complete := ← b c }
  | _ => none

def showDQ : Model.Sufficiency.DQ → String
  | .no_data => "no_data" | .negative_meter_values => "negative_meter_values"
  | .incorrect_number_of_total_days => "incorrect_number_of_total_days"
  | .too_many_days_with_missing_data => "too_many_days_with_missing_data"
  | .too_many_days_with_missing_meter_data => "too_many_days_with_missing_meter_data"
  | .too_many_days_with_missing_temperature_data => "too_many_days_with_missing_temperature_data"
  | .missing_monthly_temperature_data => "missing_monthly_temperature_data"
  | .missing_monthly_meter_data => "missing_monthly_meter_data"
  | .missing_monthly_ghi_data => "missing_monthly_ghi_data"

/-- `suff <daily|billing|hourly> <method reporting 0/1> <is_reporting_data flag 0/1> <electric 0/1> <row ...>` -/
def opSuff (args : List String) : String :=
  match args with
  | fam :: meth :: rep :: el :: rows =>
    let fam? : Option Model.Sufficiency.Family := match fam with
      | "daily" => some .daily | "billing" => some .billing | "hourly" => some .hourly | _ => none
    match fam?, rows.mapM parseSuffRow with
    | some f, some rs =>
      let cfg : Model.Sufficiency.Cfg := { family := f, methodReporting := meth == "1", reporting := rep == "1", electric := el == "1" }
      let v := Model.Sufficiency.verdict cfg rs
      let nd := match Model.Sufficiency.nDaysTotal rs with | some n => toString n | none => "none"
      s!"ok n_days_total={nd} " ++ " ".intercalate (v.map showDQ)
    | _, _ => "bad-op"
  | _ => "bad-op"

/-- `seed <none|n> <global draw>`: `BaseHourlySettings._check_seed` -/
def opSeed (args : List String) : String :=
  match args with
  | [s, g] =>
    match (if s == "none" then some none else s.toNat?.map some), g.toNat? with
    | some sd, some g => s!"ok {Model.Nondet.effectiveSeed sd g}"
    | _, _ => "bad-op"
  | _ => "bad-op"

/-- `scored <key> <T_min> <T_max> <n raw> <raw...> <T...>`: what the objective scored, per temperature -/
def opScored (args : List String) : String :=
  match args with
  | k :: tmin :: tmax :: n :: rest =>
    match parseKey k, parseFloat tmin, parseFloat tmax, n.toNat?, rest.mapM parseFloat with
    | some k, some tmin, some tmax, some n, some xs =>
      let raw := xs.take n
      "ok " ++ " ".intercalate ((xs.drop n).map fun t =>
        match Model.Refine.scored k raw tmin tmax t with
        | some v => showFloat v
        | none => "err")
    | _, _, _, _, _ => "bad-op"
  | _ => "bad-op"

def step (line : String) : String :=
  match words line with
  | "submodel" :: args => opPredictSubmodel args
  | "safe_divide" :: args => opSafeDivide args
  | "full_model" :: args => opFullModel args
  | "gfx" :: args => opGfx args
  | "fix" :: args => opFix args
  | "smooth" :: args => opSmooth args
  | "refine" :: args => opRefine args
  | "scored" :: args => opScored args
  | "resample" :: args => opResample args
  | "tempagg" :: args => opTempAgg args
  | "suff" :: args => opSuff args
  | "seed" :: args => opSeed args
  | "getk" :: args => opGetK args
  | "segrow" :: args => opSegRow args
  | "contribs" :: args => opContribs args
  | "bins" :: args => opBins args
  | "occbins" :: args => opOccBins args
  | "how" :: args => opHow args
  | "parse" :: args => opParse args
  | "trim" :: args => opTrim args
  | "route" :: args => opRoute args
  | "best" :: args => opBest args
  | "baseline" :: args => opBaseline args
  | "reporting" :: args => opReporting args
  | "agg" :: args => opAgg args
  | "srcagg" :: args => opSrcAgg args
  | "parseagg" :: args => opParseAgg args
  | "pframe" :: args => opPFrame args
  | "metrics" :: args => opMetrics args
  | "ctmetrics" :: args => opCtMetrics args
  | "hgate" :: args => opHGate args
  | "dgate" :: args => opDGate args
  | "lock" :: args => opLock args
  | "gate" :: args => opGate args
  | "dst" :: args => opDst args
  | "dstsrc" :: args => opDstSrc args
  | "doc" :: args => opDoc args
  | "clusters" :: args => opClusters args
  | "hprep" :: args => opHPrep args
  | _ => "bad-op"

partial def loop (h : IO.FS.Stream) (out : IO.FS.Stream) : IO Unit := do
  let line ← h.getLine
  if line.isEmpty then return ()
  out.putStrLn (step (line.trimAscii.toString))
  loop h out

def main : IO Unit := do
  let out ← IO.getStdout
  loop (← IO.getStdin) out
  out.flush
