/-
  EEM.Proto — line protocol helpers shared by the driver.  Floats travel as 16-hex-digit
  IEEE-754 bit patterns so that nothing is lost in printing.  Core Lean only.
-/
namespace EEM.Proto

def hexDigit (c : Char) : Option Nat :=
  if '0' ≤ c ∧ c ≤ '9' then some (c.toNat - '0'.toNat)
  else if 'a' ≤ c ∧ c ≤ 'f' then some (c.toNat - 'a'.toNat + 10)
  else if 'A' ≤ c ∧ c ≤ 'F' then some (c.toNat - 'A'.toNat + 10)
  else none

def parseHex (s : String) : Option Nat :=
  if s.isEmpty then none else
  s.foldl (fun acc c => do let a ← acc; let d ← hexDigit c; pure (a * 16 + d)) (some 0)

def parseFloat (s : String) : Option Float := do
  let n ← parseHex s
  if s.length == 16 then some (Float.ofBits (UInt64.ofNat n)) else none

/-- `-` is Python `None` -/
def parseOptFloat (s : String) : Option (Option Float) :=
  if s == "-" then some none else (parseFloat s).map some

def hexChar (n : Nat) : Char :=
  if n < 10 then Char.ofNat ('0'.toNat + n) else Char.ofNat ('a'.toNat + n - 10)

def toHex16 (n : Nat) : String := Id.run do
  let mut s := ""
  for i in [0:16] do
    s := s.push (hexChar ((n >>> (4 * (15 - i))) % 16))
  return s

/-- canonical NaN so that NaN = NaN in the diff -/
def showFloat (f : Float) : String :=
  if f.isNaN then "nan" else toHex16 f.toBits.toNat

def parseInt (s : String) : Option Int := s.toInt?
def parseNat (s : String) : Option Nat := s.toNat?

def words (line : String) : List String :=
  (line.splitOn " ").filter (· ≠ "")

end EEM.Proto
