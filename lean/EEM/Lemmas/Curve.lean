/-
  EEM.Lemmas.Curve — helper lemmas about Spec.curve (analytic core: 1 + u ≤ exp u).
-/
import EEM.Spec.Curve
import Mathlib.Topology.Algebra.Order.Field
import Mathlib.Analysis.SpecialFunctions.Exp

namespace EEM.Spec
open Real

section clip
variable {L U : ℝ}

theorem clipR_zero (hL : L ≤ 0) (hU : 0 ≤ U) : clipR L U 0 = 0 := by
  simp [clipR, max_eq_left hL, min_eq_left hU]

theorem clipR_of_nonpos (hL : L ≤ 0) (hU : 0 ≤ U) {u : ℝ} (hu : u ≤ 0) :
    clipR L U u = max u L := by
  unfold clipR
  exact min_eq_left (le_trans (max_le hu hL) hU)

theorem clipR_mono (u v : ℝ) (h : u ≤ v) : clipR L U u ≤ clipR L U v := by
  unfold clipR
  exact min_le_min (max_le_max h le_rfl) le_rfl

theorem continuous_clipR : Continuous (clipR L U) := by
  unfold clipR
  fun_prop
end clip

/-- `exp b − exp a ≤ b − a` for `a ≤ b ≤ 0` (mean value, via `1 + u ≤ exp u`). -/
theorem exp_sub_exp_le {a b : ℝ} (hab : a ≤ b) (hb : b ≤ 0) : exp b - exp a ≤ b - a := by
  have h1 : a - b + 1 ≤ exp (a - b) := add_one_le_exp (a - b)
  have h2 : exp a = exp b * exp (a - b) := by rw [← exp_add]; ring_nf
  have h3 : 0 < exp b := exp_pos b
  have h4 : exp b ≤ 1 := exp_le_one_iff.mpr hb
  have h5 : exp b * (a - b + 1) ≤ exp a := by rw [h2]; exact mul_le_mul_of_nonneg_left h1 h3.le
  nlinarith

/-- `g u = exp (max u L) − 1 − u` is non-negative for `u ≤ 0`. -/
theorem g_nonneg {L : ℝ} (u : ℝ) : 0 ≤ exp (max u L) - 1 - u := by
  have := add_one_le_exp (max u L)
  have := le_max_left u L
  linarith

/-- and antitone on `u ≤ 0` when `L ≤ 0`. -/
theorem g_antitone {L : ℝ} (hL : L ≤ 0) {u v : ℝ} (huv : u ≤ v) (hv : v ≤ 0) :
    exp (max v L) - 1 - v ≤ exp (max u L) - 1 - u := by
  have hm : max u L ≤ max v L := max_le_max huv le_rfl
  have hm0 : max v L ≤ 0 := max_le hv hL
  have h := exp_sub_exp_le hm hm0
  have h2 : max v L - max u L ≤ v - u := by
    rcases le_total u L with h1 | h1 <;> rcases le_total v L with h3 | h3 <;>
      simp [max_eq_left, max_eq_right, h1, h3] <;> linarith
  linarith

end EEM.Spec

namespace EEM.Spec
open Real

section regimes
variable {L U : ℝ} (hL : L ≤ 0) (hU : 0 ≤ U) (x : X)
include hL hU

/-- at or above the heating balance point there is no heating term -/
theorem heat_of_ge (hk : 0 ≤ x.kh) {T : ℝ} (hT : x.hb ≤ T) : heat L U x T = 0 := by
  unfold heat
  have h1 : 0 ≤ (T - x.hb) / x.kh := div_nonneg (by linarith) hk
  rw [min_eq_right h1, clipR_zero hL hU, max_eq_right (by linarith)]
  simp

/-- below it, smoothed: `βh·kh·g(u)` with `u = (T − hb)/kh`, `g u = exp(max u L) − 1 − u` -/
theorem heat_of_le_smooth (hk : 0 < x.kh) {T : ℝ} (hT : T ≤ x.hb) :
    heat L U x T = x.βh * x.kh * (exp (max ((T - x.hb) / x.kh) L) - 1 - (T - x.hb) / x.kh) := by
  unfold heat
  have h1 : (T - x.hb) / x.kh ≤ 0 := div_nonpos_of_nonpos_of_nonneg (by linarith) hk.le
  rw [min_eq_left h1, clipR_of_nonpos hL hU h1, max_eq_left (by linarith : (0:ℝ) ≤ x.hb - T)]
  have : x.kh * ((T - x.hb) / x.kh) = T - x.hb := by field_simp
  linear_combination x.βh * this

/-- below it, unsmoothed: the hinge -/
theorem heat_of_le_unsmooth (hk : x.kh = 0) {T : ℝ} (hT : T ≤ x.hb) :
    heat L U x T = x.βh * (x.hb - T) := by
  unfold heat
  rw [hk, max_eq_left (by linarith : (0:ℝ) ≤ x.hb - T)]
  simp

theorem heat_nonneg (hβ : 0 ≤ x.βh) (hk : 0 ≤ x.kh) (T : ℝ) : 0 ≤ heat L U x T := by
  rcases le_total x.hb T with h | h
  · rw [heat_of_ge hL hU x hk h]
  · rcases hk.lt_or_eq with hk' | hk'
    · rw [heat_of_le_smooth hL hU x hk' h]
      exact mul_nonneg (mul_nonneg hβ hk) (g_nonneg _)
    · rw [heat_of_le_unsmooth hL hU x hk'.symm h]
      exact mul_nonneg hβ (by linarith)

theorem heat_antitone (hβ : 0 ≤ x.βh) (hk : 0 ≤ x.kh) : Antitone (heat L U x) := by
  intro T₁ T₂ h12
  rcases le_total x.hb T₂ with h2 | h2
  · rw [heat_of_ge hL hU x hk h2]; exact heat_nonneg hL hU x hβ hk T₁
  · have h1 : T₁ ≤ x.hb := le_trans h12 h2
    rcases hk.lt_or_eq with hk' | hk'
    · rw [heat_of_le_smooth hL hU x hk' h1, heat_of_le_smooth hL hU x hk' h2]
      apply mul_le_mul_of_nonneg_left _ (mul_nonneg hβ hk)
      apply g_antitone hL
      · exact div_le_div_of_nonneg_right (by linarith) hk'.le
      · exact div_nonpos_of_nonpos_of_nonneg (by linarith) hk'.le
    · rw [heat_of_le_unsmooth hL hU x hk'.symm h1, heat_of_le_unsmooth hL hU x hk'.symm h2]
      exact mul_le_mul_of_nonneg_left (by linarith) hβ

theorem cool_of_le (hk : 0 ≤ x.kc) {T : ℝ} (hT : T ≤ x.cb) : cool L U x T = 0 := by
  unfold cool
  have h1 : 0 ≤ (x.cb - T) / x.kc := div_nonneg (by linarith) hk
  rw [min_eq_right h1, clipR_zero hL hU, max_eq_right (by linarith)]
  simp

theorem cool_of_ge_smooth (hk : 0 < x.kc) {T : ℝ} (hT : x.cb ≤ T) :
    cool L U x T = x.βc * x.kc * (exp (max ((x.cb - T) / x.kc) L) - 1 - (x.cb - T) / x.kc) := by
  unfold cool
  have h1 : (x.cb - T) / x.kc ≤ 0 := div_nonpos_of_nonpos_of_nonneg (by linarith) hk.le
  rw [min_eq_left h1, clipR_of_nonpos hL hU h1, max_eq_left (by linarith : (0:ℝ) ≤ T - x.cb)]
  have : x.kc * ((x.cb - T) / x.kc) = x.cb - T := by field_simp
  linear_combination x.βc * this

theorem cool_of_ge_unsmooth (hk : x.kc = 0) {T : ℝ} (hT : x.cb ≤ T) :
    cool L U x T = x.βc * (T - x.cb) := by
  unfold cool
  rw [hk, max_eq_left (by linarith : (0:ℝ) ≤ T - x.cb)]
  simp

theorem cool_nonneg (hβ : 0 ≤ x.βc) (hk : 0 ≤ x.kc) (T : ℝ) : 0 ≤ cool L U x T := by
  rcases le_total T x.cb with h | h
  · rw [cool_of_le hL hU x hk h]
  · rcases hk.lt_or_eq with hk' | hk'
    · rw [cool_of_ge_smooth hL hU x hk' h]
      exact mul_nonneg (mul_nonneg hβ hk) (g_nonneg _)
    · rw [cool_of_ge_unsmooth hL hU x hk'.symm h]
      exact mul_nonneg hβ (by linarith)

theorem cool_monotone (hβ : 0 ≤ x.βc) (hk : 0 ≤ x.kc) : Monotone (cool L U x) := by
  intro T₁ T₂ h12
  rcases le_total T₁ x.cb with h1 | h1
  · rw [cool_of_le hL hU x hk h1]; exact cool_nonneg hL hU x hβ hk T₂
  · have h2 : x.cb ≤ T₂ := le_trans h1 h12
    rcases hk.lt_or_eq with hk' | hk'
    · rw [cool_of_ge_smooth hL hU x hk' h1, cool_of_ge_smooth hL hU x hk' h2]
      apply mul_le_mul_of_nonneg_left _ (mul_nonneg hβ hk)
      apply g_antitone hL
      · exact div_le_div_of_nonneg_right (by linarith) hk'.le
      · exact div_nonpos_of_nonpos_of_nonneg (by linarith) hk'.le
    · rw [cool_of_ge_unsmooth hL hU x hk'.symm h1, cool_of_ge_unsmooth hL hU x hk'.symm h2]
      exact mul_le_mul_of_nonneg_left (by linarith) hβ

end regimes

theorem continuous_heat {L U : ℝ} (x : X) : Continuous (heat L U x) := by
  unfold heat
  have := @continuous_clipR L U
  fun_prop

theorem continuous_cool {L U : ℝ} (x : X) : Continuous (cool L U x) := by
  unfold cool
  have := @continuous_clipR L U
  fun_prop

end EEM.Spec
