/-
  EEM.Props.C04 — PROPERTY THEOREMS ONLY.
  C04: the disqualification gate is fail-closed and survives storage.

  The guard sequences in `EEM.Gen.Guards` are re-extracted from the source of every fit()/predict()
  on every run (every top-level `if <test>: raise <Exc>`, in order; the extractor fails on a
  condition it does not understand).  Each statement is closed over ALL 2⁸ valuations of the atoms.
-/
import EEM.Model.Gate
import EEM.Gen.Guards
import EEM.Gen.Footprint

namespace EEM.Props.C04
open EEM.Model.Gate EEM.Gen.Guards

/-- `allEnvs` really is every valuation -/
theorem mem_allEnvs (e : Env) : e ∈ allEnvs := by
  obtain ⟨a, b, c, d, f, g, h, i⟩ := e
  cases a <;> cases b <;> cases c <;> cases d <;> cases f <;> cases g <;> cases h <;> cases i <;> decide

/-- the property's reading of fit() on well-formed data -/
def fitSpec (e : Env) : Option Exc :=
  if e.dataDq && !e.ignore then some .dataSufficiencyError else none

/-- the property's reading of when predict() must raise -/
def predictMustRaise (e : Env) : Bool :=
  !e.fitted || (e.modelDq && !e.ignore) || !e.rightType || !e.tzEqual

/-- **fit gate** (daily and billing share DailyModel.fit; hourly): on well-formed baseline data of the
right type, fit raises DataSufficiencyError exactly when the data is disqualified and the override
is not given, and otherwise proceeds to fitting -/
theorem C04_fit_gate (e : Env) (ht : e.rightType = true) (hg : e.ghiRequiredMissing = false) :
    evalGuards dailyFit e = fitSpec e ∧ evalGuards hourlyFit e = fitSpec e := by
  have key : ∀ e ∈ allEnvs, e.rightType = true → e.ghiRequiredMissing = false →
      evalGuards dailyFit e = fitSpec e ∧ evalGuards hourlyFit e = fitSpec e := by decide +kernel
  exact key e (mem_allEnvs e) ht hg

/-- a foreign baseline object is rejected before anything else -/
theorem C04_fit_rejects_foreign_type (e : Env) (ht : e.rightType = false) :
    evalGuards dailyFit e = some .typeError ∧ evalGuards hourlyFit e = some .typeError := by
  have key : ∀ e ∈ allEnvs, e.rightType = false →
      evalGuards dailyFit e = some .typeError ∧ evalGuards hourlyFit e = some .typeError := by decide +kernel
  exact key e (mem_allEnvs e) ht

/-- **predict raises rather than predicts** exactly for an unfitted model, a disqualified model
without the override, a foreign data type, or a timezone different from the baseline's —
daily, billing and (with all features present) hourly -/
theorem C04_predict_raises_iff (e : Env) :
    ((evalGuards dailyPredict e).isSome = predictMustRaise e)
      ∧ ((evalGuards billingPredict e).isSome = predictMustRaise e)
      ∧ (e.featuresMissing = false → (evalGuards hourlyPredict e).isSome = predictMustRaise e) := by
  have key : ∀ e ∈ allEnvs, ((evalGuards dailyPredict e).isSome = predictMustRaise e)
      ∧ ((evalGuards billingPredict e).isSome = predictMustRaise e)
      ∧ (e.featuresMissing = false → (evalGuards hourlyPredict e).isSome = predictMustRaise e) := by decide +kernel
  exact key e (mem_allEnvs e)

/-- **DisqualifiedModelError exactly when** the (fitted) model carries a disqualification and the
override is not given, for data of the right type and timezone -/
theorem C04_predict_dq_exactly (e : Env) (hf : e.fitted = true) (ht : e.rightType = true)
    (hz : e.tzEqual = true) (hm : e.featuresMissing = false) :
    (evalGuards dailyPredict e = some .disqualifiedModelError ↔ (e.modelDq = true ∧ e.ignore = false))
      ∧ (evalGuards billingPredict e = some .disqualifiedModelError ↔ (e.modelDq = true ∧ e.ignore = false))
      ∧ (evalGuards hourlyPredict e = some .disqualifiedModelError ↔ (e.modelDq = true ∧ e.ignore = false)) := by
  have key : ∀ e ∈ allEnvs, e.fitted = true → e.rightType = true → e.tzEqual = true → e.featuresMissing = false →
      (evalGuards dailyPredict e = some .disqualifiedModelError ↔ (e.modelDq = true ∧ e.ignore = false))
      ∧ (evalGuards billingPredict e = some .disqualifiedModelError ↔ (e.modelDq = true ∧ e.ignore = false))
      ∧ (evalGuards hourlyPredict e = some .disqualifiedModelError ↔ (e.modelDq = true ∧ e.ignore = false)) := by
    decide +kernel
  exact key e (mem_allEnvs e) hf ht hz hm

/-- an unfitted model never predicts, in any family (CalTRACK hourly included) -/
theorem C04_unfitted_never_predicts (e : Env) (hf : e.fitted = false) :
    evalGuards dailyPredict e = some .runtimeError ∧ evalGuards billingPredict e = some .runtimeError
      ∧ evalGuards hourlyPredict e = some .runtimeError ∧ evalGuards caltrackPredict e = some .runtimeError := by
  have key : ∀ e ∈ allEnvs, e.fitted = false →
      evalGuards dailyPredict e = some .runtimeError ∧ evalGuards billingPredict e = some .runtimeError
      ∧ evalGuards hourlyPredict e = some .runtimeError ∧ evalGuards caltrackPredict e = some .runtimeError := by decide +kernel
  exact key e (mem_allEnvs e) hf

/-- the override opens the gate and nothing else: with it, a fitted model given the right data predicts -/
theorem C04_override_opens_gate (e : Env) (hf : e.fitted = true) (ht : e.rightType = true)
    (hz : e.tzEqual = true) (hm : e.featuresMissing = false) (hi : e.ignore = true) :
    evalGuards dailyPredict e = none ∧ evalGuards billingPredict e = none ∧ evalGuards hourlyPredict e = none := by
  have key : ∀ e ∈ allEnvs, e.fitted = true → e.rightType = true → e.tzEqual = true → e.featuresMissing = false →
      e.ignore = true →
      evalGuards dailyPredict e = none ∧ evalGuards billingPredict e = none ∧ evalGuards hourlyPredict e = none := by decide +kernel
  exact key e (mem_allEnvs e) hf ht hz hm hi

/-! ### Non-vacuity -/
example : evalGuards dailyPredict ⟨true, false, true, false, true, true, false, false⟩ = some .disqualifiedModelError := by decide

/-- **a fitted model carries its baseline's disqualification**: in the daily, billing and hourly families
`fit` takes over the baseline data's list by assignment, and no method reached from `fit` rebinds
`self.disqualification` afterwards (the poor-fit disqualification is appended, never assigned) — so what
closed the fit gate without the override is what closes the predict gate of the fitted model
(tables regenerated from the source on every run) -/
theorem C04_fit_keeps_inherited_disqualification :
    EEM.Gen.Footprint.daily_fit_inherits_disqualification = true
    ∧ EEM.Gen.Footprint.billing_fit_inherits_disqualification = true
    ∧ EEM.Gen.Footprint.hourly_fit_inherits_disqualification = true
    ∧ EEM.Gen.Footprint.daily_fit_path_rebinds_disqualification = []
    ∧ EEM.Gen.Footprint.billing_fit_path_rebinds_disqualification = []
    ∧ EEM.Gen.Footprint.hourly_fit_path_rebinds_disqualification = [] := by
  decide +kernel

/-- **no entry point can be left before its gate**: in the guard tables regenerated from the source, no `fit` / `predict` method
has a `return` statement at or before its last guard (a short-cut that returns the model before the disqualification, type or
timezone guard has been evaluated would let a call through the gate) -/
theorem C04_src_no_return_before_the_gate :
    EEM.Gen.Guards.dailyFit_returns_before_last_guard = 0 ∧ EEM.Gen.Guards.dailyPredict_returns_before_last_guard = 0 ∧
    EEM.Gen.Guards.billingPredict_returns_before_last_guard = 0 ∧ EEM.Gen.Guards.hourlyFit_returns_before_last_guard = 0 ∧
    EEM.Gen.Guards.hourlyPredict_returns_before_last_guard = 0 ∧ EEM.Gen.Guards.caltrackPredict_returns_before_last_guard = 0 := by
  decide

end EEM.Props.C04
