/-
  EEM.Props.C19 — PROPERTY THEOREMS ONLY.
  C19: billing aggregation of predictions conserves totals.

  About `EEM.Model.BillingAgg` (hand model of the resample block of BillingModel.predict, tied
  to the real method by ./check C19), interpreted over ℝ.  Frames of ANY length.
-/
import EEM.Real
import EEM.Model.BillingAgg
import EEM.Gen.BillingAggTable
import Mathlib.Tactic.Linarith
import Mathlib.Tactic.Ring
import Mathlib.Algebra.BigOperators.Group.List.Basic

namespace EEM.Props.C19
open EEM EEM.Model.BillingAgg EEM.RealBridge

theorem asum_eq_sum (l : List ℝ) : asum l = l.sum := by
  induction l with
  | nil => simp [asum, ofNat_eq]
  | cons a t ih => simp [asum, add_eq, ih]

/-- a NaN-skipping sum is the sum with NaN read as 0 -/
theorem nanSum_eq (l : List (Option ℝ)) : nanSum l = (l.map (·.getD 0)).sum := by
  unfold nanSum present
  rw [asum_eq_sum]
  induction l with
  | nil => rfl
  | cons a t ih =>
    cases a with
    | none => simpa [List.filterMap_cons] using ih
    | some v => simpa [List.filterMap_cons] using ih

/-- the rows are time-sorted, so month indices never decrease -/
def Sorted (rows : List (DRow ℝ)) : Prop := rows.Pairwise (fun a b => a.ym ≤ b.ym)

/-- every row falls in one of the `n` periods -/
def InRange (k m0 : Int) (n : Nat) (rows : List (DRow ℝ)) : Prop :=
  ∀ r ∈ rows, ∃ i : Nat, i < n ∧ periodIndex k m0 r.ym = (i : Int)

theorem sum_range_ite (n i : Nat) (x : ℝ) (h : i < n) :
    ((List.range n).map fun (p : Nat) => if i = p then x else 0).sum = x := by
  induction n with
  | zero => omega
  | succ m ih =>
    rw [List.range_succ, List.map_append, List.sum_append]
    by_cases hm : i < m
    · rw [ih hm]
      have : i ≠ m := by omega
      simp [this]
    · have him : i = m := by omega
      subst him
      have : ((List.range i).map fun (p : Nat) => if i = p then x else 0).sum = 0 := by
        apply List.sum_eq_zero
        intro y hy
        obtain ⟨p, hp, rfl⟩ := List.mem_map.mp hy
        have : p < i := List.mem_range.mp hp
        have : i ≠ p := by omega
        simp [this]
      rw [this]
      simp

/-- **partition lemma**: summing a quantity period by period gives its sum over all rows -/
theorem sum_by_period (k m0 : Int) (n : Nat) (g : DRow ℝ → ℝ) :
    ∀ rows : List (DRow ℝ), InRange k m0 n rows →
      ((List.range n).map fun (p : Nat) =>
        ((rows.filter fun r => periodIndex k m0 r.ym == (p : Int)).map g).sum).sum
      = (rows.map g).sum := by
  intro rows
  induction rows with
  | nil => intro _; simp
  | cons r rs ih =>
    intro h
    obtain ⟨i, hi, hidx⟩ := h r List.mem_cons_self
    have ih' := ih (fun r' hr' => h r' (List.mem_cons_of_mem _ hr'))
    have hsplit : ∀ p : Nat,
        (((r :: rs).filter fun r => periodIndex k m0 r.ym == (p : Int)).map g).sum
        = (if i = p then g r else 0)
          + ((rs.filter fun r => periodIndex k m0 r.ym == (p : Int)).map g).sum := by
      intro p
      rw [List.filter_cons]
      by_cases hp : i = p
      · subst hp; simp [hidx]
      · have : ¬ ((i : Int) = (p : Int)) := by omega
        simp [hidx, hp, this]
    simp only [hsplit]
    rw [List.sum_map_add, sum_range_ite n i (g r) hi, ih', List.map_cons, List.sum_cons]

/-- for a time-sorted frame and `k ≥ 1` months per period, every row is in range -/
theorem sorted_inRange (k : Int) (hk : 0 < k) (r0 : DRow ℝ) (rest : List (DRow ℝ))
    (hs : Sorted (r0 :: rest)) :
    InRange k r0.ym (nPeriods k (r0 :: rest)) (r0 :: rest) := by
  have hne : (r0 :: rest) ≠ [] := by simp
  obtain ⟨rl, hl⟩ : ∃ rl, (r0 :: rest).getLast? = some rl := ⟨_, List.getLast?_eq_some_getLast hne⟩
  have hlast_ge : ∀ r ∈ (r0 :: rest), r.ym ≤ rl.ym := by
    intro r hr
    have hmem : rl ∈ (r0 :: rest) := List.mem_of_getLast? hl
    have hl' : (r0 :: rest).getLast hne = rl := by
      rw [List.getLast?_eq_some_getLast hne] at hl; exact Option.some.inj hl
    obtain ⟨i, hi, rfl⟩ := List.getElem_of_mem hr
    have : (r0 :: rest)[i].ym ≤ ((r0 :: rest).getLast hne).ym := by
      rw [List.getLast_eq_getElem]
      by_cases hii : i = (r0 :: rest).length - 1
      · simp [hii]
      · exact List.pairwise_iff_getElem.mp hs i _ hi (by omega) (by omega)
    rw [hl'] at this; exact this
  have hfirst_le : ∀ r ∈ (r0 :: rest), r0.ym ≤ r.ym := by
    intro r hr
    rcases List.mem_cons.mp hr with rfl | hr
    · exact le_rfl
    · exact List.rel_of_pairwise_cons hs hr
  intro r hr
  have h1 := hfirst_le r hr
  have h2 := hlast_ge r hr
  unfold nPeriods periodIndex
  simp only [List.head?_cons, hl]
  have hn0 : 0 ≤ (r.ym - r0.ym) / k := Int.ediv_nonneg (by omega) hk.le
  have hmono : (r.ym - r0.ym) / k ≤ (rl.ym - r0.ym) / k := Int.ediv_le_ediv hk (by omega)
  refine ⟨((r.ym - r0.ym) / k).toNat, ?_, ?_⟩
  · omega
  · omega

/-- **totals are conserved**: for every NaN-skipping summed column, the aggregated values add up
to the column's total over the daily rows (hence daily, monthly and bi-monthly totals agree) -/
theorem C19_sum_conserved (k : Int) (hk : 0 < k) (rows : List (DRow ℝ)) (hs : Sorted rows)
    (col : DRow ℝ → Option ℝ) (pcol : PRow ℝ → ℝ)
    (hcol : ∀ m0 p, pcol (aggPeriod k m0 rows p)
        = nanSum ((rows.filter fun r => periodIndex k m0 r.ym == (p : Int)).map col)) :
    ((aggregate k rows).map pcol).sum = nanSum (rows.map col) := by
  cases rows with
  | nil => simp [aggregate, nanSum, present, asum, ofNat_eq]
  | cons r0 rest =>
    have hin := sorted_inRange k hk r0 rest hs
    have hsum := sum_by_period k r0.ym (nPeriods k (r0 :: rest)) (fun r => (col r).getD 0) (r0 :: rest) hin
    have hr : nanSum ((r0 :: rest).map col) = ((r0 :: rest).map fun r => (col r).getD 0).sum := by
      rw [nanSum_eq, List.map_map]; rfl
    rw [hr, ← hsum]
    unfold aggregate
    simp only [List.head?_cons, List.map_map]
    congr 1
    apply List.map_congr_left
    intro p _
    simp only [Function.comp, hcol, nanSum_eq, List.map_map]
    rfl

/-- the four summed columns of the property -/
theorem C19_predicted_conserved (k : Int) (hk : 0 < k) (rows : List (DRow ℝ)) (hs : Sorted rows) :
    ((aggregate k rows).map (·.predicted)).sum = nanSum (rows.map (·.predicted)) :=
  C19_sum_conserved k hk rows hs _ _ (fun _ _ => rfl)
theorem C19_observed_conserved (k : Int) (hk : 0 < k) (rows : List (DRow ℝ)) (hs : Sorted rows) :
    ((aggregate k rows).map (·.observed)).sum = nanSum (rows.map (·.observed)) :=
  C19_sum_conserved k hk rows hs _ _ (fun _ _ => rfl)
theorem C19_heating_conserved (k : Int) (hk : 0 < k) (rows : List (DRow ℝ)) (hs : Sorted rows) :
    ((aggregate k rows).map (·.heating)).sum = nanSum (rows.map (·.heating)) :=
  C19_sum_conserved k hk rows hs _ _ (fun _ _ => rfl)
theorem C19_cooling_conserved (k : Int) (hk : 0 < k) (rows : List (DRow ℝ)) (hs : Sorted rows) :
    ((aggregate k rows).map (·.cooling)).sum = nanSum (rows.map (·.cooling)) :=
  C19_sum_conserved k hk rows hs _ _ (fun _ _ => rfl)

/-- totals are therefore the same at every aggregation level -/
theorem C19_totals_equal_at_every_level (rows : List (DRow ℝ)) (hs : Sorted rows) :
    ((aggregate 1 rows).map (·.predicted)).sum = ((aggregate 2 rows).map (·.predicted)).sum := by
  rw [C19_predicted_conserved 1 (by norm_num) rows hs, C19_predicted_conserved 2 (by norm_num) rows hs]

/-- the period temperature is the mean of the period's present (non-NaN) daily temperatures -/
theorem C19_period_temperature_is_mean (k m0 : Int) (rows : List (DRow ℝ)) (p : Nat) :
    let vals := present ((rows.filter fun r => periodIndex k m0 r.ym == (p : Int)).map (·.temperature))
    (aggPeriod k m0 rows p).temperature
      = if vals = [] then none else some (vals.sum / (vals.length : ℝ)) := by
  intro vals
  show nanMean _ = _
  unfold nanMean
  cases hv : present ((rows.filter fun r => periodIndex k m0 r.ym == (p : Int)).map (·.temperature)) with
  | nil => simp [vals, hv]
  | cons a t =>
    simp only [vals, hv, asum_eq_sum, div_eq, arith_ofNat]
    simp

/-- the squared period uncertainty is the sum of the squared daily uncertainties of the period … -/
theorem C19_period_unc_sq (k m0 : Int) (rows : List (DRow ℝ)) (p : Nat) :
    (aggPeriod k m0 rows p).unc ^ 2
      = nanSum ((rows.filter fun r => periodIndex k m0 r.ym == (p : Int)).map fun r => r.unc.map fun x => x * x) := by
  show rss _ ^ 2 = _
  unfold rss
  simp only [carrier_sqrt, asum_eq_sum]
  rw [Real.sq_sqrt]
  · rw [nanSum_eq]
    unfold present
    generalize (rows.filter fun r => periodIndex k m0 r.ym == (p : Int)) = l
    induction l with
    | nil => simp
    | cons a t ih =>
      simp only [List.map_cons, List.filterMap_cons, id] at ih ⊢
      cases h : a.unc with
      | none => simpa [h] using ih
      | some v => simp only [h, List.map_cons, List.sum_cons, Option.map_some, Option.getD_some, mul_eq]; rw [ih]
  · apply List.sum_nonneg
    intro x hx
    obtain ⟨y, _, rfl⟩ := List.mem_map.mp hx
    simp only [mul_eq]
    exact mul_self_nonneg y

/-- … so the root-sum-square of the period uncertainties equals the root-sum-square over all days -/
theorem C19_unc_root_sum_square (k : Int) (hk : 0 < k) (rows : List (DRow ℝ)) (hs : Sorted rows) :
    Real.sqrt (((aggregate k rows).map fun q => q.unc ^ 2).sum)
      = Real.sqrt (nanSum (rows.map fun r => r.unc.map fun x => x * x)) := by
  congr 1
  exact C19_sum_conserved k hk rows hs (fun r => r.unc.map fun x => x * x) (fun q => q.unc ^ 2)
    (fun m0 p => C19_period_unc_sq k m0 rows p)

/-- one row per calendar period, consecutive, from the first row's month to the last row's -/
theorem C19_one_row_per_period (k : Int) (r0 : DRow ℝ) (rest : List (DRow ℝ)) :
    (aggregate k (r0 :: rest)).length = nPeriods k (r0 :: rest)
      ∧ ∀ p (hp : p < (aggregate k (r0 :: rest)).length),
          ((aggregate k (r0 :: rest))[p]).ym = r0.ym + k * p := by
  unfold aggregate
  simp only [List.head?_cons, List.length_map, List.length_range, true_and]
  intro p hp
  simp [aggPeriod]

/-- any aggregation argument other than None / "none" (any case) / "monthly" / "bimonthly" is rejected -/
theorem C19_bad_argument_rejected (s : String) :
    parseAgg (some s) = none ↔ (s.toLower ≠ "none" ∧ s ≠ "monthly" ∧ s ≠ "bimonthly") := by
  unfold parseAgg
  simp only [beq_iff_eq]
  by_cases h1 : s.toLower = "none"
  · rw [if_pos h1]
    constructor
    · intro h; cases h
    · intro h; exact absurd h1 h.1
  · by_cases h2 : s = "monthly"
    · rw [if_neg h1, if_pos h2]
      constructor
      · intro h; cases h
      · intro h; exact absurd h2 h.2.1
    · by_cases h3 : s = "bimonthly"
      · rw [if_neg h1, if_neg h2, if_pos h3]
        constructor
        · intro h; cases h
        · intro h; exact absurd h3 h.2.2
      · rw [if_neg h1, if_neg h2, if_neg h3]
        exact ⟨fun _ => ⟨h1, h2, h3⟩, fun _ => rfl⟩


/-! ### T1: the model's reductions and argument rule ARE the source's (tables regenerated from the
AST of `BillingModel.predict` / `BillingWeightedModel.predict` on every run) -/

open EEM.Gen.BillingAggTable in
/-- the source's if-chain on `aggregation` computes exactly the model's `parseAgg`, for EVERY
argument (in particular it never reaches `None.lower()` and never falls through) -/
theorem C19_src_argument_rule (arg : Option String) :
    evalChain billingArgChain arg = chainOfAgg (parseAgg arg) ∧
    evalChain weightedArgChain arg = chainOfAgg (parseAgg arg) := by
  cases arg with
  | none => exact ⟨rfl, rfl⟩
  | some s =>
    simp only [billingArgChain, weightedArgChain, evalChain, ArgTest.fires, parseAgg, Option.isNone]
    by_cases h1 : (s.toLower == "none") = true
    · simp [h1, chainOfAgg]
    · by_cases h2 : (s == "monthly") = true
      · simp [h1, h2, chainOfAgg]
      · by_cases h3 : (s == "bimonthly") = true
        · simp [h1, h2, h3, chainOfAgg]
        · simp [h1, h2, h3, chainOfAgg]

/-- the rules the source passes to `resample` are the month counts the model groups by -/
theorem C19_src_rule_months (a : Agg) (h : a ≠ .none) :
    ∃ r, chainOfAgg (some a) = .rule r ∧ monthsOfRule r = some (monthsPer a) := by
  cases a with
  | none => exact absurd rfl h
  | monthly => exact ⟨"MS", rfl, rfl⟩
  | bimonthly => exact ⟨"2MS", rfl, rfl⟩

open EEM.Gen.BillingAggTable in
/-- both classes aggregate with the same table, every column is resampled with the one rule
variable `agg`, and only `observed` is optional -/
theorem C19_src_columns_shape :
    weightedColumns = billingColumns ∧
    billingColumns.all (fun r => r.2.1 == "agg") = true ∧
    (billingColumns.filter (fun r => r.2.2.2)).map (·.1) = ["observed"] := by
  decide +kernel

open EEM.Gen.BillingAggTable in
/-- every numeric cell of a model period is the SOURCE's reduction of that column over the rows of
the period: sums for predicted / observed / heating / cooling, mean for temperature, root-sum-square
for the uncertainty -/
theorem C19_src_reductions (k m0 : Int) (rows : List (DRow ℝ)) (p : Nat) :
    let grp := rows.filter fun r => periodIndex k m0 r.ym == (p : Int)
    let q := aggPeriod k m0 rows p
    (lookupRed billingColumns "predicted").map (fun r => reduce r (grp.map (·.predicted))) = some (some q.predicted) ∧
    (lookupRed billingColumns "observed").map (fun r => reduce r (grp.map (·.observed))) = some (some q.observed) ∧
    (lookupRed billingColumns "heating_load").map (fun r => reduce r (grp.map (·.heating))) = some (some q.heating) ∧
    (lookupRed billingColumns "cooling_load").map (fun r => reduce r (grp.map (·.cooling))) = some (some q.cooling) ∧
    (lookupRed billingColumns "predicted_unc").map (fun r => reduce r (grp.map (·.unc))) = some (some q.unc) ∧
    (lookupRed billingColumns "temperature").map (fun r => reduce r (grp.map (·.temperature))) = some q.temperature := by
  have h1 : lookupRed billingColumns "predicted" = some .sum := by decide +kernel
  have h2 : lookupRed billingColumns "observed" = some .sum := by decide +kernel
  have h3 : lookupRed billingColumns "heating_load" = some .sum := by decide +kernel
  have h4 : lookupRed billingColumns "cooling_load" = some .sum := by decide +kernel
  have h5 : lookupRed billingColumns "predicted_unc" = some .rss := by decide +kernel
  have h6 : lookupRed billingColumns "temperature" = some .mean := by decide +kernel
  simp only [h1, h2, h3, h4, h5, h6, Option.map_some, reduce, aggPeriod, and_self]

/-! ### Non-vacuity -/
example : Sorted [⟨24240, some 50, none, some 1, some 1.5, some 0, some 0⟩,
                  ⟨24241, none, none, some 2, some 1.5, some 0, some 0⟩] := by
  unfold Sorted
  exact List.pairwise_pair.mpr (by norm_num)

end EEM.Props.C19
