/-
  EEM.Props.C02 — PROPERTY THEOREMS ONLY.
  C02: using a model or a data object never changes it (no hidden side effects).

  `EEM.Gen.Footprint` is re-extracted from the source on every run (attributes of `self` written on
  the predict()/to_dict() path of every model class).
-/
import EEM.Model.History
import EEM.Gen.Footprint

namespace EEM.Props.C02
open EEM.Model.History EEM.Gen.Footprint

/-- **frame condition**: over a history of ANY length, an attribute that no operation of the history
writes keeps its value -/
theorem C02_frame_condition {V : Type} (ops : List (Op V)) (s : State V) (a : String)
    (h : ∀ op ∈ ops, a ∉ op.writes) : run ops s a = s a := by
  unfold run
  induction ops generalizing s with
  | nil => rfl
  | cons op rest ih =>
    simp only [List.foldl_cons]
    rw [ih (op.eff s) (fun o ho => h o (List.mem_cons_of_mem _ ho))]
    exact op.frame s a (h op List.mem_cons_self)

/-- daily, billing and CalTRACK hourly: predict() and to_dict() assign NO attribute of the model -/
theorem C02_predict_writes_no_model_state :
    daily_predict_writes = [] ∧ billing_predict_writes = [] ∧ caltrack_predict_writes = []
      ∧ daily_to_dict_writes = [] ∧ billing_to_dict_writes = [] ∧ hourly_to_dict_writes = []
      ∧ caltrack_to_dict_writes = [] := by decide

/-- hence for those families every history of predict()/to_dict() calls leaves the WHOLE model state
unchanged (so its serialised form, and the outcome of any later predict, cannot depend on the history) -/
theorem C02_history_leaves_model_unchanged {V : Type} (ops : List (Op V)) (s : State V)
    (h : ∀ op ∈ ops, op.writes = []) : run ops s = s := by
  funext a
  apply C02_frame_condition
  intro op hop
  rw [h op hop]
  exact List.not_mem_nil

/-- the hourly predict path writes only these attributes (a new write shows up as a failed `decide`) -/
theorem C02_hourly_predict_writes_known :
    ∀ a ∈ hourly_predict_writes, a ∈ ["_T_bin_edges", "_T_edge_bin_coeffs", "_categorical_features",
      "_df_temporal_clusters", "_processed_meter_data", "_processed_meter_data_full", "_ts_feature_norm",
      "_ts_features", "warnings"] := by decide

/-- **hourly temporal clusters, repaired behaviour**: when the looked-up table is local to the call,
every history leaves the fitted table unchanged … -/
theorem C02_hourly_table_unchanged (t : Table) (hist : List (List (Nat × Nat))) :
    runTable .keep t hist = t := by
  induction hist with
  | nil => rfl
  | cons p rest ih => simpa [runTable, predictStep] using ih

/-- … so the clusters used for a reporting set do not depend on which sets were predicted before -/
theorem C02_hourly_predict_history_independent (t : Table) (hist : List (List (Nat × Nat)))
    (A : List (Nat × Nat)) :
    (predictStep .keep (runTable .keep t hist) A).1 = (predictStep .keep t A).1 := by
  rw [C02_hourly_table_unchanged]

/-- **the pinned commit's behaviour is NOT history independent**: after predicting a July week the
table has lost January, and a January week is given July's clusters -/
theorem C02_hourly_assignBack_counterexample :
    let t : Table := [((1, 0), 0), ((7, 0), 3)]
    (predictStep .assignBack (runTable .assignBack t [[(7, 0)]]) [(1, 0)]).1
      ≠ (predictStep .assignBack t [(1, 0)]).1 := by
  decide

/-! ### Non-vacuity -/
example : runTable .keep [((1, 0), 0), ((7, 0), 3)] [[(7, 0)], [(1, 0)]] = [((1, 0), 0), ((7, 0), 3)] := by decide

end EEM.Props.C02
