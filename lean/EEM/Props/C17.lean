/-
  EEM.Props.C17 — PROPERTY THEOREMS ONLY.
  C17: hourly data preparation keeps what was measured and flags what was filled.

  About `EEM.Model.HourlyPrep`, for EVERY choice of the values proposed by the filling stages
  (any number of autocorrelation rounds), any column length, any pattern of missing cells.
-/
import EEM.Model.HourlyPrep
import EEM.Gen.PrepPlan
import Mathlib.Tactic.Linarith

namespace EEM.Props.C17
open EEM.Model.HourlyPrep

variable {α : Type}

/-! helper facts -/
theorem fillAux_length (p : Proposal α) : ∀ (i : Nat) (col : List (Option α)), (fillAux p i col).length = col.length
  | _, [] => rfl
  | i, c :: rest => by simp [fillAux, fillAux_length p (i + 1) rest]

theorem fillAux_keeps (p : Proposal α) : ∀ (i : Nat) (col : List (Option α)) (k : Nat) (v : α),
    col[k]? = some (some v) → (fillAux p i col)[k]? = some (some v)
  | _, [], k, v, h => by simp at h
  | i, c :: rest, 0, v, h => by
    simp only [List.getElem?_cons_zero, Option.some.injEq] at h
    subst h
    simp [fillAux]
  | i, c :: rest, k + 1, v, h => by
    simp only [List.getElem?_cons_succ] at h
    simp only [fillAux, List.getElem?_cons_succ]
    exact fillAux_keeps p (i + 1) rest k v h

theorem ffillAux_length : ∀ (c : Option α) (col : List (Option α)), (ffillAux c col).length = col.length
  | _, [] => rfl
  | c, x :: rest => by cases x <;> simp [ffillAux, ffillAux_length]

theorem ffillAux_keeps : ∀ (c : Option α) (col : List (Option α)) (k : Nat) (v : α),
    col[k]? = some (some v) → (ffillAux c col)[k]? = some (some v)
  | _, [], k, v, h => by simp at h
  | c, x :: rest, 0, v, h => by
    simp only [List.getElem?_cons_zero, Option.some.injEq] at h
    subst h
    simp [ffillAux]
  | c, x :: rest, k + 1, v, h => by
    simp only [List.getElem?_cons_succ] at h
    cases x with
    | none => simp only [ffillAux, List.getElem?_cons_succ]; exact ffillAux_keeps c rest k v h
    | some w => simp only [ffillAux, List.getElem?_cons_succ]; exact ffillAux_keeps (some w) rest k v h

/-- after a forward fill with a present carry nothing is missing -/
theorem ffillAux_total : ∀ (w : α) (col : List (Option α)), ∀ x ∈ ffillAux (some w) col, x ≠ none
  | _, [], x, hx => by simp [ffillAux] at hx
  | w, c :: rest, x, hx => by
    cases c with
    | none =>
      simp only [ffillAux, List.mem_cons] at hx
      rcases hx with rfl | hx
      · simp
      · exact ffillAux_total w rest x hx
    | some u =>
      simp only [ffillAux, List.mem_cons] at hx
      rcases hx with rfl | hx
      · simp
      · exact ffillAux_total u rest x hx

/-- after a forward fill, everything from the first present cell on is present -/
theorem ffill_suffix_total : ∀ (col : List (Option α)) (k : Nat) (v : α), col[k]? = some (some v) →
    ∀ j, k ≤ j → j < col.length → ∃ u, (ffill col)[j]? = some (some u)
  | [], k, v, h, _, _, _ => by simp at h
  | c :: rest, 0, v, h, j, _, hj => by
    simp only [List.getElem?_cons_zero, Option.some.injEq] at h
    subst h
    unfold ffill
    simp only [ffillAux]
    cases j with
    | zero => exact ⟨v, by simp⟩
    | succ j' =>
      simp only [List.getElem?_cons_succ]
      have hl : j' < (ffillAux (some v) rest).length := by rw [ffillAux_length]; simpa using hj
      have hmem := List.getElem_mem hl
      have hne := ffillAux_total v rest _ hmem
      cases hx : (ffillAux (some v) rest)[j'] with
      | none => exact absurd hx hne
      | some u => exact ⟨u, by rw [List.getElem?_eq_getElem hl, hx]⟩
  | c :: rest, k + 1, v, h, j, hkj, hj => by
    simp only [List.getElem?_cons_succ] at h
    cases j with
    | zero => omega
    | succ j' =>
      unfold ffill
      cases c with
      | none =>
        simp only [ffillAux, List.getElem?_cons_succ]
        exact ffill_suffix_total rest k v h j' (by omega) (by simpa using hj)
      | some w =>
        simp only [ffillAux, List.getElem?_cons_succ]
        have hl : j' < (ffillAux (some w) rest).length := by rw [ffillAux_length]; simpa using hj
        have hne := ffillAux_total w rest _ (List.getElem_mem hl)
        cases hx : (ffillAux (some w) rest)[j'] with
        | none => exact absurd hx hne
        | some u => exact ⟨u, by rw [List.getElem?_eq_getElem hl, hx]⟩

theorem ffill_length (col : List (Option α)) : (ffill col).length = col.length := ffillAux_length none col
theorem bfill_length (col : List (Option α)) : (bfill col).length = col.length := by
  simp [bfill, ffill_length]

theorem ffill_keeps (col : List (Option α)) (k : Nat) (v : α) (h : col[k]? = some (some v)) :
    (ffill col)[k]? = some (some v) := ffillAux_keeps none col k v h

theorem bfill_keeps (col : List (Option α)) (k : Nat) (v : α) (h : col[k]? = some (some v)) :
    (bfill col)[k]? = some (some v) := by
  have hk : k < col.length := by
    by_contra hc
    rw [List.getElem?_eq_none (by omega)] at h
    cases h
  unfold bfill
  rw [List.getElem?_reverse (by rw [ffill_length, List.length_reverse]; exact hk)]
  rw [ffill_length, List.length_reverse]
  apply ffill_keeps
  rw [List.getElem?_reverse (by omega)]
  have : col.length - 1 - (col.length - 1 - k) = k := by omega
  rw [this]
  exact h

theorem interpolateCol_length (rounds : List (Proposal α)) (timeP : Proposal α) (col : List (Option α)) :
    (interpolateCol rounds timeP col).length = col.length := by
  unfold interpolateCol
  rw [bfill_length, ffill_length]
  unfold fillWith
  rw [fillAux_length]
  induction rounds generalizing col with
  | nil => rfl
  | cons p rest ih =>
    simp only [List.foldl_cons]
    rw [ih]
    exact fillAux_length p 0 col

theorem rounds_keep (rounds : List (Proposal α)) (col : List (Option α)) (k : Nat) (v : α)
    (h : col[k]? = some (some v)) : (rounds.foldl (fun c p => fillWith p c) col)[k]? = some (some v) := by
  induction rounds generalizing col with
  | nil => exact h
  | cons p rest ih => exact ih (fillWith p col) (fillAux_keeps p 0 col k v h)

/-- **every supplied value appears unchanged at its timestamp**, whatever the filling stages propose -/
theorem C17_supplied_preserved (rounds : List (Proposal α)) (timeP : Proposal α)
    (col : List (Option α)) (k : Nat) (v : α) (h : col[k]? = some (some v)) :
    (interpolateCol rounds timeP col)[k]? = some (some v) := by
  unfold interpolateCol
  apply bfill_keeps
  apply ffill_keeps
  exact fillAux_keeps timeP 0 _ k v (rounds_keep rounds col k v h)

/-- **no supplied value is flagged** … -/
theorem C17_no_supplied_flagged (rounds : List (Proposal α)) (timeP : Proposal α)
    (col : List (Option α)) (k : Nat) (v : α) (h : col[k]? = some (some v)) :
    (flags col (interpolateCol rounds timeP col))[k]? = some false := by
  have hk : k < col.length := by
    by_contra hc
    rw [List.getElem?_eq_none (by omega)] at h
    cases h
  unfold flags
  have hz : (col.zip (interpolateCol rounds timeP col))[k]? = some (some v, some v) :=
    List.getElem?_zip_eq_some.mpr ⟨h, C17_supplied_preserved rounds timeP col k v h⟩
  rw [List.getElem?_map, hz]
  rfl

/-- … and **every value that had to be filled is flagged**: a cell is flagged exactly when it was
missing in the input and is present in the output -/
theorem C17_flag_iff_filled (orig out : List (Option α)) (k : Nat) (a b : Option α)
    (ha : orig[k]? = some a) (hb : out[k]? = some b) :
    (flags orig out)[k]? = some (a.isNone && b.isSome) := by
  unfold flags
  have hz : (orig.zip out)[k]? = some (a, b) := List.getElem?_zip_eq_some.mpr ⟨ha, hb⟩
  rw [List.getElem?_map, hz]
  rfl

/-- **nothing remains missing unless the whole column was empty** -/
theorem C17_nothing_missing_unless_empty (rounds : List (Proposal α)) (timeP : Proposal α)
    (col : List (Option α)) (k : Nat) (v : α) (h : col[k]? = some (some v)) :
    ∀ j, j < col.length → ∃ u, (interpolateCol rounds timeP col)[j]? = some (some u) := by
  intro j hj
  set c1 := fillWith timeP (rounds.foldl (fun c p => fillWith p c) col) with hc1
  have h1 : c1[k]? = some (some v) := fillAux_keeps timeP 0 _ k v (rounds_keep rounds col k v h)
  have hl1 : c1.length = col.length := by
    have := interpolateCol_length rounds timeP col
    unfold interpolateCol at this
    rw [bfill_length, ffill_length] at this
    exact this
  have hk : k < col.length := by
    by_contra hc
    rw [List.getElem?_eq_none (by omega)] at h
    cases h
  unfold interpolateCol
  rw [← hc1]
  by_cases hjk : k ≤ j
  · obtain ⟨u, hu⟩ := ffill_suffix_total c1 k v h1 j hjk (by omega)
    exact ⟨u, bfill_keeps _ j u hu⟩
  · -- before the first known cell: the backward fill reaches it from the (forward-filled) cell k
    have h2 : (ffill c1)[k]? = some (some v) := ffill_keeps c1 k v h1
    set c2 := ffill c1 with hc2
    have hl2 : c2.length = col.length := by rw [hc2, ffill_length, hl1]
    unfold bfill
    have hr : c2.reverse[c2.length - 1 - k]? = some (some v) := by
      rw [List.getElem?_reverse (by omega)]
      have : c2.length - 1 - (c2.length - 1 - k) = k := by omega
      rw [this]; exact h2
    obtain ⟨u, hu⟩ := ffill_suffix_total c2.reverse (c2.length - 1 - k) v hr (c2.length - 1 - j) (by omega)
      (by rw [List.length_reverse]; omega)
    refine ⟨u, ?_⟩
    rw [List.getElem?_reverse (by rw [ffill_length, List.length_reverse]; omega)]
    rw [ffill_length, List.length_reverse]
    exact hu

/-- **zero electricity usage is treated as missing**, other values are untouched -/
theorem C17_zero_is_missing (isZero : α → Bool) (col : List (Option α)) (k : Nat) (v : α)
    (h : col[k]? = some (some v)) :
    (zeroToMissing isZero col)[k]? = some (if isZero v then none else some v) := by
  unfold zeroToMissing
  rw [List.getElem?_map, h]
  rfl

/-- **duplicate timestamps keep their first value** -/
theorem C17_duplicates_keep_first {β : Type} (rows : List (Int × β)) (t : Int) :
    (dedupe rows).lookup t = rows.lookup t := by
  unfold dedupe
  have key : ∀ (seen : List Int) (rows : List (Int × β)), ¬ seen.contains t = true →
      (dedupeAux seen rows).lookup t = rows.lookup t := by
    intro seen rows
    induction rows generalizing seen with
    | nil => intro _; rfl
    | cons r rest ih =>
      intro hs
      obtain ⟨t', v⟩ := r
      unfold dedupeAux
      by_cases hc : seen.contains t' = true
      · simp only [hc, if_true]
        have hne : ¬ (t == t') = true := by
          intro he
          have : t = t' := by simpa using he
          subst this
          exact hs hc
        rw [ih seen hs]
        simp [List.lookup, hne]
      · simp only [hc, Bool.false_eq_true, if_false]
        by_cases he : (t == t') = true
        · simp [List.lookup, he]
        · simp only [List.lookup, he]
          apply ih
          intro hcon
          simp only [List.contains_cons, Bool.or_eq_true] at hcon
          rcases hcon with h1 | h1
          · exact he h1
          · exact hs h1
  exact key [] rows (by simp)

/-- the index is **gap-free**: consecutive stamps are exactly one hour apart, from the first to the last -/
theorem C17_gap_free (first last : Int) (h : first ≤ last) (hd : (last - first) % 3600 = 0) :
    (hourlyRange first last).head? = some first ∧ (hourlyRange first last).getLast? = some last
      ∧ ∀ k, k + 1 < (hourlyRange first last).length →
          (hourlyRange first last)[k + 1]? = ((hourlyRange first last)[k]?).map (· + 3600) := by
  unfold hourlyRange
  have hn : 0 < ((last - first) / 3600 + 1).toNat := by omega
  refine ⟨?_, ?_, ?_⟩
  · cases hm : ((last - first) / 3600 + 1).toNat with
    | zero => omega
    | succ m => simp [List.range_succ_eq_map]
  · rw [List.getLast?_eq_getElem?]
    simp only [List.length_map, List.length_range, List.getElem?_map]
    rw [List.getElem?_range (by omega)]
    simp only [Option.map_some, Option.some.injEq]
    omega
  · intro k hk
    simp only [List.length_map, List.length_range] at hk
    simp only [List.getElem?_map]
    rw [List.getElem?_range (by omega), List.getElem?_range (by omega)]
    simp only [Option.map_some, Option.some.injEq]
    omega

/-! ### Tie to the source (T1): the preparation plan, regenerated on every run from `hourly/data.py`,
`common/hourly_interpolation.py` and `data_processor_utilities.py` -/

section Source
open EEM.Gen.PrepPlan

/-- The stages of `_set_data` that write the frame are, in this order: copy of the caller's frame, index checks, index unit,
zero → missing, duplicate removal, whole-day reindex, interpolation (with flags), PV start column — the order the hand model
composes `zeroToMissing`, `dedupe`, `reindex`, `interpolateCol`, `flags` in.  In particular zeros are blanked BEFORE the
duplicates are resolved and before the snapshot of missing cells, so a zero electric reading is filled and flagged like any gap, and
the frame is a copy from the first statement on. -/
theorem C17_src_stage_order :
    stages = ["copy", "index_checks", "ns_index", "zero_to_missing", "remove_duplicates", "contiguous", "interpolate",
              "pv_start", "return"] := by decide

/-- the zero rule as written: only under `is_electricity_data`, only the `observed` column, cells equal to 0 become NaN -/
theorem C17_src_zero_rule :
    zeroRule = ("self.is_electricity_data", "observed", "df['observed']", "== 0", "np.nan") := by decide

/-- duplicate timestamps keep their FIRST row: the source selects the negation of `index.duplicated(keep="first")`
(`C17_duplicates_keep_first` is about `dedupe`, which keeps the first) -/
theorem C17_src_duplicates_keep_first : dedupKeep = ("first", true) := by decide

/-- whole local days: the first stamp is rounded down to hour 0 and the last up to hour 23 of their own days, the range between them
is hourly, and the frame is reindexed onto it (`hourlyRange` / `reindex` of the model; `C17_gap_free`) -/
theorem C17_src_whole_days :
    dayEdges = [("earliest_datetime", "df.index.min()", "hour=0, minute=0, second=0, microsecond=0"),
                ("latest_datetime", "df.index.max()", "hour=23, minute=0, second=0, microsecond=0")]
    ∧ rangeArgs = ("earliest_datetime", "latest_datetime", "'h'") ∧ reindexed = true := by decide

/-- temperature and usage are always prepared, irradiance when present; a column is skipped only when absent or already
flagged by the caller -/
theorem C17_src_columns :
    defaultCols = ["temperature", "observed"] ∧ conditionalCols = [("'ghi' in df.columns", "ghi")]
    ∧ skipConditions = ["col not in df.columns", "interp_bool_col in df.columns"] := by decide

/-- the fall-back stages are time interpolation, forward fill, backward fill — in this order, each on the whole column
(`interpolateCol`), and the flag is "was missing before ANY filling and is present now" (`flags`): the snapshot of missing cells is
taken before the first statement that writes the column, the flag column starts all-False and is set after the last filling -/
theorem C17_src_fill_stages_and_flag :
    backupStages = ["time", "ffill", "bfill"]
    ∧ backupStatements = [("time", "df[col] = df[col].interpolate(method='time', limit_direction='both')"),
                          ("ffill", "df[col] = df[col].ffill()"), ("bfill", "df[col] = df[col].bfill()")]
    ∧ flagSnapshot = "idx_missing = df.loc[df[col].isna()].index" ∧ snapshotBeforeFilling = true
    ∧ flagInit = "df[interp_bool_col] = False"
    ∧ flagSet = "df.loc[df.index.isin(idx_missing) & ~df[col].isna(), interp_bool_col] = True" := by decide

end Source

/-! ### Non-vacuity -/
example : interpolateCol (α := Nat) [] (fun _ => none) [none, some 3, none, none, some 5, none]
    = [some 3, some 3, some 3, some 3, some 5, some 5] := by decide

end EEM.Props.C17
