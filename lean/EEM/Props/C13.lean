/-
  EEM.Props.C13 — PROPERTY THEOREMS ONLY.
  C13: each day is predicted by exactly one sub-model: that of its season and day type.

  `Gen.Splits.candidates` is dumped from the live `DailyModel._combinations()` on every run.
-/
import EEM.Real
import EEM.Model.Splits
import EEM.Gen.SplitCandidates
import Mathlib.Tactic.Linarith

namespace EEM.Props.C13
open EEM EEM.Model.Splits EEM.Gen.Splits EEM.RealBridge

/-- every candidate split string parses, and partitions the six (season, day-type) cells -/
theorem C13_candidates_partition :
    ∀ s ∈ candidates, ∃ combo, parseCombo s = some combo ∧ exactCover combo = true := by
  have : ∀ s ∈ candidates, (match parseCombo s with | some c => exactCover c | none => false) = true := by
    decide +kernel
  intro s hs
  have h := this s hs
  cases hp : parseCombo s with
  | none => rw [hp] at h; cases h
  | some c => rw [hp] at h; exact ⟨c, rfl, h⟩

/-- the unsplit model is a candidate, and no candidate appears twice -/
theorem C13_unsplit_is_candidate : "fw-su_sh_wi" ∈ candidates ∧ candidates.Nodup := by
  constructor <;> decide +kernel

/-- membership in a component depends only on the day's cell -/
theorem inSegment_eq_covers (wmap : List String) (c : Component) (s : Season) (dow : Nat)
    (we : Bool) (hd : 1 ≤ dow ∧ dow ≤ wmap.length)
    (hw : wmap.getD (dow - 1) "" = if we then "weekend" else "weekday") :
    inSegment wmap c s.fullName dow = c.covers (s, we) := by
  unfold inSegment Component.covers
  have h1 : (c.seasons.map Season.fullName).contains s.fullName = c.seasons.contains s := by
    induction c.seasons with
    | nil => rfl
    | cons a t ih =>
      simp only [List.map_cons, List.contains_cons, ih]
      congr 1
      cases a <;> cases s <;> decide
  rw [h1]
  congr 1
  have hr : dow - 1 < wmap.length := by omega
  have hmem : ∀ (lab : String), (((List.range wmap.length).filter fun n => wmap.getD n "" == lab).map (· + 1)).contains dow
      = (wmap.getD (dow - 1) "" == lab) := by
    intro lab
    rw [Bool.eq_iff_iff]
    simp only [List.contains_iff_mem, List.mem_map, List.mem_filter, List.mem_range, beq_iff_eq]
    constructor
    · rintro ⟨n, ⟨_, h⟩, rfl⟩; simpa using h
    · intro h; exact ⟨dow - 1, ⟨hr, h⟩, by omega⟩
  cases hp : c.pre with
  | fw =>
    simp only [dayList]
    rw [Bool.eq_iff_iff]
    simp only [List.contains_iff_mem, List.mem_map, List.mem_range, iff_true]
    exact ⟨dow - 1, hr, by omega⟩
  | wd =>
    simp only [dayList, hmem, hw]
    cases we <;> simp
  | we =>
    simp only [dayList, hmem, hw]
    cases we <;> simp

/-- **routing is unique**: for every exact-cover split, every weekday map with the standard
labels, every season (hence every month map into the standard season names) and every day of
the week, exactly one stored sub-model predicts the day — the one whose cell contains it -/
theorem C13_routing_unique (wmap : List String) (combo : List Component) (hc : exactCover combo = true)
    (s : Season) (dow : Nat) (we : Bool) (hd : 1 ≤ dow ∧ dow ≤ wmap.length)
    (hw : wmap.getD (dow - 1) "" = if we then "weekend" else "weekday") :
    ∃ c, segmentsOf wmap combo s.fullName dow = [c] ∧ c ∈ combo ∧ c.covers (s, we) = true := by
  have hfil : segmentsOf wmap combo s.fullName dow = combo.filter (·.covers (s, we)) := by
    unfold segmentsOf
    apply List.filter_congr
    intro c _
    exact inSegment_eq_covers wmap c s dow we hd hw
  have hcell : (s, we) ∈ cells := by cases s <;> cases we <;> decide
  have hlen : (combo.filter (·.covers (s, we))).length = 1 := by
    have := List.all_eq_true.mp hc (s, we) hcell
    simpa using this
  rw [hfil]
  obtain ⟨c, hm⟩ := List.length_eq_one_iff.mp hlen
  have hmem : c ∈ combo.filter (·.covers (s, we)) := by rw [hm]; simp
  exact ⟨c, hm, (List.mem_filter.mp hmem).1, (List.mem_filter.mp hmem).2⟩

/-- trimming only removes candidates -/
theorem C13_trim_subset (a : Allow) (n : Counts) (cands : List String) :
    ∀ s ∈ trim a n cands, s ∈ cands := fun _ h => (List.mem_filter.mp h).1

/-- the unsplit model always survives trimming -/
theorem C13_trim_keeps_unsplit (a : Allow) (n : Counts) (cands : List String)
    (h : "fw-su_sh_wi" ∈ cands) : "fw-su_sh_wi" ∈ trim a n cands := by
  unfold trim
  rw [List.mem_filter]
  exact ⟨h, by simp [keepCombo]⟩

/-- a kept split (other than the unsplit one) never isolates a season the settings forbid or the
data cannot support (< 30 days), never separates weekdays when that is forbidden, and every one
of its components has at least 8 weekend-listed days -/
theorem C13_trim_respects_flags_and_counts (a : Allow) (n : Counts) (cands : List String)
    (s : String) (hs : s ∈ trim a n cands) (hne : s ≠ "fw-su_sh_wi") :
    ∃ combo, parseCombo s = some combo
      ∧ (hasSubstrWd s = true → a.wdwe = true)
      ∧ ∀ c ∈ combo, (∀ x, c.seasons = [x] → banned (effectiveAllow a n) x = false)
          ∧ 8 ≤ (c.seasons.map n.weekend).sum := by
  have hk := (List.mem_filter.mp hs).2
  unfold keepCombo at hk
  simp only [beq_iff_eq, hne, if_false] at hk
  split at hk
  · cases hk
  · rename_i hwd
    cases hp : parseCombo s with
    | none => rw [hp] at hk; cases hk
    | some combo =>
      rw [hp] at hk
      refine ⟨combo, rfl, ?_, ?_⟩
      · intro h
        by_contra hcon
        apply hwd
        have : a.wdwe = false := by simpa using hcon
        simp [h, effectiveAllow, this]
      · intro c hc
        have := List.all_eq_true.mp hk c hc
        simp only [Bool.and_eq_true, Bool.not_eq_true', Bool.and_eq_false_iff, decide_eq_false_iff_not,
          not_lt] at this
        refine ⟨?_, this.2⟩
        intro x hx
        rcases this.1 with h1 | h1
        · simp [hx] at h1
        · simpa [hx] using h1

/-- a season with fewer than 30 baseline days is never isolated, whatever the settings say -/
theorem C13_short_season_never_isolated (a : Allow) (n : Counts) (x : Season) (h : n.season x < 30) :
    banned (effectiveAllow a n) x = true := by
  cases x <;> simp [banned, effectiveAllow, h]

/-- the selected split is one of the candidates tried -/
theorem C13_best_is_member (crit : String → ℝ) (cands : List String) (b : String)
    (h : best crit cands = some b) : b ∈ cands := by
  unfold best at h
  have key : ∀ (l : List String) (hof : Option (String × ℝ)),
      (∀ p, hof = some p → p.1 ∈ cands) → (∀ c ∈ l, c ∈ cands) →
      ∀ p, l.foldl (bestStep crit) hof = some p → p.1 ∈ cands := by
    intro l
    induction l with
    | nil => intro hof h1 _ p hp; exact h1 p hp
    | cons c t ih =>
      intro hof h1 h2 p hp
      apply ih (bestStep crit hof c) _ (fun c' hc' => h2 c' (List.mem_cons_of_mem _ hc')) p hp
      intro q hq
      unfold bestStep at hq
      cases hof with
      | none => cases hq; exact h2 c List.mem_cons_self
      | some bv =>
        obtain ⟨b', v⟩ := bv
        simp only at hq
        split at hq
        · cases hq; exact h2 c List.mem_cons_self
        · cases hq; exact h1 _ rfl
  cases hf : cands.foldl (bestStep crit) none with
  | none => rw [hf] at h; cases h
  | some p =>
    rw [hf] at h
    cases h
    exact key cands none (fun _ h => by cases h) (fun _ h => h) p hf

/-- … and has the lowest selection criterion among them (criteria are real numbers) -/
theorem C13_best_is_min (crit : String → ℝ) (cands : List String) (b : String)
    (h : best crit cands = some b) : ∀ c ∈ cands, crit b ≤ crit c := by
  unfold best at h
  have key : ∀ (l : List String) (hof : Option (String × ℝ)),
      (∀ p, hof = some p → p.2 = crit p.1) →
      ∀ p, l.foldl (bestStep crit) hof = some p →
        p.2 = crit p.1 ∧ (∀ c ∈ l, crit p.1 ≤ crit c) ∧ (∀ q, hof = some q → crit p.1 ≤ crit q.1) := by
    intro l
    induction l with
    | nil =>
      intro hof h1 p hp
      simp only [List.foldl_nil] at hp
      refine ⟨h1 p hp, ?_, ?_⟩
      · intro c hc; cases hc
      · intro q hq; rw [hp] at hq; cases hq; exact le_rfl
    | cons c t ih =>
      intro hof h1 p hp
      have hstep : ∀ q, bestStep crit hof c = some q → q.2 = crit q.1 := by
        intro q hq
        unfold bestStep at hq
        cases hof with
        | none => cases hq; rfl
        | some bv =>
          obtain ⟨b', v⟩ := bv
          simp only at hq
          split at hq
          · cases hq; rfl
          · cases hq; exact h1 _ rfl
      obtain ⟨e1, e2, e3⟩ := ih (bestStep crit hof c) hstep p hp
      refine ⟨e1, ?_, ?_⟩
      · intro c' hc'
        rcases List.mem_cons.mp hc' with rfl | hc'
        · -- the step's value is ≤ crit c
          cases hof with
          | none => exact e3 (c', crit c') rfl
          | some bv =>
            obtain ⟨b', v⟩ := bv
            have hv : v = crit b' := h1 (b', v) rfl
            by_cases hlt : crit c' < v
            · have : bestStep crit (some (b', v)) c' = some (c', crit c') := by
                simp [bestStep, ltb_iff, hlt]
              exact e3 _ this
            · have : bestStep crit (some (b', v)) c' = some (b', v) := by
                simp [bestStep, ltb_iff, hlt]
              have := e3 _ this
              simp only at this
              linarith [not_lt.mp hlt]
        · exact e2 c' hc'
      · intro q hq
        subst hq
        obtain ⟨b', v⟩ := q
        have hv : v = crit b' := h1 (b', v) rfl
        by_cases hlt : crit c < v
        · have : bestStep crit (some (b', v)) c = some (c, crit c) := by
            simp [bestStep, ltb_iff, hlt]
          have := e3 _ this
          simp only at this ⊢
          linarith
        · have : bestStep crit (some (b', v)) c = some (b', v) := by
            simp [bestStep, ltb_iff, hlt]
          exact e3 _ this
  cases hf : cands.foldl (bestStep crit) none with
  | none => rw [hf] at h; cases h
  | some p =>
    rw [hf] at h
    cases h
    exact (key cands none (fun _ h => by cases h) p hf).2.1

/-! ### Non-vacuity -/
example : ∃ combo, parseCombo "fw-sh_wi__wd-su__we-su" = some combo ∧ exactCover combo = true :=
  ⟨_, rfl, by decide⟩
example : "fw-sh_wi__wd-su__we-su" ∈ candidates := by decide +kernel

end EEM.Props.C13
