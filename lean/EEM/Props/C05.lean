/-
  EEM.Props.C05 — PROPERTY THEOREMS ONLY.
  C05: the counterfactual never depends on reporting-period consumption.

  Daily/billing: non-interference on `EEM.Model.PredictFrame` (the model of _predict's frame
  assembly, tied to the real code by ./check C05/C06/C07): observed enters only the row filter.
  Hourly: the clock normalisation (`EEM.Model.Dst`) reads the rows' clock hours only.  The hourly
  and CalTRACK numeric cores (ElasticNet / WLS on features of temperature and calendar) are
  parameters here and are covered by the paired-run oracle of ./check C05 only.
-/
import EEM.Model.PredictFrame
import EEM.Model.Dst
import EEM.Gen.UsageReads
import EEM.Spec.UsageReads

namespace EEM.Props.C05
open EEM.Model.PredictFrame

variable {α β : Type}

/-- a row with its usage cell blanked: everything the counterfactual may depend on -/
def weather (r : InRow α) : Int × String × Nat × Cell α := (r.t, r.season, r.dow, r.temperature)

/-- **every produced prediction is a function of the row's temperature and calendar (and the
stored model) only**: it is the curve of a sub-model the row is routed to, at the row's temperature -/
theorem C05_daily_pred_is_fn_of_T_and_calendar (m : MaskMode) (hasObs : Bool)
    (route : InRow α → List String) (curve : String → α → β) (r : InRow α) (o : OutRow α β) (y : β)
    (ho : o ∈ outRows m hasObs route curve r) (hy : o.predicted = some y) :
    ∃ s ∈ route r, ∃ T, r.temperature = .fin T ∧ o.split = some s ∧ y = curve s T := by
  unfold outRows at ho
  by_cases hc : isClean hasObs r = true
  · simp only [hc, if_true] at ho
    cases hT : r.temperature with
    | nan => rw [hT] at ho; simp at ho
    | inf => rw [hT] at ho; simp at ho
    | fin T =>
      rw [hT] at ho
      simp only at ho
      cases hs : route r with
      | nil => rw [hs] at ho; simp at ho; subst ho; simp at hy
      | cons s ss =>
        rw [hs] at ho
        obtain ⟨s', hs', rfl⟩ := List.mem_map.mp ho
        simp only [Option.some.injEq] at hy
        exact ⟨s', hs', T, rfl, rfl, hy.symm⟩
  · simp only [hc, Bool.false_eq_true, if_false, List.mem_singleton] at ho
    subst ho
    simp at hy

/-- **non-interference**: two reporting rows with the same timestamp, calendar and temperature —
whatever their usage cells, and whether or not the frames carry a usage column at all — get the
same prediction from the same sub-model wherever both get one.  (Routing reads the calendar only:
`hroute`.) -/
theorem C05_daily_noninterference (m m' : MaskMode) (hasObs hasObs' : Bool)
    (route : InRow α → List String) (curve : String → α → β)
    (hroute : ∀ r r' : InRow α, weather r = weather r' → route r = route r')
    (r r' : InRow α) (hw : weather r = weather r')
    (o o' : OutRow α β) (y y' : β)
    (ho : o ∈ outRows m hasObs route curve r) (ho' : o' ∈ outRows m' hasObs' route curve r')
    (hy : o.predicted = some y) (hy' : o'.predicted = some y') (hsplit : o.split = o'.split) : y = y' := by
  obtain ⟨s, _, T, hT, hs, rfl⟩ := C05_daily_pred_is_fn_of_T_and_calendar m hasObs route curve r o y ho hy
  obtain ⟨s', _, T', hT', hs', rfl⟩ := C05_daily_pred_is_fn_of_T_and_calendar m' hasObs' route curve r' o' y' ho' hy'
  have ht : r.temperature = r'.temperature := by
    have := congrArg (fun p => p.2.2.2) hw
    simpa [weather] using this
  rw [hT, hT'] at ht
  cases ht
  rw [hs, hs'] at hsplit
  cases hsplit
  rfl

/-- usage can only REMOVE predictions (rows without usage get none), never change one: a row that is
predicted when usage is supplied is predicted identically when the usage column is absent -/
theorem C05_daily_absent_column_same (m : MaskMode) (route : InRow α → List String)
    (curve : String → α → β) (r : InRow α) (o : OutRow α β) (y : β)
    (ho : o ∈ outRows m true route curve r) (hy : o.predicted = some y) :
    ∃ o' ∈ outRows m false route curve r, o'.predicted = some y ∧ o'.split = o.split := by
  obtain ⟨s, hs, T, hT, hsp, rfl⟩ := C05_daily_pred_is_fn_of_T_and_calendar m true route curve r o y ho hy
  refine ⟨{ t := r.t, temperature := r.temperature, observed := r.observed, predicted := some (curve s T), split := some s }, ?_, rfl, hsp.symm⟩
  unfold outRows
  have hc : isClean false r = true := by simp [isClean, hT, Cell.isFin]
  simp only [hc, if_true, hT]
  cases hr : route r with
  | nil => rw [hr] at hs; cases hs
  | cons a t =>
    rw [hr] at hs
    exact List.mem_map.mpr ⟨s, hs, rfl⟩

open EEM.Model.Dst in
/-- hourly clock normalisation: which slots are synthesised or merged is decided by the rows' clock
hours alone (the day's row count IS the length of its hour list) — usage plays no part -/
theorem C05_hourly_dst_ops_ignore_observed (hours : List Nat) :
    ∀ obs₁ obs₂ : List (Option α), dayOp hours hours.length = dayOp hours hours.length := fun _ _ => rfl

/-! ### Non-vacuity -/
example : ∃ o ∈ outRows (α := Nat) (β := Nat) .nonFinite true (fun _ => ["fw-su_sh_wi"]) (fun _ T => T + 1)
    { t := 0, season := "summer", dow := 1, temperature := .fin 50, observed := .fin 3 }, o.predicted = some 51 :=
  ⟨_, List.mem_singleton.mpr rfl, rfl⟩

/-! ### T1: where the source touches the usage column on a prediction path -/

/-- **the statements that mention the usage column on any `predict` path are exactly the reviewed ones** — for the daily,
billing, weighted-billing, hourly and CalTRACK-hourly families, on the table regenerated from the source on every run.  The
frozen list (`EEM.Spec.UsageReads`, with the role of each site) contains only: the CalTRACK 3.5.1.1 mask and the row filter
(presence, not value), the aggregation of the column into itself, fit-only statements, the matching of calendar cells the
baseline never saw (excluded by the property's hypothesis), a derived column that is not a model input, and the CalTRACK
uncertainty.  A new or changed read of the reporting period's usage on a prediction path breaks this equality. -/
theorem C05_src_usage_reads_are_the_reviewed_ones :
    EEM.Gen.UsageReads.usageReads = EEM.Spec.UsageReads.sites := by
  decide +kernel

/-- the reviewed list is not empty and covers every family -/
example : ∀ f ∈ ["daily", "billing", "billing_weighted", "hourly", "caltrack"],
    f ∈ EEM.Spec.UsageReads.sites.map (·.1) := by
  decide +kernel

end EEM.Props.C05
