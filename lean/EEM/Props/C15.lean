/-
  EEM.Props.C15 — PROPERTY THEOREMS ONLY.   (PARTIAL: see the end of the file.)
  C15: a building that follows the model is recovered by the fit — the part that is logic:
  (a) every generator of the stated family IS a curve of the model (so a perfect fit exists), and
  (b) any fit that explains the data at least as well as the truth is within twice the noise of
      the truth, in root-mean-square, on the fitted days.
-/
import EEM.Bridge.Curve
import Mathlib.Analysis.InnerProductSpace.PiL2

namespace EEM.Props.C15
open EEM EEM.Spec EEM.Bridge

/-- the generating function of the property: base load, a heating slope below `hb`, a cooling slope above `cb` -/
noncomputable def generator (c βh hb βc cb : ℝ) (T : ℝ) : ℝ := c + βh * max (hb - T) 0 + βc * max (T - cb) 0

/-- **(a) representable**: the unsmoothed model curve with the generating parameters is the generator,
at every temperature (heating-only: βc = 0; cooling-only: βh = 0; flat: both 0) -/
theorem C15_generator_is_a_model_curve (c βh hb βc cb : ℝ) (hord : hb ≤ cb) (T : ℝ) :
    curveR { hb := hb, βh := βh, kh := 0, cb := cb, βc := βc, kc := 0, c := c } T = generator c βh hb βc cb T := by
  have hL := LNMIN_nonpos
  have hU := LNMAX_nonneg
  unfold curveR curve generator
  rcases le_total T hb with h | h
  · rw [heat_of_le_unsmooth hL hU _ rfl h, cool_of_le hL hU _ (le_refl _) (le_trans h hord),
      max_eq_left (by linarith : (0:ℝ) ≤ hb - T), max_eq_right (by linarith : T - cb ≤ 0)]
    ring
  · rw [heat_of_ge hL hU _ (le_refl _) h]
    rcases le_total T cb with h2 | h2
    · rw [cool_of_le hL hU _ (le_refl _) h2, max_eq_right (by linarith : hb - T ≤ 0),
        max_eq_right (by linarith : T - cb ≤ 0)]
      ring
    · rw [cool_of_ge_unsmooth hL hU _ rfl h2, max_eq_right (by linarith : hb - T ≤ 0),
        max_eq_left (by linarith : (0:ℝ) ≤ T - cb)]
      ring

/-- ... and the stored record with those coefficients predicts it (C11's refinement): the family of the
property lies inside the model family, so zero residual is attainable -/
theorem C15_stored_record_predicts_generator {s : Model.Submodel ℝ} {x : X} (h : Effective s x)
    (nw : NotWhole x s.T_max) (hk : x.kh = 0 ∧ x.kc = 0) (T : ℝ) :
    ∃ p, Model.predictSubmodel s T = some p ∧ p.model = generator x.c x.βh x.hb x.βc x.cb T := by
  refine ⟨_, predict_refines h nw T, ?_⟩
  have := C15_generator_is_a_model_curve x.c x.βh x.hb x.βc x.cb h.2.1 T
  obtain ⟨h1, h2⟩ := hk
  have hx : x = { hb := x.hb, βh := x.βh, kh := 0, cb := x.cb, βc := x.βc, kc := 0, c := x.c } := by
    cases x; simp_all
  simp only
  rw [hx]
  exact this

/-- **(b) a near-minimiser recovers the truth**: data `y = g + e`; any fit `f` with
`‖y − f‖ ≤ ‖y − g‖` (it explains the data at least as well as the truth) has `‖f − g‖ ≤ 2‖e‖` -/
theorem C15_near_minimiser_recovers {E : Type*} [NormedAddCommGroup E] (y g f : E) (h : ‖y - f‖ ≤ ‖y - g‖) :
    ‖f - g‖ ≤ 2 * ‖y - g‖ := by
  have : f - g = (y - g) - (y - f) := by abel
  rw [this]
  calc ‖(y - g) - (y - f)‖ ≤ ‖y - g‖ + ‖y - f‖ := norm_sub_le _ _
    _ ≤ 2 * ‖y - g‖ := by linarith

/-- multiplicative noise of relative size at most `ε` has Euclidean norm at most `ε‖g‖` -/
theorem C15_multiplicative_noise_bound {n : ℕ} (g e : EuclideanSpace ℝ (Fin n)) (ε : ℝ) (hε : 0 ≤ ε)
    (h : ∀ i, |e i| ≤ ε * |g i|) : ‖e‖ ≤ ε * ‖g‖ := by
  rw [EuclideanSpace.norm_eq, EuclideanSpace.norm_eq]
  have hs : ∑ i, ‖e i‖ ^ 2 ≤ ε ^ 2 * ∑ i, ‖g i‖ ^ 2 := by
    rw [Finset.mul_sum]
    apply Finset.sum_le_sum
    intro i _
    have := h i
    simp only [Real.norm_eq_abs]
    have h0 : 0 ≤ |e i| := abs_nonneg _
    nlinarith [abs_nonneg (g i)]
  calc Real.sqrt (∑ i, ‖e i‖ ^ 2) ≤ Real.sqrt (ε ^ 2 * ∑ i, ‖g i‖ ^ 2) := Real.sqrt_le_sqrt hs
    _ = ε * Real.sqrt (∑ i, ‖g i‖ ^ 2) := by
      rw [Real.sqrt_mul (sq_nonneg ε), Real.sqrt_sq hε]

/-- **the bound of the property's shape**: with at most 1 % multiplicative noise, a fit that explains the
baseline data at least as well as the generator is within 2 % of the generator's own root-mean-square on
the fitted days (same `√n` on both sides, so the statement is about RMS) -/
theorem C15_rms_bound {n : ℕ} (g e f : EuclideanSpace ℝ (Fin n)) (ε : ℝ) (hε : 0 ≤ ε)
    (hnoise : ∀ i, |e i| ≤ ε * |g i|) (hfit : ‖(g + e) - f‖ ≤ ‖(g + e) - g‖) :
    ‖f - g‖ ≤ 2 * ε * ‖g‖ := by
  have h1 := C15_near_minimiser_recovers (g + e) g f hfit
  have h2 : (g + e) - g = e := by abel
  rw [h2] at h1
  have := C15_multiplicative_noise_bound g e ε hε hnoise
  linarith

/-
  PARTIAL.  Not proved, and not provable in an executable model of reasonable size: that the real
  optimiser (DIRECT + SBPLX on an elastic-net-penalised adaptive loss, with splits chosen by a
  selection criterion) returns a fit satisfying `hfit`, and how the fitted curve behaves on another
  weather year.  ./check C15 measures exactly that hypothesis (SSE of the fit vs SSE of the truth) and
  the property's 5 % bounds on real fits over a fixed grid of generating parameters.
-/
end EEM.Props.C15
