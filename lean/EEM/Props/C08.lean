/-
  EEM.Props.C08 — PROPERTY THEOREMS ONLY.
  C08: usage is conserved when meter data is resampled to days.
  Model: EEM.Model.Resample (hand model, tied to the data classes by ./check C08).
-/
import EEM.Model.Resample
import EEM.Gen.Thresholds
import EEM.Model.ResampleMin
import EEM.Bridge.ResampleRefine
import Mathlib.Tactic.Linarith
import Mathlib.Tactic.FieldSimp
import Mathlib.Tactic.Ring
import Mathlib.Algebra.Order.Field.Rat

namespace EEM.Props.C08
open EEM.Model.Resample

/-- boundaries are non-decreasing -/
def Mono : List Int → Prop
  | a :: b :: rest => a ≤ b ∧ Mono (b :: rest)
  | _ => True

theorem overlap_split (a m b c d : Int) (h1 : a ≤ m) (h2 : m ≤ b) :
    overlap a m c d + overlap m b c d = overlap a b c d := by
  unfold overlap; omega

theorem overlap_nonneg (a b c d : Int) : 0 ≤ overlap a b c d := by unfold overlap; omega

theorem overlap_inside (d0 d1 t0 t1 : Int) (h0 : d0 ≤ t0) (h1 : t1 ≤ d1) (h : t0 ≤ t1) :
    overlap d0 d1 t0 t1 = t1 - t0 := by unfold overlap; omega

theorem overlap_outside (d0 d1 t0 t1 : Int) (h : t1 ≤ d0 ∨ d1 ≤ t0) : overlap d0 d1 t0 t1 = 0 := by
  unfold overlap; omega

theorem mono_head_le_last : ∀ (bs : List Int) (hne : bs ≠ []), Mono bs → bs.head hne ≤ bs.getLast hne
  | [a], _, _ => by simp
  | a :: b :: rest, _, h => by
    have ih := mono_head_le_last (b :: rest) (by simp) h.2
    simp only [List.head_cons, List.getLast_cons_cons] at *
    exact le_trans h.1 ih

/-- the minutes of an interval that fall in consecutive days add up to those in the whole span -/
theorem overlap_days_sum : ∀ (bs : List Int) (hne : bs ≠ []), Mono bs → ∀ (c d : Int),
    ((days bs).map fun x => overlap x.1 x.2 c d).sum = overlap (bs.head hne) (bs.getLast hne) c d
  | [a], _, _, c, d => by simp [days, overlap]
  | a :: b :: rest, _, h, c, d => by
    have ih := overlap_days_sum (b :: rest) (by simp) h.2 c d
    have hl := mono_head_le_last (b :: rest) (by simp) h.2
    simp only [days, List.map_cons, List.sum_cons, List.head_cons, List.getLast_cons_cons] at *
    rw [ih]
    exact overlap_split a b _ c d h.1 hl

/-- shares of one period over consecutive days add up to its share of the whole span -/
theorem share_days_sum (p : Period) (bs : List Int) (hne : bs ≠ []) (hm : Mono bs) :
    ((days bs).map fun x => share p x.1 x.2).sum = share p (bs.head hne) (bs.getLast hne) := by
  unfold share
  cases hv : p.v with
  | none => simp
  | some v =>
    simp only
    have h := overlap_days_sum bs hne hm p.t0 p.t1
    have : ((days bs).map fun x => v * ((overlap x.1 x.2 p.t0 p.t1 : Int) : Rat) / ((p.t1 - p.t0 : Int) : Rat)).sum
        = v * (((days bs).map fun x => overlap x.1 x.2 p.t0 p.t1).sum : Int) / ((p.t1 - p.t0 : Int) : Rat) := by
      induction days bs with
      | nil => simp
      | cons x xs ih => simp only [List.map_cons, List.sum_cons, ih, Int.cast_add]; ring
    rw [this, h]

/-- **a billed amount is conserved**: when the local-day boundaries start at the period's first
instant and end at its last (reads aligned to local midnight), the daily shares of a valid period
add up to exactly the billed amount — for every period length, every day length (23/24/25 h) -/
theorem C08_billing_period_conserved (p : Period) (x : Rat) (hv : p.v = some x) (hlen : p.t0 < p.t1)
    (bs : List Int) (hne : bs ≠ []) (hm : Mono bs) (h0 : bs.head hne = p.t0) (h1 : bs.getLast hne = p.t1) :
    ((days bs).map fun d => share p d.1 d.2).sum = x := by
  rw [share_days_sum p bs hne hm, h0, h1]
  unfold share
  rw [hv]
  simp only
  rw [overlap_inside _ _ _ _ (le_refl _) (le_refl _) hlen.le]
  have : ((p.t1 - p.t0 : Int) : Rat) ≠ 0 := by
    have : (p.t1 - p.t0 : Int) ≠ 0 := by omega
    exact_mod_cast this
  field_simp

/-- **nothing is invented or lost**: over any run of whole days, the daily sums add up to exactly the
usage of the intervals, prorated to the run at its two ends -/
theorem C08_total_conserved (ps : List Period) (bs : List Int) (hne : bs ≠ []) (hm : Mono bs) :
    ((days bs).map fun d => daySum ps d.1 d.2).sum
      = (ps.map fun p => share p (bs.head hne) (bs.getLast hne)).sum := by
  unfold daySum
  induction ps with
  | nil => simp
  | cons p ps ih =>
    simp only [List.map_cons, List.sum_cons]
    rw [← ih, ← share_days_sum p bs hne hm]
    induction days bs with
    | nil => simp
    | cons d ds ihd => simp only [List.map_cons, List.sum_cons, ihd]; ring

/-- a period that lies inside a day gives the day its whole value; one that misses the day gives nothing -/
theorem share_inside (p : Period) (x : Rat) (hv : p.v = some x) (d0 d1 : Int) (h0 : d0 ≤ p.t0) (h1 : p.t1 ≤ d1)
    (hlen : p.t0 < p.t1) : share p d0 d1 = x := by
  unfold share; rw [hv]; simp only
  rw [overlap_inside _ _ _ _ h0 h1 hlen.le]
  have : ((p.t1 - p.t0 : Int) : Rat) ≠ 0 := by
    have : (p.t1 - p.t0 : Int) ≠ 0 := by omega
    exact_mod_cast this
  field_simp

theorem share_outside (p : Period) (d0 d1 : Int) (h : p.t1 ≤ d0 ∨ d1 ≤ p.t0) : share p d0 d1 = 0 := by
  unfold share; cases p.v <;> simp [overlap_outside _ _ _ _ h]

/-- value of a period as a number (missing counts nothing) -/
def valueOr0 (p : Period) : Rat := p.v.getD 0

/-- **a day whose readings all lie inside it equals the sum of its readings**: if every period either
lies inside the day or misses it altogether, the day's sum is the sum of the values inside -/
theorem C08_day_is_sum_of_its_readings (ps : List Period) (d0 d1 : Int)
    (h : ∀ p ∈ ps, (d0 ≤ p.t0 ∧ p.t1 ≤ d1 ∧ p.t0 < p.t1) ∨ (p.t1 ≤ d0 ∨ d1 ≤ p.t0)) :
    daySum ps d0 d1 = ((ps.filter fun p => decide (d0 ≤ p.t0 ∧ p.t1 ≤ d1 ∧ p.t0 < p.t1)).map valueOr0).sum := by
  unfold daySum
  induction ps with
  | nil => simp
  | cons p ps ih =>
    have ih' := ih (fun q hq => h q (List.mem_cons_of_mem _ hq))
    simp only [List.map_cons, List.sum_cons, List.filter_cons]
    rcases h p (List.mem_cons_self ..) with hin | hout
    · rw [if_pos (by simpa using hin), List.map_cons, List.sum_cons, ih']
      congr 1
      unfold valueOr0
      cases hv : p.v with
      | none => simp [share, hv]
      | some x => simpa using share_inside p x hv d0 d1 hin.1 hin.2.1 hin.2.2
    · have hnot : ¬ (d0 ≤ p.t0 ∧ p.t1 ≤ d1 ∧ p.t0 < p.t1) := by omega
      rw [if_neg (by simpa using hnot), ih', share_outside p d0 d1 hout, zero_add]

/-- **the 50 % rule**: a day covered for half or less is missing -/
theorem C08_half_or_less_is_missing (ps : List Period) (d0 d1 : Int) (h : coverage ps d0 d1 ≤ 1 / 2) :
    downsampleDay ps d0 d1 = none := by
  unfold downsampleDay; rw [if_neg (not_lt.mpr h)]

/-- **a day covered for more than half is scaled by 1/coverage** -/
theorem C08_partial_day_scaled (ps : List Period) (d0 d1 : Int) (h : 1 / 2 < coverage ps d0 d1) :
    downsampleDay ps d0 d1 = some (daySum ps d0 d1 / coverage ps d0 d1) := by
  unfold downsampleDay; rw [if_pos h]

/-- **a fully covered day is the plain sum** -/
theorem C08_full_day_unscaled (ps : List Period) (d0 d1 : Int) (h : coverage ps d0 d1 = 1) :
    downsampleDay ps d0 d1 = some (daySum ps d0 d1) := by
  unfold downsampleDay; rw [h]; norm_num

/-- scaling gives back exactly what was measured: value × coverage = measured sum -/
theorem C08_scaled_times_coverage (ps : List Period) (d0 d1 : Int) (v : Rat) (h : downsampleDay ps d0 d1 = some v) :
    v * coverage ps d0 d1 = daySum ps d0 d1 := by
  unfold downsampleDay at h
  split at h
  · rename_i hc
    cases h
    have : coverage ps d0 d1 ≠ 0 := by intro h0; rw [h0] at hc; norm_num at hc
    field_simp
  · cases h

/-- **off-cycle periods are dropped**: shorter than 25 days, or longer than 35 (monthly) / 70
(bi-monthly) calendar days — the period contributes no usage and no coverage to any day -/
theorem C08_offcycle_dropped (c : Cycle) (p : Period) (days : Int) (h : days < 25 ∨ days > c.maxDays) (d0 d1 : Int) :
    ∀ q ∈ cleanBilling c [(p, days)], share q d0 d1 = 0 ∧ covered q d0 d1 = 0 := by
  intro q hq
  have hoff : offCycle c days = true := by unfold offCycle; rcases h with h | h <;> simp [h]
  simp only [cleanBilling, List.map_cons, List.map_nil, hoff, if_true, List.mem_singleton] at hq
  subst hq
  simp [share, covered]

/-- in-cycle periods are kept unchanged (25..35 / 25..70 whole calendar days, inclusive) -/
theorem C08_incycle_kept (c : Cycle) (p : Period) (days : Int) (h1 : 25 ≤ days) (h2 : days ≤ c.maxDays) :
    cleanBilling c [(p, days)] = [p] := by
  have hoff : offCycle c days = false := by
    unfold offCycle
    simp only [Bool.or_eq_false_iff, decide_eq_false_iff_not, not_lt]
    exact ⟨h1, h2⟩
  simp [cleanBilling, hoff]

/-- a period of N local calendar days has calendar length N whatever DST changes it contains (its two
reads are N·1440 wall-clock minutes apart), so 25 local days are never off-cycle and 36 always are -/
theorem C08_calendar_length (w0 : Int) (n : Int) : lenDays w0 (w0 + n * 1440) = n := by
  unfold lenDays
  have : w0 + n * 1440 - w0 = n * 1440 := by ring
  rw [this]
  exact Int.mul_ediv_cancel n (by norm_num)

/-- a day no valid period reaches is missing (billing spread) -/
theorem C08_uncovered_day_missing (ps : List Period) (d0 d1 : Int)
    (h : ∀ p ∈ ps, covered p d0 d1 = 0) : spreadDay ps d0 d1 = none := by
  unfold spreadDay dayCovered
  have : (ps.map fun p => covered p d0 d1).sum = 0 := by
    induction ps with
    | nil => simp
    | cons p ps ih =>
      simp only [List.map_cons, List.sum_cons, h p (List.mem_cons_self ..), zero_add]
      exact ih (fun q hq => h q (List.mem_cons_of_mem _ hq))
  rw [if_pos this]

/-- readings with values at strictly increasing instants -/
def Tiling : List (Int × Option Rat) → Prop
  | (t0, v) :: (t1, w) :: rest => t0 < t1 ∧ v.isSome ∧ Tiling ((t1, w) :: rest)
  | _ => True

theorem tiling_head_le_last : ∀ (rs : List (Int × Option Rat)) (hne : rs ≠ []), Tiling rs →
    (rs.head hne).1 ≤ (rs.getLast hne).1
  | [_], _, _ => by simp
  | (t0, v) :: (t1, w) :: rest, _, h => by
    have ih := tiling_head_le_last ((t1, w) :: rest) (by simp) h.2.2
    simp only [List.head_cons, List.getLast_cons_cons] at ih ⊢
    exact le_trans h.1.le ih

/-- readings that tile `[d0,d1)` without a gap (first at `d0`, the one after the last at `d1`, all present)
cover every minute of it -/
theorem covered_tiling : ∀ (rs : List (Int × Option Rat)) (hne : rs ≠ []), Tiling rs →
    dayCovered (periods rs) (rs.head hne).1 (rs.getLast hne).1 = (rs.getLast hne).1 - (rs.head hne).1
  | [_], _, _ => by simp [periods, dayCovered]
  | (t0, v) :: (t1, w) :: rest, _, h => by
    obtain ⟨hlt, hv, ht⟩ := h
    have ih := covered_tiling ((t1, w) :: rest) (by simp) ht
    have hmono : t1 ≤ (((t1, w) :: rest).getLast (by simp)).1 := by
      have := tiling_head_le_last ((t1, w) :: rest) (by simp) ht
      simpa using this
    obtain ⟨x, hx⟩ := Option.isSome_iff_exists.mp hv
    simp only [periods, dayCovered, List.map_cons, List.sum_cons, List.head_cons, List.getLast_cons_cons] at ih ⊢
    set e := (((t1, w) :: rest).getLast (by simp)).1 with he
    have h1 : covered ⟨t0, t1, v⟩ t0 e = t1 - t0 := by
      simp only [covered, hx]
      unfold overlap; omega
    -- the remaining periods all start at or after t1: their overlap with [t0,e) is their overlap with [t1,e)
    have h2 : ∀ (l : List (Int × Option Rat)), Tiling l → (∀ hl : l ≠ [], t1 ≤ (l.head hl).1) →
        ((periods l).map fun p => covered p t0 e) = ((periods l).map fun p => covered p t1 e) := by
      intro l
      induction l with
      | nil => intro _ _; simp [periods]
      | cons a l ihl =>
        intro hT hh
        cases l with
        | nil => simp [periods]
        | cons b l =>
          obtain ⟨a0, av⟩ := a
          obtain ⟨b0, bv⟩ := b
          have ha : t1 ≤ a0 := hh (by simp)
          have := ihl hT.2.2 (fun _ => by simp only [List.head_cons]; exact le_trans ha hT.1.le)
          simp only [periods, List.map_cons, this]
          congr 1
          simp only [covered]
          cases av <;> simp only
          unfold overlap
          have := hT.1
          omega
    rw [h2 ((t1, w) :: rest) ht (fun _ => by simp), h1, ih]
    omega

/-- **a day tiled by present readings is covered completely and equals the sum of its readings**:
the sub-daily rule for a fully covered day, from the readings alone -/
theorem C08_fully_covered_day (rs : List (Int × Option Rat)) (hne : rs ≠ []) (h : Tiling rs)
    (hlt : (rs.head hne).1 < (rs.getLast hne).1) :
    coverage (periods rs) (rs.head hne).1 (rs.getLast hne).1 = 1 := by
  unfold coverage
  rw [covered_tiling rs hne h]
  have : (((rs.getLast hne).1 - (rs.head hne).1 : Int) : Rat) ≠ 0 := by
    have : (rs.getLast hne).1 - (rs.head hne).1 ≠ 0 := by omega
    exact_mod_cast this
  field_simp

/-! ### Non-vacuity: a 30-day period over thirty 24-hour days, billed 300 -/
example : ((days ((List.range 31).map fun i => (i : Int) * 1440)).map
    fun d => share ⟨0, 43200, some 300⟩ d.1 d.2).sum = 300 := by
  decide +kernel

/-! ### T1: the row rules regenerated from the source -/
open EEM.Gen.Thresholds

/-- **the source's off-cycle rule is the model's**: the masks `clean_billing_data` applies to the period lengths
(regenerated from the source: `EEM.Gen.Thresholds`) keep exactly the periods `offCycle` does not reject, and the
off-cycle warning is issued for exactly the rejected ones — for every length -/
theorem C08_src_offcycle (d : Int) :
    keepMonthly (d : Rat) = !offCycle .monthly d ∧ keepBimonthly (d : Rat) = !offCycle .bimonthly d ∧
    warnMonthly (d : Rat) = offCycle .monthly d ∧ warnBimonthly (d : Rat) = offCycle .bimonthly d := by
  have e35 : ((d : Rat) ≤ 35) ↔ d ≤ 35 := by exact_mod_cast Iff.rfl
  have e70 : ((d : Rat) ≤ 70) ↔ d ≤ 70 := by exact_mod_cast Iff.rfl
  have e25 : ((d : Rat) ≥ 25) ↔ d ≥ 25 := by exact_mod_cast Iff.rfl
  have g35 : ((d : Rat) > 35) ↔ d > 35 := by exact_mod_cast Iff.rfl
  have g70 : ((d : Rat) > 70) ↔ d > 70 := by exact_mod_cast Iff.rfl
  have l25 : ((d : Rat) < 25) ↔ d < 25 := by exact_mod_cast Iff.rfl
  simp only [keepMonthly, keepBimonthly, warnMonthly, warnBimonthly, offCycle, Cycle.maxDays, e35, e70, e25, g35, g70, l25]
  refine ⟨?_, ?_, ?_, ?_⟩ <;> rw [Bool.eq_iff_iff] <;> simp <;> omega

/-- **the source's 50 % rule and 1/coverage scaling are the model's** (`downsample_and_clean_daily_data`) -/
theorem C08_src_half_rule (ps : List Period) (d0 d1 : Int) :
    downsampleDay ps d0 d1 =
      if dayKept (coverage ps d0 d1) then some (dayScaled (daySum ps d0 d1) (coverage ps d0 d1)) else none := by
  unfold downsampleDay dayKept dayScaled
  simp

/-- a day is reported as under-covered exactly when it is dropped -/
theorem C08_src_warned_iff_dropped (c : Rat) : dayWarn c = !dayKept c := by
  unfold dayWarn dayKept
  rw [Bool.eq_iff_iff]; simp

/-! ### The minute-grid algorithm `as_freq` runs (`EEM.Model.ResampleMin`) refines the closed form -/

open EEM.Model.ResampleMin EEM.Bridge.ResampleRefine

/-- **spreading a reading evenly over its minutes and summing the minutes of a day is the interval-overlap share**:
for readings on a strictly increasing index, the day sum the source computes minute by minute
(`series * spread_factor`, `asfreq("1 Min", ffill)`, `resample("D").sum()`) is exactly `daySum` — the quantity every
conservation theorem above is about -/
theorem C08_src_minute_grid_day_sum (reads : List (Int × Option Rat)) (hs : reads.Pairwise (fun a b => a.1 < b.1))
    (d0 d1 : Int) (hd : d0 ≤ d1) :
    daySumMin (periods reads) d0 d1 = daySum (periods reads) d0 d1 := by
  unfold daySumMin minutes
  have := daySumMin_eq (periods reads) (periods_chained reads hs) (d1 - d0).toNat d0
  rw [this]
  congr 1
  omega

/-- … and the number of minutes of the day that carry a value (`resample("D").count()`, the numerator of the coverage)
is exactly `dayCovered` -/
theorem C08_src_minute_grid_day_count (reads : List (Int × Option Rat)) (hs : reads.Pairwise (fun a b => a.1 < b.1))
    (d0 d1 : Int) (hd : d0 ≤ d1) :
    ((dayCountMin (periods reads) d0 d1 : Nat) : Int) = dayCovered (periods reads) d0 d1 := by
  unfold dayCountMin minutes
  have := dayCountMin_eq (periods reads) (periods_chained reads hs) (d1 - d0).toNat d0
  rw [this]
  congr 1
  omega

/-- hence the whole per-day rule — coverage, the 50 % test and the 1/coverage scaling — computed on the minute grid is the
closed-form `downsampleDay` -/
theorem C08_src_minute_grid_downsample (reads : List (Int × Option Rat)) (hs : reads.Pairwise (fun a b => a.1 < b.1))
    (d0 d1 : Int) (hd : d0 ≤ d1) :
    downsampleDayMin (periods reads) d0 d1 = downsampleDay (periods reads) d0 d1 := by
  unfold downsampleDayMin downsampleDay coverage
  rw [C08_src_minute_grid_day_sum reads hs d0 d1 hd]
  have h := C08_src_minute_grid_day_count reads hs d0 d1 hd
  have : ((dayCountMin (periods reads) d0 d1 : Nat) : Rat) = ((dayCovered (periods reads) d0 d1 : Int) : Rat) := by
    exact_mod_cast h
  rw [this]

/-- **billing data too**: spreading each bill over the minutes of its period and summing the minutes of a day is `spreadDay`, for
any chained list of periods (off-cycle periods blanked or not) -/
theorem C08_src_minute_grid_billing_day (ps : List Period) (hch : Chained ps) (d0 d1 : Int) (hd : d0 ≤ d1) :
    spreadDayMin ps d0 d1 = spreadDay ps d0 d1 := by
  have hn : d0 + ((d1 - d0).toNat : Int) = d1 := by omega
  have hs := daySumMin_eq ps hch (d1 - d0).toNat d0
  have hc := dayCountMin_eq ps hch (d1 - d0).toNat d0
  rw [hn] at hs hc
  unfold spreadDayMin spreadDay dayCountMin daySumMin minutes
  rw [hs]
  by_cases hz : dayCovered ps d0 d1 = 0
  · have : ((minutesFrom d0 (d1 - d0).toNat).filter fun m => (rateAt ps m).isSome).length = 0 := by
      have := hc; rw [hz] at this; exact_mod_cast this
    simp [this, hz]
  · have hne : ((minutesFrom d0 (d1 - d0).toNat).filter fun m => (rateAt ps m).isSome).length ≠ 0 := by
      intro h0; apply hz; rw [← hc, h0]; rfl
    simp [hne, hz]

/-- consecutive boundaries of a non-decreasing list are ordered -/
theorem days_ordered : ∀ (bounds : List Int), bounds.Pairwise (· ≤ ·) → ∀ d ∈ days bounds, d.1 ≤ d.2
  | [], _, d, hd => by simp [days] at hd
  | [_], _, d, hd => by simp [days] at hd
  | a :: b :: rest, hp, d, hd => by
    simp only [days, List.mem_cons] at hd
    rcases hd with rfl | hd
    · exact (List.pairwise_cons.mp hp).1 b (by simp)
    · exact days_ordered (b :: rest) (List.pairwise_cons.mp hp).2 d hd

/-- **the whole sub-daily pipeline of the daily data class, minute by minute, is the closed form**: for every series on a
strictly increasing index (missing readings dropped first, as the class does) and every non-decreasing list of day
boundaries -/
theorem C08_src_minute_grid_subdaily (reads : List (Int × Option Rat)) (hs : reads.Pairwise (fun a b => a.1 < b.1))
    (bounds : List Int) (hb : bounds.Pairwise (· ≤ ·)) :
    subDailyMin reads bounds = subDaily reads bounds := by
  unfold subDailyMin subDaily downsampleDaily
  apply List.map_congr_left
  intro d hd
  exact C08_src_minute_grid_downsample _ (hs.filter _) d.1 d.2 (days_ordered bounds hb d hd)

/-- the minute-grid model on a concrete hourly meter: two readings of 6 and 3 over one hour each, then the closing stamp;
the "day" [0, 90) holds the whole first reading and half of the second -/
example : daySumMin (periods [(0, some 6), (60, some 3), (120, none)]) 0 90 = 6 + 3 / 2 ∧
    dayCountMin (periods [(0, some 6), (60, some 3), (120, none)]) 0 90 = 90 := by
  decide +kernel

end EEM.Props.C08
