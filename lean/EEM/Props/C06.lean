/-
  EEM.Props.C06 — PROPERTY THEOREMS ONLY.
  C06: predictions come back one row per input timestamp, on the real clock.

  Hourly: about `EEM.Model.Dst` (hand model of _get_dst_indices / _transform_dst, tied to the real
  functions by ./check C06 over IANA zones × transitions).  The prediction array is assigned to
  the frame positionally, so "one row per timestamp, none shifted" is: the transformed array has
  exactly one value per row of every day, and each day's values come from that day's own 24 slots.
  Daily/billing: about `EEM.Model.PredictFrame`.
  Any number of days, any number and order of transitions, any per-slot predictor.
-/
import EEM.Real
import EEM.Model.Dst
import EEM.Model.PredictFrame
import Mathlib.Tactic.Linarith

namespace EEM.Props.C06
open EEM EEM.Model.Dst

/-- a day's op is consistent with 24 predictions: hour in range -/
def DayOp.ok : DayOp → Prop
  | .none => True
  | .interp h => h < 24
  | .mean h => h < 24

/-- **one value per row of the day**: 24 predictions become 23 for a skipped-hour day, 25 for a
repeated-hour day (when the repeated hour is 23:00 the next day's first slot must exist) -/
theorem C06_day_length (op : DayOp) (next : Option ℝ) (p : List ℝ) (hp : p.length = 24)
    (hok : DayOp.ok op) (hn : ∀ h, op = .mean h → h = 23 → next.isSome) :
    (transformDay op next p).length = op.rows := by
  cases op with
  | none => simp [transformDay, DayOp.rows, hp]
  | interp h =>
    have h24 : h < 24 := hok
    have : h < p.length := by rw [hp]; exact h24
    simp [transformDay, DayOp.rows, List.length_eraseIdx, hp, h24]
  | mean h =>
    have hh : h < 24 := hok
    unfold transformDay
    simp only
    have h1 : p[h]? = some p[h] := List.getElem?_eq_getElem (by omega)
    rw [h1]
    by_cases h23 : h + 1 < p.length
    · have h2 : p[h + 1]? = some p[h + 1] := List.getElem?_eq_getElem h23
      simp only [h23, if_true, h2]
      simp [DayOp.rows, hp]
      omega
    · have : h = 23 := by omega
      obtain ⟨b, hb⟩ := Option.isSome_iff_exists.mp (hn h rfl this)
      simp only [h23, if_false, hb]
      simp [DayOp.rows, hp]
      omega

/-- **whole frame**: for any number of days and any placement of transitions, the transformed
prediction has exactly Σ rows(day) values — so it can be assigned to the frame row by row -/
theorem C06_dst_roundtrip_length : ∀ (ops : List DayOp) (pred : List ℝ),
    pred.length = 24 * ops.length → (∀ op ∈ ops, DayOp.ok op) →
    (∀ op ∈ ops.dropLast, True) →
    (ops.getLast? ≠ some (.mean 23)) →
    (transformDst ops pred).length = (ops.map DayOp.rows).sum
  | [], pred, _, _, _, _ => by simp [transformDst]
  | op :: ops, pred, hlen, hok, _, hlast => by
    unfold transformDst
    have h24 : (pred.take 24).length = 24 := by simp [List.length_take]; simp at hlen; omega
    have hrest : (pred.drop 24).length = 24 * ops.length := by simp [List.length_drop]; simp at hlen; omega
    have hnext : ∀ h, op = .mean h → h = 23 → ((pred.drop 24).head?).isSome := by
      intro h hop h23
      cases ops with
      | nil => subst hop; subst h23; simp at hlast
      | cons o os =>
        have : 0 < (pred.drop 24).length := by rw [hrest]; simp
        cases hd : pred.drop 24 with
        | nil => rw [hd] at this; simp at this
        | cons a t => simp
    rw [List.length_append, C06_day_length op _ _ h24 (hok op List.mem_cons_self) hnext]
    have ih := C06_dst_roundtrip_length ops (pred.drop 24) hrest
      (fun o ho => hok o (List.mem_cons_of_mem _ ho)) (fun _ _ => trivial)
      (by
        cases ops with
        | nil => simp
        | cons o os => simpa [List.getLast?_cons_cons] using hlast)
    rw [ih]
    simp

/-- **nothing shifts before a transition**: on a skipped-hour day, the rows before the gap keep their slot -/
theorem C06_skipped_hour_before (h : Nat) (next : Option ℝ) (p : List ℝ) (i : Nat) (hi : i < h) :
    (transformDay (.interp h) next p)[i]? = p[i]? := by
  simp [transformDay, List.getElem?_eraseIdx, hi]

/-- **the skipped hour stays absent**: the rows after the gap take the NEXT clock hour's slot -/
theorem C06_skipped_hour_absent (h : Nat) (next : Option ℝ) (p : List ℝ) (i : Nat) (hi : h ≤ i) :
    (transformDay (.interp h) next p)[i]? = p[i + 1]? := by
  simp [transformDay, List.getElem?_eraseIdx, Nat.not_lt.mpr hi]

/-- **a repeated hour appears twice**: rows up to and including the first occurrence keep their slot,
the second occurrence gets its own (interpolated) value, later rows take the slot one earlier -/
theorem C06_repeated_hour_twice (h : Nat) (next : Option ℝ) (p : List ℝ) (hp : p.length = 24) (hh : h + 1 < 24) :
    (∀ i, i ≤ h → (transformDay (.mean h) next p)[i]? = p[i]?)
    ∧ (transformDay (.mean h) next p)[h + 1]? = some (avg p[h] p[h + 1])
    ∧ (∀ i, h + 1 < i → (transformDay (.mean h) next p)[i]? = p[i - 1]?) := by
  have h1 : p[h]? = some p[h] := List.getElem?_eq_getElem (by omega)
  have h2 : p[h + 1]? = some p[h + 1] := List.getElem?_eq_getElem (by omega)
  have hlt : h + 1 < p.length := by omega
  unfold transformDay
  simp only [h1, hlt, if_true, h2]
  refine ⟨?_, ?_, ?_⟩
  · intro i hi
    rw [List.append_assoc, List.getElem?_append_left (by simp; omega)]
    simp [List.getElem?_take]
    omega
  · rw [List.append_assoc, List.getElem?_append_right (by simp)]
    have hm : min (h + 1) p.length = h + 1 := by omega
    simp [hm]
  · intro i hi
    rw [List.append_assoc, List.getElem?_append_right (by simp; omega)]
    have hm : min (h + 1) p.length = h + 1 := by omega
    simp only [List.length_take, hm]
    rw [List.getElem?_append_right (by simp; omega)]
    simp only [List.length_singleton, List.getElem?_drop]
    congr 1
    omega

/-! ### daily / billing -/
open EEM.Model.PredictFrame in
/-- **daily: exactly one row per timestamp of the data object's frame, in the same (time) order** —
none dropped, none duplicated — whenever every predictable day is routed to exactly one sub-model (C13) -/
theorem C06_daily_one_row_per_timestamp {α β : Type} (m : MaskMode) (hasObs : Bool)
    (route : InRow α → List String) (curve : String → α → β) (rows : List (InRow α))
    (hroute : ∀ r ∈ rows, isClean hasObs r = true → (route r).length = 1) :
    (predictFrame m hasObs route curve rows).map (·.t) = rows.map (·.t) := by
  unfold predictFrame
  induction rows with
  | nil => rfl
  | cons r rest ih =>
    rw [List.flatMap_cons, List.map_append, List.map_cons,
      ih (fun r' hr' => hroute r' (List.mem_cons_of_mem _ hr'))]
    congr 1
    unfold outRows
    by_cases hc : isClean hasObs r = true
    · simp only [hc, if_true]
      have hcl := hc
      unfold isClean at hcl
      simp only [Bool.and_eq_true] at hcl
      cases hT : r.temperature with
      | nan => rw [hT] at hcl; simp [Cell.isFin] at hcl
      | inf => rw [hT] at hcl; simp [Cell.isFin] at hcl
      | fin T =>
        simp only
        have := hroute r List.mem_cons_self hc
        obtain ⟨s, hs⟩ := List.length_eq_one_iff.mp this
        rw [hs]
        simp
    · simp [hc]

open EEM.Model.PredictFrame in
/-- **daily: a prediction exactly on rows with a finite temperature (and a usage value, when usage
was supplied)** -/
theorem C06_daily_finite_iff {α β : Type} (m : MaskMode) (hasObs : Bool)
    (route : InRow α → List String) (curve : String → α → β) (rows : List (InRow α))
    (hroute : ∀ r ∈ rows, isClean hasObs r = true → route r ≠ []) :
    ∀ r ∈ rows, ∀ o ∈ outRows m hasObs route curve r,
      o.predicted.isSome = (r.temperature.isFin && (!hasObs || r.observed.isFin)) := by
  intro r hr o ho
  unfold outRows at ho
  by_cases hc : isClean hasObs r = true
  · simp only [hc, if_true] at ho
    have hcl := hc
    unfold isClean at hcl
    cases hT : r.temperature with
    | nan => rw [hT] at hcl; simp [Cell.isFin] at hcl
    | inf => rw [hT] at hcl; simp [Cell.isFin] at hcl
    | fin T =>
      rw [hT] at ho
      simp only at ho
      cases hs : route r with
      | nil => exact absurd hs (hroute r hr hc)
      | cons s ss =>
        rw [hs] at ho
        obtain ⟨s', _, rfl⟩ := List.mem_map.mp ho
        rw [hT] at hcl
        simpa using hcl.symm
  · simp only [hc, Bool.false_eq_true, if_false, List.mem_singleton] at ho
    subst ho
    unfold isClean at hc
    simpa using hc

/-! ### Non-vacuity -/
example : transformDst [.none, .interp 2, .mean 1] (List.map (fun n => (n : ℝ)) (List.range 72)) ≠ [] := by
  simp [transformDst, transformDay]

end EEM.Props.C06
