/-
  EEM.Props.C06 — PROPERTY THEOREMS ONLY.
  C06: predictions come back one row per input timestamp, on the real clock.

  Hourly: about `EEM.Model.Dst` (hand model of _get_dst_indices / _transform_dst, tied to the real
  functions by ./check C06 over IANA zones × transitions).  The prediction array is assigned to
  the frame positionally, so "one row per timestamp, none shifted" is: the transformed array has
  exactly one value per row of every day, and each day's values come from that day's own 24 slots.
  Daily/billing: about `EEM.Model.PredictFrame`.
  Any number of days, any number and order of transitions, any per-slot predictor.
-/
import EEM.Gen.DstStatements
import EEM.Spec.DstStatements
import EEM.Real
import EEM.Model.Dst
import EEM.Model.PredictFrame
import EEM.Model.DstSrc
import EEM.Bridge.DstRefine
import Mathlib.Tactic.Linarith

namespace EEM.Props.C06
open EEM EEM.Model.Dst

/-- a day's op is consistent with 24 predictions: hour in range -/
def DayOp.ok : DayOp → Prop
  | .none => True
  | .interp h => h < 24
  | .mean h => h < 24

/-- **one value per row of the day**: 24 predictions become 23 for a skipped-hour day, 25 for a
repeated-hour day (when the repeated hour is 23:00 the next day's first slot must exist) -/
theorem C06_day_length (op : DayOp) (next : Option ℝ) (p : List ℝ) (hp : p.length = 24)
    (hok : DayOp.ok op) (hn : ∀ h, op = .mean h → h = 23 → next.isSome) :
    (transformDay op next p).length = op.rows := by
  cases op with
  | none => simp [transformDay, DayOp.rows, hp]
  | interp h =>
    have h24 : h < 24 := hok
    have : h < p.length := by rw [hp]; exact h24
    simp [transformDay, DayOp.rows, List.length_eraseIdx, hp, h24]
  | mean h =>
    have hh : h < 24 := hok
    unfold transformDay
    simp only
    have h1 : p[h]? = some p[h] := List.getElem?_eq_getElem (by omega)
    rw [h1]
    by_cases h23 : h + 1 < p.length
    · have h2 : p[h + 1]? = some p[h + 1] := List.getElem?_eq_getElem h23
      simp only [h23, if_true, h2]
      simp [DayOp.rows, hp]
      omega
    · have : h = 23 := by omega
      obtain ⟨b, hb⟩ := Option.isSome_iff_exists.mp (hn h rfl this)
      simp only [h23, if_false, hb]
      simp [DayOp.rows, hp]
      omega

/-- **whole frame**: for any number of days and any placement of transitions, the transformed
prediction has exactly Σ rows(day) values — so it can be assigned to the frame row by row -/
theorem C06_dst_roundtrip_length : ∀ (ops : List DayOp) (pred : List ℝ),
    pred.length = 24 * ops.length → (∀ op ∈ ops, DayOp.ok op) →
    (∀ op ∈ ops.dropLast, True) →
    (ops.getLast? ≠ some (.mean 23)) →
    (transformDst ops pred).length = (ops.map DayOp.rows).sum
  | [], pred, _, _, _, _ => by simp [transformDst]
  | op :: ops, pred, hlen, hok, _, hlast => by
    unfold transformDst
    have h24 : (pred.take 24).length = 24 := by simp [List.length_take]; simp at hlen; omega
    have hrest : (pred.drop 24).length = 24 * ops.length := by simp [List.length_drop]; simp at hlen; omega
    have hnext : ∀ h, op = .mean h → h = 23 → ((pred.drop 24).head?).isSome := by
      intro h hop h23
      cases ops with
      | nil => subst hop; subst h23; simp at hlast
      | cons o os =>
        have : 0 < (pred.drop 24).length := by rw [hrest]; simp
        cases hd : pred.drop 24 with
        | nil => rw [hd] at this; simp at this
        | cons a t => simp
    rw [List.length_append, C06_day_length op _ _ h24 (hok op List.mem_cons_self) hnext]
    have ih := C06_dst_roundtrip_length ops (pred.drop 24) hrest
      (fun o ho => hok o (List.mem_cons_of_mem _ ho)) (fun _ _ => trivial)
      (by
        cases ops with
        | nil => simp
        | cons o os => simpa [List.getLast?_cons_cons] using hlast)
    rw [ih]
    simp

/-! ### The source's own algorithm (literal transcription `EEM.Model.DstSrc`) -/

open EEM.Model.DstSrc EEM.Bridge.DstRefine in
theorem okOp_iff (op : DayOp) : okOp op ↔ DayOp.ok op := by cases op <;> exact Iff.rfl

open EEM.Model.DstSrc EEM.Bridge.DstRefine in
/-- every value `_transform_dst` indexes exists, unless the LAST day repeats 23:00 (then the source raises) -/
theorem C06_src_indexed_values_exist (p : List ℝ) : ∀ (d : List DayOp) (k : Nat),
    p.length = 24 * (k + d.length) → (∀ op ∈ d, DayOp.ok op) → d.getLast? ≠ some (.mean 23) →
    ∃ vals, valsAux p k d = some vals := by
  intro d
  induction d with
  | nil => intro k _ _ _; exact ⟨[], rfl⟩
  | cons op r ih =>
    intro k hl hok hlast
    have hlr : p.length = 24 * (k + 1 + r.length) := by simp at hl; omega
    have hokr : ∀ op ∈ r, DayOp.ok op := fun o ho => hok o (List.mem_cons_of_mem _ ho)
    have hlastr : r.getLast? ≠ some (.mean 23) := by
      cases r with
      | nil => simp
      | cons o os => simpa [List.getLast?_cons_cons] using hlast
    obtain ⟨vs, hvs⟩ := ih (k + 1) hlr hokr hlastr
    cases op with
    | none => exact ⟨vs, by simpa [valsAux] using hvs⟩
    | interp h => exact ⟨vs, by simpa [valsAux] using hvs⟩
    | mean h =>
      have hh : h < 24 := hok (.mean h) (by simp)
      have hidx : k * 24 + h + 1 < p.length := by
        cases r with
        | nil =>
          have : h ≠ 23 := by intro h23; subst h23; simp at hlast
          simp at hl; omega
        | cons o os => simp at hl; omega
      have h1 : ∃ a, p[k * 24 + h]? = some a := ⟨p[k * 24 + h]'(by omega), by simp⟩
      have h2 : ∃ b, p[k * 24 + h + 1]? = some b := ⟨p[k * 24 + h + 1]'hidx, by simp⟩
      obtain ⟨a, ha⟩ := h1
      obtain ⟨b, hb⟩ := h2
      exact ⟨avg a b :: vs, by simp [valsAux, interpolatedVal, ha, hb, hvs]⟩

open EEM.Model.DstSrc EEM.Bridge.DstRefine in
/-- **`_transform_dst` as written is the per-day model**: for any number of whole days and any placement of
23- and 25-row days — except a repeated 23:00 on the last day (the source raises `IndexError`: finding C06-F4's
neighbour) and a repeated 23:00 directly followed by a skipped 00:00 (`noClash`: two operations on one flat
index, not produced by any zone rule) — the source's global algorithm (operations sorted by flat index,
fence-post slices, an iterator of interpolated values) returns exactly the per-day transformation that the
theorems above are about -/
theorem C06_src_transform_is_per_day (p : List ℝ) (d : List DayOp)
    (hlen : p.length = 24 * d.length) (hok : ∀ op ∈ d, DayOp.ok op) (hnc : noClash d = true)
    (hlast : d.getLast? ≠ some (.mean 23)) :
    transformDstSrc p (interpOf d) (meanOf d) = some (transformDst d p) := by
  obtain ⟨vals, hv⟩ := C06_src_indexed_values_exist p d 0 (by simpa using hlen) hok hlast
  exact transformDstSrc_eq p d vals (fun op h => (okOp_iff op).mpr (hok op h)) hlen hnc hv

open EEM.Model.DstSrc EEM.Bridge.DstRefine in
/-- hence **the source returns one value per row of the frame** -/
theorem C06_src_one_value_per_row (p : List ℝ) (d : List DayOp)
    (hlen : p.length = 24 * d.length) (hok : ∀ op ∈ d, DayOp.ok op) (hnc : noClash d = true)
    (hlast : d.getLast? ≠ some (.mean 23)) :
    ∃ out, transformDstSrc p (interpOf d) (meanOf d) = some out ∧ out.length = (d.map DayOp.rows).sum :=
  ⟨_, C06_src_transform_is_per_day p d hlen hok hnc hlast,
    C06_dst_roundtrip_length d p hlen hok (fun _ _ => trivial) hlast⟩

/-- the hypotheses are met by an ordinary year: one skipped hour in spring, one repeated hour in autumn -/
example : EEM.Bridge.DstRefine.noClash [.none, .interp 2, .none, .mean 1, .none] = true ∧
    ([.none, .interp 2, .none, .mean 1, .none] : List DayOp).getLast? ≠ some (.mean 23) := by decide

/-- `noClash` is a real exclusion: on a repeated 23:00 followed by a skipped 00:00 the source's sort puts the
removal first and the removed slot comes back (one value too many) -/
example :
    let d : List DayOp := [.mean 23, .interp 0]
    let p : List Nat := List.range 48
    EEM.Bridge.DstRefine.noClash d = false ∧
    ((EEM.Model.DstSrc.sortOps (EEM.Model.DstSrc.removeIdx (EEM.Model.DstSrc.interpOf d) ++
        EEM.Model.DstSrc.interpIdx (EEM.Model.DstSrc.meanOf d))).map (·.2)) = [24, 24] := by decide

/-- **nothing shifts before a transition**: on a skipped-hour day, the rows before the gap keep their slot -/
theorem C06_skipped_hour_before (h : Nat) (next : Option ℝ) (p : List ℝ) (i : Nat) (hi : i < h) :
    (transformDay (.interp h) next p)[i]? = p[i]? := by
  simp [transformDay, List.getElem?_eraseIdx, hi]

/-- **the skipped hour stays absent**: the rows after the gap take the NEXT clock hour's slot -/
theorem C06_skipped_hour_absent (h : Nat) (next : Option ℝ) (p : List ℝ) (i : Nat) (hi : h ≤ i) :
    (transformDay (.interp h) next p)[i]? = p[i + 1]? := by
  simp [transformDay, List.getElem?_eraseIdx, Nat.not_lt.mpr hi]

/-- **a repeated hour appears twice**: rows up to and including the first occurrence keep their slot,
the second occurrence gets its own (interpolated) value, later rows take the slot one earlier -/
theorem C06_repeated_hour_twice (h : Nat) (next : Option ℝ) (p : List ℝ) (hp : p.length = 24) (hh : h + 1 < 24) :
    (∀ i, i ≤ h → (transformDay (.mean h) next p)[i]? = p[i]?)
    ∧ (transformDay (.mean h) next p)[h + 1]? = some (avg p[h] p[h + 1])
    ∧ (∀ i, h + 1 < i → (transformDay (.mean h) next p)[i]? = p[i - 1]?) := by
  have h1 : p[h]? = some p[h] := List.getElem?_eq_getElem (by omega)
  have h2 : p[h + 1]? = some p[h + 1] := List.getElem?_eq_getElem (by omega)
  have hlt : h + 1 < p.length := by omega
  unfold transformDay
  simp only [h1, hlt, if_true, h2]
  refine ⟨?_, ?_, ?_⟩
  · intro i hi
    rw [List.append_assoc, List.getElem?_append_left (by simp; omega)]
    simp [List.getElem?_take]
    omega
  · rw [List.append_assoc, List.getElem?_append_right (by simp)]
    have hm : min (h + 1) p.length = h + 1 := by omega
    simp [hm]
  · intro i hi
    rw [List.append_assoc, List.getElem?_append_right (by simp; omega)]
    have hm : min (h + 1) p.length = h + 1 := by omega
    simp only [List.length_take, hm]
    rw [List.getElem?_append_right (by simp; omega)]
    simp only [List.length_singleton, List.getElem?_drop]
    congr 1
    omega

/-! ### daily / billing -/
open EEM.Model.PredictFrame in
/-- **daily: exactly one row per timestamp of the data object's frame, in the same (time) order** —
none dropped, none duplicated — whenever every predictable day is routed to exactly one sub-model (C13) -/
theorem C06_daily_one_row_per_timestamp {α β : Type} (m : MaskMode) (hasObs : Bool)
    (route : InRow α → List String) (curve : String → α → β) (rows : List (InRow α))
    (hroute : ∀ r ∈ rows, isClean hasObs r = true → (route r).length = 1) :
    (predictFrame m hasObs route curve rows).map (·.t) = rows.map (·.t) := by
  unfold predictFrame
  induction rows with
  | nil => rfl
  | cons r rest ih =>
    rw [List.flatMap_cons, List.map_append, List.map_cons,
      ih (fun r' hr' => hroute r' (List.mem_cons_of_mem _ hr'))]
    congr 1
    unfold outRows
    by_cases hc : isClean hasObs r = true
    · simp only [hc, if_true]
      have hcl := hc
      unfold isClean at hcl
      simp only [Bool.and_eq_true] at hcl
      cases hT : r.temperature with
      | nan => rw [hT] at hcl; simp [Cell.isFin] at hcl
      | inf => rw [hT] at hcl; simp [Cell.isFin] at hcl
      | fin T =>
        simp only
        have := hroute r List.mem_cons_self hc
        obtain ⟨s, hs⟩ := List.length_eq_one_iff.mp this
        rw [hs]
        simp
    · simp [hc]

open EEM.Model.PredictFrame in
/-- **daily: a prediction exactly on rows with a finite temperature (and a usage value, when usage
was supplied)** -/
theorem C06_daily_finite_iff {α β : Type} (m : MaskMode) (hasObs : Bool)
    (route : InRow α → List String) (curve : String → α → β) (rows : List (InRow α))
    (hroute : ∀ r ∈ rows, isClean hasObs r = true → route r ≠ []) :
    ∀ r ∈ rows, ∀ o ∈ outRows m hasObs route curve r,
      o.predicted.isSome = (r.temperature.isFin && (!hasObs || r.observed.isFin)) := by
  intro r hr o ho
  unfold outRows at ho
  by_cases hc : isClean hasObs r = true
  · simp only [hc, if_true] at ho
    have hcl := hc
    unfold isClean at hcl
    cases hT : r.temperature with
    | nan => rw [hT] at hcl; simp [Cell.isFin] at hcl
    | inf => rw [hT] at hcl; simp [Cell.isFin] at hcl
    | fin T =>
      rw [hT] at ho
      simp only at ho
      cases hs : route r with
      | nil => exact absurd hs (hroute r hr hc)
      | cons s ss =>
        rw [hs] at ho
        obtain ⟨s', _, rfl⟩ := List.mem_map.mp ho
        rw [hT] at hcl
        simpa using hcl.symm
  · simp only [hc, Bool.false_eq_true, if_false, List.mem_singleton] at ho
    subst ho
    unfold isClean at hc
    simpa using hc

/-! ### Non-vacuity -/
example : transformDst [.none, .interp 2, .mean 1] (List.map (fun n => (n : ℝ)) (List.range 72)) ≠ [] := by
  simp [transformDst, transformDay]

/-! ### Tie to the source (T1): the statements the transcription was made from, regenerated on every run -/

/-- `EEM.Model.DstSrc` transcribes `_transform_dst` statement by statement, and `C06_src_transform_is_per_day` is a theorem about
that transcription; this theorem pins the statements themselves: the flattened bodies of `_get_dst_indices` and `_transform_dst`,
re-extracted from the live source, are the ones the transcription was made from (`EEM.Spec.DstStatements` maps each to its
definition).  An edit of either function — another index arithmetic, another sort key, a changed fence post — breaks this proof
even when the function-level differential run (`dstsrc`) happens not to sample an input that tells the two apart. -/
theorem C06_src_dst_statements_are_the_transcribed_ones :
    EEM.Gen.DstStatements.functions = EEM.Spec.DstStatements.transcribed := by
  decide +kernel

end EEM.Props.C06
