/-
  EEM.Props.C14 — PROPERTY THEOREMS ONLY.
  C14: approved-method settings are locked unless developer mode is explicit.

  `lock_*` are proved for EVERY settings tree (structural induction), so new fields and new
  nesting levels are covered without touching the proofs; the concrete trees of the daily, legacy
  and billing families (`EEM.Gen.Settings`) and the default values of all five families
  (`EEM.Gen.SettingsDefaults`) are re-extracted from the live classes on every run.
-/
import EEM.Model.SettingsTree
import EEM.Gen.SettingsTables
import EEM.Gen.SettingsDefaults
import EEM.Spec.ApprovedSettings

namespace EEM.Props.C14
open EEM.Model.Settings

mutual
/-- **the lock, in general**: if the check passes, every developer leaf — at every nesting
level — holds its default -/
theorem lock_tree : ∀ (t : Tree) (cfg : Cfg), checkDev t cfg = true →
    ∀ p ∈ devLeaves t, cfg.get p.1 = some p.2
  | .leaf dev d, .val v, h, p, hp => by
    unfold devLeaves at hp
    cases dev with
    | false => simp at hp
    | true =>
      simp only [if_true, List.mem_singleton] at hp
      subst hp
      unfold checkDev at h
      simp only [Bool.not_true, Bool.false_or, beq_iff_eq] at h
      simp [Cfg.get, h]
  | .leaf _ _, .obj _, h, _, _ => by simp [checkDev] at h
  | .node _, .val _, h, _, _ => by simp [checkDev] at h
  | .node fs, .obj cs, h, p, hp => by
    unfold checkDev at h
    unfold devLeaves at hp
    exact lock_fields fs cs h p hp
theorem lock_fields : ∀ (fs : List (String × Tree)) (cs : List (String × Cfg)),
    checkFields fs cs = true → ∀ p ∈ devLeavesF fs, (Cfg.obj cs).get p.1 = some p.2
  | [], _, _, p, hp => by simp [devLeavesF] at hp
  | (k, t) :: rest, cs, h, p, hp => by
    unfold checkFields at h
    simp only [Bool.and_eq_true] at h
    unfold devLeavesF at hp
    rcases List.mem_append.mp hp with h1 | h1
    · obtain ⟨q, hq, rfl⟩ := List.mem_map.mp h1
      cases hl : cs.lookup k with
      | none => rw [hl] at h; simp at h
      | some c =>
        rw [hl] at h
        have := lock_tree t c h.1 q hq
        simp only [Cfg.get, hl]
        exact this
    · exact lock_fields rest cs h.2 p h1
end

/-- **C14 lock**: without developer mode, an accepted configuration has every developer-only
setting at its approved default, at every nesting level, for every such field -/
theorem C14_lock_general (t : Tree) (cfg : Cfg) (h : accepts t cfg false = true) :
    ∀ p ∈ devLeaves t, cfg.get p.1 = some p.2 := by
  unfold accepts at h
  simp only [Bool.false_or] at h
  exact lock_tree t cfg h

/-- **complete**: changing ANY developer-only setting without developer mode is rejected -/
theorem C14_lock_complete (t : Tree) (cfg : Cfg)
    (h : ∃ p ∈ devLeaves t, cfg.get p.1 ≠ some p.2) : accepts t cfg false = false := by
  cases hacc : accepts t cfg false with
  | false => rfl
  | true =>
    obtain ⟨p, hp, hne⟩ := h
    exact absurd (C14_lock_general t cfg hacc p hp) hne

/-- developer mode is explicit: with it nothing is checked -/
theorem C14_developer_mode_unlocks (t : Tree) (cfg : Cfg) : accepts t cfg true = true := by
  simp [accepts]

/-- a non-developer leaf accepts any value -/
theorem C14_nondev_leaf_free (d v : String) : checkDev (.leaf false d) (.val v) = true := by
  simp [checkDev]

open EEM.Gen.Settings in
/-- the live trees: constructed without arguments every family passes the lock -/
theorem C14_defaults_accepted :
    accepts daily (defaultCfg daily) false = true ∧ accepts legacy (defaultCfg legacy) false = true
      ∧ accepts billing (defaultCfg billing) false = true := by
  refine ⟨?_, ?_, ?_⟩ <;> decide +kernel

open EEM.Gen.Settings in
/-- the live trees, exhaustively: changing ANY single developer-only field (at any depth) of the
defaults is rejected without developer mode … -/
theorem C14_every_dev_field_locked :
    (∀ p ∈ devLeaves daily, accepts daily (setPath (defaultCfg daily) p.1 "changed") false = false)
    ∧ (∀ p ∈ devLeaves legacy, accepts legacy (setPath (defaultCfg legacy) p.1 "changed") false = false)
    ∧ (∀ p ∈ devLeaves billing, accepts billing (setPath (defaultCfg billing) p.1 "changed") false = false) := by
  refine ⟨?_, ?_, ?_⟩ <;> decide +kernel

open EEM.Gen.Settings in
/-- … and changing any non-developer field (season and weekday maps, uncertainty level, …) is accepted -/
theorem C14_every_nondev_field_free :
    (∀ p ∈ nonDevLeaves daily, accepts daily (setPath (defaultCfg daily) p "changed") false = true)
    ∧ (∀ p ∈ nonDevLeaves legacy, accepts legacy (setPath (defaultCfg legacy) p "changed") false = true)
    ∧ (∀ p ∈ nonDevLeaves billing, accepts billing (setPath (defaultCfg billing) p "changed") false = true) := by
  refine ⟨?_, ?_, ?_⟩ <;> decide +kernel

/-- there ARE developer-only fields in each of the three trees (the lock is not vacuous), incl. nested ones -/
theorem C14_dev_fields_exist :
    (devLeaves EEM.Gen.Settings.daily).length ≥ 20
      ∧ (["split_selection", "criteria"], "s:bic") ∈ devLeaves EEM.Gen.Settings.daily := by
  constructor <;> decide +kernel

/-- **constructed without arguments, each family uses exactly the approved method constants**:
the defaults extracted from the live classes equal the frozen approved copy -/
theorem C14_defaults_are_approved :
    EEM.Gen.SettingsDefaults.daily = EEM.Spec.Approved.daily
      ∧ EEM.Gen.SettingsDefaults.legacy = EEM.Spec.Approved.legacy
      ∧ EEM.Gen.SettingsDefaults.billing = EEM.Spec.Approved.billing
      ∧ EEM.Gen.SettingsDefaults.hourly_nonsolar = EEM.Spec.Approved.hourly_nonsolar
      ∧ EEM.Gen.SettingsDefaults.hourly_solar = EEM.Spec.Approved.hourly_solar := by
  refine ⟨?_, ?_, ?_, ?_, ?_⟩ <;> decide +kernel

end EEM.Props.C14
