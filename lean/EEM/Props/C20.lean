/-
  EEM.Props.C20 — PROPERTY THEOREMS ONLY.
  C20: baseline and reporting windows never leak across the intervention.

  About `EEM.Model.Window` (hand model of get_baseline_data / get_reporting_data, tied to the
  real functions by ./check C20).  Series of ANY length; `Sorted` = time-sorted index.
-/
import EEM.Model.Window
import EEM.Gen.WindowStatements
import EEM.Spec.WindowStatements
import Mathlib.Data.List.Infix
import Mathlib.Data.List.TakeWhile
import Mathlib.Tactic.Linarith

namespace EEM.Props.C20
open EEM.Model.Window

variable {V : Type}

/-- the index is monotonic (what pandas needs for label slices) -/
def Sorted (d : List (Row V)) : Prop := d.Pairwise (fun a b => a.1 ≤ b.1)

/-! ### helper facts (kept here because they are short; none weakens a statement below) -/

theorem blankLast_map_fst (d : List (Row V)) : (blankLast d).map (·.1) = d.map (·.1) := by
  unfold blankLast
  cases h : d.getLast? with
  | none => rfl
  | some r =>
    simp only
    have hd : d ≠ [] := by intro e; rw [e] at h; cases h
    have hl : d.getLast hd = r := by
      have := List.getLast?_eq_some_getLast hd
      rw [this] at h; exact Option.some.inj h
    conv_rhs => rw [← List.dropLast_append_getLast hd]
    simp [hl]

theorem mem_sliceTo {d : List (Row V)} {x : Int} {r : Row V} (h : r ∈ sliceTo d x) : r.1 ≤ x := by
  have := List.mem_takeWhile_imp h
  simpa using this

theorem sliceTo_sub {d : List (Row V)} {x : Int} {r : Row V} (h : r ∈ sliceTo d x) : r ∈ d :=
  (List.takeWhile_prefix _).subset h

theorem sliceFrom_sub {d : List (Row V)} {x : Int} {r : Row V} (h : r ∈ sliceFrom d x) : r ∈ d :=
  (List.dropWhile_suffix _).subset h

theorem mem_sliceFrom_of_sorted : ∀ {d : List (Row V)}, Sorted d → ∀ {x : Int} {r : Row V},
    r ∈ sliceFrom d x → x ≤ r.1 := by
  intro d
  induction d with
  | nil => intro _ x r h; cases h
  | cons a t ih =>
    intro hs x r h
    unfold sliceFrom at h
    rw [List.dropWhile_cons] at h
    split at h
    · exact ih (List.Pairwise.of_cons hs) h
    · rename_i hlt
      have ha : x ≤ a.1 := by simpa using hlt
      rcases List.mem_cons.mp h with rfl | hr
      · exact ha
      · exact le_trans ha (List.rel_of_pairwise_cons hs hr)

theorem sorted_sliceTo {d : List (Row V)} (h : Sorted d) (x : Int) : Sorted (sliceTo d x) :=
  List.Pairwise.sublist (List.takeWhile_prefix _).sublist h

theorem sorted_sliceFrom {d : List (Row V)} (h : Sorted d) (x : Int) : Sorted (sliceFrom d x) :=
  List.Pairwise.sublist (List.dropWhile_suffix _).sublist h

theorem gapAtEnd_mem (si ei : Bool) (d : List (Row V)) (s : Sel V) :
    Warn.gapAtEnd ∈ gapWarnings si ei d s ↔
      ei = false ∧ ∃ de el, lastT d = some de ∧ s.endLimit = some el ∧ de < el := by
  unfold gapWarnings
  generalize lastT d = ld
  generalize firstT d = fd
  generalize s.endLimit = el
  generalize s.startLimit = sl
  cases ei <;> cases si <;> cases ld <;> cases el <;> cases sl <;> cases fd <;>
    simp <;> (try split_ifs) <;> simp_all

theorem gapAtStart_mem (si ei : Bool) (d : List (Row V)) (s : Sel V) :
    Warn.gapAtStart ∈ gapWarnings si ei d s ↔
      si = false ∧ ∃ sl ds, s.startLimit = some sl ∧ firstT d = some ds ∧ sl < ds := by
  unfold gapWarnings
  generalize lastT d = ld
  generalize firstT d = fd
  generalize s.endLimit = el
  generalize s.startLimit = sl
  cases ei <;> cases si <;> cases ld <;> cases el <;> cases sl <;> cases fd <;>
    simp <;> (try split_ifs) <;> simp_all

theorem nearestAux_spec (x : Int) : ∀ (l pre : List Int) (best : Option (Nat × Nat)),
    (match best with
      | none => pre = []
      | some (j, bd) => ∃ t, (pre ++ l)[j]? = some t ∧ bd = (t - x).natAbs ∧ ∀ t' ∈ pre, bd ≤ (t' - x).natAbs) →
    match nearestAux x l pre.length best with
      | none => pre ++ l = []
      | some (j, bd) => ∃ t, (pre ++ l)[j]? = some t ∧ bd = (t - x).natAbs ∧ ∀ t' ∈ pre ++ l, bd ≤ (t' - x).natAbs := by
  intro l
  induction l with
  | nil =>
    intro pre best h
    simp only [nearestAux, List.append_nil] at h ⊢
    cases best with
    | none => simpa using h
    | some p => obtain ⟨j, bd⟩ := p; simpa using h
  | cons t rest ih =>
    intro pre best h
    have hlen : (pre ++ [t]).length = pre.length + 1 := by simp
    have happ : pre ++ t :: rest = (pre ++ [t]) ++ rest := by simp
    unfold nearestAux
    cases best with
    | none =>
      simp only at h ⊢
      subst h
      have := ih [t] (some (0, (t - x).natAbs)) (by
        simp only
        exact ⟨t, by simp, rfl, by intro t' ht'; simp at ht'; subst ht'; exact le_rfl⟩)
      simpa using this
    | some p =>
      obtain ⟨j, bd⟩ := p
      simp only at h ⊢
      obtain ⟨tj, hj, hbd, hmin⟩ := h
      by_cases hle : (t - x).natAbs ≤ bd
      · rw [if_pos hle]
        have := ih (pre ++ [t]) (some (pre.length, (t - x).natAbs)) (by
          simp only
          refine ⟨t, by simp, rfl, ?_⟩
          intro t' ht'
          rcases List.mem_append.mp ht' with h1 | h1
          · exact le_trans hle (hmin t' h1)
          · simp at h1; subst h1; exact le_rfl)
        rw [hlen] at this
        rw [happ]; exact this
      · rw [if_neg hle]
        have := ih (pre ++ [t]) (some (j, bd)) (by
          simp only
          refine ⟨tj, by rw [← happ]; exact hj, hbd, ?_⟩
          intro t' ht'
          rcases List.mem_append.mp ht' with h1 | h1
          · exact hmin t' h1
          · simp at h1; subst h1; omega)
        rw [hlen] at this
        rw [happ]; exact this

/-- the position returned by `nearest` holds a stamp at minimal distance from the target -/
theorem nearest_spec (ts : List Int) (x : Int) (loc : Nat) (h : nearest ts x = some loc) :
    ∃ t, ts[loc]? = some t ∧ ∀ t' ∈ ts, (t - x).natAbs ≤ (t' - x).natAbs := by
  unfold nearest at h
  split at h
  · cases h
  · have := nearestAux_spec x ts [] none rfl
    simp only [List.length_nil, List.nil_append] at this
    cases hn : nearestAux x ts 0 none with
    | none => rw [hn] at h; cases h
    | some p =>
      obtain ⟨j, bd⟩ := p
      rw [hn] at h this
      simp only [Option.map_some, Option.some.injEq] at h
      subst h
      obtain ⟨t, h1, h2, h3⟩ := this
      exact ⟨t, h1, fun t' ht' => h2 ▸ h3 t' ht'⟩

/-- what a successful call returns, in terms of the selection -/
theorem baseline_ok_iff (a : BaselineArgs) (d out : List (Row V)) (w : List Warn) :
    getBaselineData a d = .ok (out, w) ↔
      baselineBadArgs a = false ∧ allNull (baselineSel a d).rows = false
        ∧ out = blankLast (baselineSel a d).rows
        ∧ w = gapWarnings a.start.isNone a.end.isNone d (baselineSel a d) := by
  unfold getBaselineData
  cases h1 : baselineBadArgs a <;> simp only [Bool.false_eq_true, if_false, if_true]
  · cases h2 : allNull (baselineSel a d).rows <;> simp [eq_comm]
  · simp

theorem reporting_ok_iff (a : ReportingArgs) (d out : List (Row V)) (w : List Warn) :
    getReportingData a d = .ok (out, w) ↔
      reportingBadArgs a = false ∧ allNull (reportingSel a d).rows = false
        ∧ out = blankLast (reportingSel a d).rows
        ∧ w = gapWarnings a.start.isNone a.end.isNone d (reportingSel a d) := by
  unfold getReportingData
  cases h1 : reportingBadArgs a <;> simp only [Bool.false_eq_true, if_false, if_true]
  · cases h2 : allNull (reportingSel a d).rows <;> simp [eq_comm]
  · simp

/-- the baseline selection is a suffix of the rows at or before the end limit -/
theorem baselineSel_suffix (a : BaselineArgs) (d : List (Row V)) :
    (baselineSel a d).rows <:+ sliceTo d (a.end.getD tsMaxLimit) := by
  unfold baselineSel
  simp only
  split
  · split
    · exact List.suffix_refl _
    · exact List.dropWhile_suffix _
  · split
    · exact List.dropWhile_suffix _
    · exact List.nil_suffix

theorem reportingSel_prefix (a : ReportingArgs) (d : List (Row V)) :
    (reportingSel a d).rows <+: sliceFrom d (a.start.getD tsMinLimit) := by
  unfold reportingSel
  simp only
  split
  · split
    · exact List.prefix_refl _
    · exact List.takeWhile_prefix _
  · split
    · exact List.takeWhile_prefix _
    · exact List.nil_prefix

/-! ### get_baseline_data -/

/-- **no leak**: every returned row is at or before the requested end -/
theorem C20_baseline_no_leak (a : BaselineArgs) (d out : List (Row V)) (w : List Warn) (e : Int)
    (he : a.end = some e) (h : getBaselineData a d = .ok (out, w)) : ∀ r ∈ out, r.1 ≤ e := by
  obtain ⟨_, _, rfl, _⟩ := (baseline_ok_iff a d out w).mp h
  intro r hr
  have : r.1 ∈ (blankLast (baselineSel a d).rows).map (·.1) := List.mem_map_of_mem hr
  rw [blankLast_map_fst] at this
  obtain ⟨r', hr', e'⟩ := List.mem_map.mp this
  have h2 := (baselineSel_suffix a d).subset hr'
  rw [he] at h2
  have := mem_sliceTo h2
  simp only [Option.getD_some] at this
  omega

/-- **floor**: without overshoot, no returned row is earlier than `max_days` before the requested end -/
theorem C20_baseline_floor (a : BaselineArgs) (d out : List (Row V)) (w : List Warn) (e md : Int)
    (hs : Sorted d) (he : a.end = some e) (hm : a.maxDays = some md) (ho : a.allowOvershoot = false)
    (hi : a.ignoreGap = false) (h : getBaselineData a d = .ok (out, w)) :
    ∀ r ∈ out, e - md * 86400 ≤ r.1 := by
  obtain ⟨_, _, rfl, _⟩ := (baseline_ok_iff a d out w).mp h
  intro r hr
  have : r.1 ∈ (blankLast (baselineSel a d).rows).map (·.1) := List.mem_map_of_mem hr
  rw [blankLast_map_fst] at this
  obtain ⟨r', hr', e'⟩ := List.mem_map.mp this
  have hsel : (baselineSel a d).rows = sliceFrom (sliceTo d e) (e - md * 86400) := by
    unfold baselineSel baselineStartTarget baselineEndLimit
    simp [he, hm, ho, hi, daySecs]
  rw [hsel] at hr'
  have := mem_sliceFrom_of_sorted (sorted_sliceTo hs e) hr'
  omega

/-- with `ignore_billing_period_gap_for_day_count` (any overshoot tolerated) the floor is counted
from the last stamp at or before the requested end -/
theorem C20_baseline_floor_ignore_gap (a : BaselineArgs) (d out : List (Row V)) (w : List Warn)
    (e md le : Int) (hs : Sorted d) (he : a.end = some e) (hm : a.maxDays = some md)
    (ho : a.allowOvershoot = false) (hi : a.ignoreGap = true) (hn : a.nDaysOvershoot = none)
    (hl : lastT (sliceTo d e) = some le) (h : getBaselineData a d = .ok (out, w)) :
    ∀ r ∈ out, le - md * 86400 ≤ r.1 ∧ le ≤ e := by
  obtain ⟨_, _, rfl, _⟩ := (baseline_ok_iff a d out w).mp h
  intro r hr
  have : r.1 ∈ (blankLast (baselineSel a d).rows).map (·.1) := List.mem_map_of_mem hr
  rw [blankLast_map_fst] at this
  obtain ⟨r', hr', e'⟩ := List.mem_map.mp this
  have hsel : (baselineSel a d).rows = sliceFrom (sliceTo d e) (le - md * 86400) := by
    unfold baselineSel baselineStartTarget baselineEndLimit
    simp [he, hm, ho, hi, hn, hl, daySecs]
  rw [hsel] at hr'
  have h1 := mem_sliceFrom_of_sorted (sorted_sliceTo hs e) hr'
  refine ⟨by omega, ?_⟩
  unfold lastT at hl
  obtain ⟨q, hq, rfl⟩ := Option.map_eq_some_iff.mp hl
  exact mem_sliceTo (List.mem_of_getLast? hq)

/-- **nearest period boundary**: with overshoot allowed, no returned row is earlier than the stamp
nearest to `end − max_days` among the stamps at or before the end -/
theorem C20_baseline_nearest_boundary (a : BaselineArgs) (d out : List (Row V)) (w : List Warn)
    (e md : Int) (loc : Nat) (hs : Sorted d) (he : a.end = some e) (hm : a.maxDays = some md)
    (ho : a.allowOvershoot = true) (hi : a.ignoreGap = false)
    (hlk : nearest ((sliceTo d e).map (·.1)) (e - md * 86400) = some loc)
    (h : getBaselineData a d = .ok (out, w)) :
    ∃ t, t ∈ (sliceTo d e).map (·.1)
      ∧ (∀ t' ∈ (sliceTo d e).map (·.1), (t - (e - md * 86400)).natAbs ≤ (t' - (e - md * 86400)).natAbs)
      ∧ ∀ r ∈ out, t ≤ r.1 := by
  obtain ⟨_, _, rfl, _⟩ := (baseline_ok_iff a d out w).mp h
  obtain ⟨t, ht, hmin⟩ := nearest_spec _ _ _ hlk
  have hmem : t ∈ (sliceTo d e).map (·.1) := List.mem_of_getElem? ht
  refine ⟨t, hmem, hmin, ?_⟩
  rw [List.getElem?_map] at ht
  obtain ⟨r0, hr0, hr0t⟩ := Option.map_eq_some_iff.mp ht
  have hsel : (baselineSel a d).rows = sliceFrom (sliceTo d e) t := by
    unfold baselineSel baselineStartTarget baselineEndLimit
    simp [he, hm, ho, hi, daySecs, hlk, hr0, hr0t]
  intro r hr
  have : r.1 ∈ (blankLast (baselineSel a d).rows).map (·.1) := List.mem_map_of_mem hr
  rw [blankLast_map_fst] at this
  obtain ⟨r', hr', e'⟩ := List.mem_map.mp this
  rw [hsel] at hr'
  have := mem_sliceFrom_of_sorted (sorted_sliceTo hs e) hr'
  omega

/-- **contiguous slice**: the returned timestamps are a contiguous run of the input's -/
theorem C20_baseline_contiguous (a : BaselineArgs) (d out : List (Row V)) (w : List Warn)
    (h : getBaselineData a d = .ok (out, w)) : out.map (·.1) <:+: d.map (·.1) := by
  obtain ⟨_, _, rfl, _⟩ := (baseline_ok_iff a d out w).mp h
  rw [blankLast_map_fst]
  have h1 := (baselineSel_suffix a d).isInfix
  have h2 : sliceTo d (a.end.getD tsMaxLimit) <:+: d := (List.takeWhile_prefix _).isInfix
  exact (h1.trans h2).map _

/-- **values unchanged apart from the blanked final row** -/
theorem C20_baseline_values (a : BaselineArgs) (d out : List (Row V)) (w : List Warn)
    (h : getBaselineData a d = .ok (out, w)) :
    ∃ sel : List (Row V), sel <:+: d ∧ out.dropLast = sel.dropLast
      ∧ (∃ t, out.getLast? = some (t, none) ∧ sel.getLast?.map (·.1) = some t) := by
  obtain ⟨_, hn, rfl, _⟩ := (baseline_ok_iff a d out w).mp h
  refine ⟨(baselineSel a d).rows, ?_, ?_, ?_⟩
  · exact (baselineSel_suffix a d).isInfix.trans (List.takeWhile_prefix _).isInfix
  · unfold blankLast
    cases hl : (baselineSel a d).rows.getLast? with
    | none => rfl
    | some r => simp
  · unfold blankLast
    cases hl : (baselineSel a d).rows.getLast? with
    | none =>
      have : (baselineSel a d).rows = [] := List.getLast?_eq_none_iff.mp hl
      rw [this] at hn
      simp [allNull] at hn
    | some r => exact ⟨r.1, by simp, by simp⟩

/-- **errors**: the only failures are the argument error and the dedicated empty-selection error -/
theorem C20_baseline_errors (a : BaselineArgs) (d : List (Row V)) (e : Err)
    (h : getBaselineData a d = .error e) :
    (e = .valueError ∧ a.maxDays.isSome ∧ a.start.isSome)
      ∨ (e = .noBaselineData ∧ ∀ r ∈ (baselineSel a d).rows, r.2 = none) := by
  unfold getBaselineData at h
  cases h1 : baselineBadArgs a
  · simp only [h1, Bool.false_eq_true, if_false] at h
    cases h2 : allNull (baselineSel a d).rows
    · simp [h2] at h
    · simp only [h2, if_true] at h
      right
      cases h
      refine ⟨rfl, ?_⟩
      intro r hr
      have := List.all_eq_true.mp h2 r hr
      simpa using this
  · simp only [h1, if_true] at h
    left
    cases h
    unfold baselineBadArgs at h1
    simp only [Bool.and_eq_true] at h1
    exact ⟨rfl, h1.1, h1.2⟩

/-- an empty (all-null) selection always raises the dedicated error when the arguments are valid -/
theorem C20_baseline_empty_raises (a : BaselineArgs) (d : List (Row V))
    (hb : baselineBadArgs a = false) (hn : allNull (baselineSel a d).rows = true) :
    getBaselineData a d = .error .noBaselineData := by
  unfold getBaselineData
  simp [hb, hn]

/-- **gap at the end is reported** exactly when the data ends before the requested end
(end limit not snapped: `ignore_billing_period_gap_for_day_count` off) -/
theorem C20_baseline_warn_end_iff (a : BaselineArgs) (d out : List (Row V)) (w : List Warn)
    (hi : a.ignoreGap = false) (h : getBaselineData a d = .ok (out, w)) :
    Warn.gapAtEnd ∈ w ↔ ∃ e de, a.end = some e ∧ lastT d = some de ∧ de < e := by
  obtain ⟨_, _, _, rfl⟩ := (baseline_ok_iff a d out w).mp h
  have hel : (baselineSel a d).endLimit = some (a.end.getD tsMaxLimit) := by
    unfold baselineSel baselineEndLimit
    simp only [hi, Bool.false_and, Bool.false_eq_true, if_false]
    split <;> split <;> rfl
  rw [gapAtEnd_mem, hel]
  cases he : a.end with
  | none => simp
  | some e => simp

/-- **gap at the start is reported** exactly when an explicit start lies before the data
(no overshoot) -/
theorem C20_baseline_warn_start_iff (a : BaselineArgs) (d out : List (Row V)) (w : List Warn)
    (ho : a.allowOvershoot = false) (h : getBaselineData a d = .ok (out, w)) :
    Warn.gapAtStart ∈ w ↔ ∃ s ds, a.start = some s ∧ firstT d = some ds ∧ s < ds := by
  obtain ⟨hb, _, _, rfl⟩ := (baseline_ok_iff a d out w).mp h
  rw [gapAtStart_mem]
  cases hst : a.start with
  | none => simp
  | some s =>
    have hmd : a.maxDays = none := by
      unfold baselineBadArgs at hb
      rw [hst] at hb
      cases hm : a.maxDays with
      | none => rfl
      | some _ => rw [hm] at hb; simp at hb
    have hsl : (baselineSel a d).startLimit = some s := by
      unfold baselineSel baselineStartTarget
      simp [ho, hmd, hst]
    rw [hsl]
    simp

/-! ### get_reporting_data (mirror) -/

theorem C20_reporting_no_leak (a : ReportingArgs) (d out : List (Row V)) (w : List Warn) (s : Int)
    (hst : a.start = some s) (hs : Sorted d) (h : getReportingData a d = .ok (out, w)) :
    ∀ r ∈ out, s ≤ r.1 := by
  obtain ⟨_, _, rfl, _⟩ := (reporting_ok_iff a d out w).mp h
  intro r hr
  have : r.1 ∈ (blankLast (reportingSel a d).rows).map (·.1) := List.mem_map_of_mem hr
  rw [blankLast_map_fst] at this
  obtain ⟨r', hr', e'⟩ := List.mem_map.mp this
  have h2 := (reportingSel_prefix a d).subset hr'
  rw [hst] at h2
  have := mem_sliceFrom_of_sorted hs h2
  simp only [Option.getD_some] at this
  omega

theorem C20_reporting_ceiling (a : ReportingArgs) (d out : List (Row V)) (w : List Warn) (s md : Int)
    (hst : a.start = some s) (hm : a.maxDays = some md) (ho : a.allowOvershoot = false)
    (hi : a.ignoreGap = false) (h : getReportingData a d = .ok (out, w)) :
    ∀ r ∈ out, r.1 ≤ s + md * 86400 := by
  obtain ⟨_, _, rfl, _⟩ := (reporting_ok_iff a d out w).mp h
  intro r hr
  have : r.1 ∈ (blankLast (reportingSel a d).rows).map (·.1) := List.mem_map_of_mem hr
  rw [blankLast_map_fst] at this
  obtain ⟨r', hr', e'⟩ := List.mem_map.mp this
  have hsel : (reportingSel a d).rows = sliceTo (sliceFrom d s) (s + md * 86400) := by
    unfold reportingSel reportingEndTarget reportingStartLimit
    simp [hst, hm, ho, hi, daySecs]
  rw [hsel] at hr'
  have := mem_sliceTo hr'
  omega

/-- mirror of the nearest-boundary rule: no returned row is later than the stamp nearest to
`start + max_days` among the stamps at or after the start -/
theorem C20_reporting_nearest_boundary (a : ReportingArgs) (d out : List (Row V)) (w : List Warn)
    (s md : Int) (loc : Nat) (hst : a.start = some s) (hm : a.maxDays = some md)
    (ho : a.allowOvershoot = true) (hi : a.ignoreGap = false)
    (hlk : nearest ((sliceFrom d s).map (·.1)) (s + md * 86400) = some loc)
    (h : getReportingData a d = .ok (out, w)) :
    ∃ t, t ∈ (sliceFrom d s).map (·.1)
      ∧ (∀ t' ∈ (sliceFrom d s).map (·.1), (t - (s + md * 86400)).natAbs ≤ (t' - (s + md * 86400)).natAbs)
      ∧ ∀ r ∈ out, r.1 ≤ t := by
  obtain ⟨_, _, rfl, _⟩ := (reporting_ok_iff a d out w).mp h
  obtain ⟨t, ht, hmin⟩ := nearest_spec _ _ _ hlk
  have hmem : t ∈ (sliceFrom d s).map (·.1) := List.mem_of_getElem? ht
  refine ⟨t, hmem, hmin, ?_⟩
  rw [List.getElem?_map] at ht
  obtain ⟨r0, hr0, hr0t⟩ := Option.map_eq_some_iff.mp ht
  have hsel : (reportingSel a d).rows = sliceTo (sliceFrom d s) t := by
    unfold reportingSel reportingEndTarget reportingStartLimit
    simp [hst, hm, ho, hi, daySecs, hlk, hr0, hr0t]
  intro r hr
  have : r.1 ∈ (blankLast (reportingSel a d).rows).map (·.1) := List.mem_map_of_mem hr
  rw [blankLast_map_fst] at this
  obtain ⟨r', hr', e'⟩ := List.mem_map.mp this
  rw [hsel] at hr'
  have := mem_sliceTo hr'
  omega

theorem C20_reporting_contiguous (a : ReportingArgs) (d out : List (Row V)) (w : List Warn)
    (h : getReportingData a d = .ok (out, w)) : out.map (·.1) <:+: d.map (·.1) := by
  obtain ⟨_, _, rfl, _⟩ := (reporting_ok_iff a d out w).mp h
  rw [blankLast_map_fst]
  have h1 := (reportingSel_prefix a d).isInfix
  have h2 : sliceFrom d (a.start.getD tsMinLimit) <:+: d := (List.dropWhile_suffix _).isInfix
  exact (h1.trans h2).map _

theorem C20_reporting_values (a : ReportingArgs) (d out : List (Row V)) (w : List Warn)
    (h : getReportingData a d = .ok (out, w)) :
    ∃ sel : List (Row V), sel <:+: d ∧ out.dropLast = sel.dropLast
      ∧ (∃ t, out.getLast? = some (t, none) ∧ sel.getLast?.map (·.1) = some t) := by
  obtain ⟨_, hn, rfl, _⟩ := (reporting_ok_iff a d out w).mp h
  refine ⟨(reportingSel a d).rows, ?_, ?_, ?_⟩
  · exact (reportingSel_prefix a d).isInfix.trans (List.dropWhile_suffix _).isInfix
  · unfold blankLast
    cases hl : (reportingSel a d).rows.getLast? with
    | none => rfl
    | some r => simp
  · unfold blankLast
    cases hl : (reportingSel a d).rows.getLast? with
    | none =>
      have : (reportingSel a d).rows = [] := List.getLast?_eq_none_iff.mp hl
      rw [this] at hn
      simp [allNull] at hn
    | some r => exact ⟨r.1, by simp, by simp⟩

theorem C20_reporting_errors (a : ReportingArgs) (d : List (Row V)) (e : Err)
    (h : getReportingData a d = .error e) :
    (e = .valueError ∧ a.maxDays.isSome ∧ a.end.isSome)
      ∨ (e = .noReportingData ∧ ∀ r ∈ (reportingSel a d).rows, r.2 = none) := by
  unfold getReportingData at h
  cases h1 : reportingBadArgs a
  · simp only [h1, Bool.false_eq_true, if_false] at h
    cases h2 : allNull (reportingSel a d).rows
    · simp [h2] at h
    · simp only [h2, if_true] at h
      right
      cases h
      refine ⟨rfl, ?_⟩
      intro r hr
      have := List.all_eq_true.mp h2 r hr
      simpa using this
  · simp only [h1, if_true] at h
    left
    cases h
    unfold reportingBadArgs at h1
    simp only [Bool.and_eq_true] at h1
    exact ⟨rfl, h1.1, h1.2⟩

/-! ### Tie to the source (T1): the statements of the window functions, regenerated on every run -/

/-- The flattened bodies of `get_baseline_data`, `get_reporting_data` and the two warning builders, re-extracted from the live
source, are exactly the reviewed ones the hand model was written from (`EEM.Spec.WindowStatements` lists which statement
corresponds to which definition of the model).  Any change of a slice bound, of the day arithmetic, of a warning guard, of the
order of emptiness check and blanking, or a new early return changes the regenerated table and breaks this proof. -/
theorem C20_src_window_statements_are_the_reviewed_ones :
    EEM.Gen.WindowStatements.functions = EEM.Spec.WindowStatements.reviewed := by
  decide +kernel

/-- "the input is never modified", at the source: neither window function contains a statement that stores into, deletes from or
calls an in-place method on its parameter `data`; every selection is taken from a `.copy()` (three per function), and the one
in-place write — blanking the last row — is on that copy and comes after the emptiness check whose body raises. -/
theorem C20_src_input_is_never_stored_into :
    EEM.Gen.WindowStatements.inputStores = []
    ∧ (∀ c ∈ EEM.Gen.WindowStatements.copies, 1 ≤ c.2)
    ∧ (∀ b ∈ EEM.Gen.WindowStatements.blankAfterEmptyCheck, b.2 = true)
    ∧ EEM.Gen.WindowStatements.copies.map (·.1) = ["get_baseline_data", "get_reporting_data"]
    ∧ EEM.Gen.WindowStatements.blankAfterEmptyCheck.map (·.1) = ["get_baseline_data", "get_reporting_data"] := by
  decide +kernel

/-- the only assignments of either window function that write into an existing object (target a subscript or an attribute) are
the blanking of the last selected row -/
theorem C20_src_only_write_is_the_blanked_row :
    EEM.Gen.WindowStatements.subscriptWrites
      = [("get_baseline_data", "baseline_data.iloc[-1] = np.nan"), ("get_reporting_data", "reporting_data.iloc[-1] = np.nan")] := by
  decide +kernel

/-! ### Non-vacuity -/
example : getBaselineData (V := Nat) { «end» := some 345600, maxDays := some 2 }
    [(0, some 1), (86400, some 2), (172800, some 3), (259200, some 4), (345600, some 5), (432000, some 6)]
    = .ok ([(172800, some 3), (259200, some 4), (345600, none)], []) := by decide
example : Sorted (V := Nat) [(0, some 1), (86400, none), (172800, some 3)] := by
  simp [Sorted]

end EEM.Props.C20
