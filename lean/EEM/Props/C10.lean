/-
  EEM.Props.C10 — PROPERTY THEOREMS ONLY.
  C10: sufficiency verdicts are exactly the published criteria.
  Model: EEM.Model.Sufficiency (hand model, tied to the real SufficiencyCriteria classes by ./check C10).
-/
import EEM.Model.Sufficiency
import EEM.Gen.SufficiencyPlan
import EEM.Bridge.SuffPlan
import Mathlib.Tactic.Linarith
import Mathlib.Tactic.FieldSimp
import Mathlib.Tactic.Ring
import Mathlib.Algebra.Order.Field.Rat

namespace EEM.Props.C10
open EEM.Model.Sufficiency EEM.Model.SufficiencyPlan EEM.Bridge.SuffPlan

/-- the published criteria, clause by clause, for a frame whose first and last complete rows are
`n` days apart (inclusive) -/
def violated (cfg : Cfg) (rows : List Row) (n : Int) : DQ → Prop
  | .no_data => False
  | .negative_meter_values => cfg.reporting = false ∧ cfg.electric = false ∧ ∃ r ∈ rows, r.obsNegative = true
  | .incorrect_number_of_total_days => cfg.reporting = false ∧ (n > 365 ∨ n < 329)
  | .too_many_days_with_missing_data => under90 (validDays (bothValid cfg) rows) n = true
  | .too_many_days_with_missing_meter_data => cfg.reporting = false ∧ under90 (validDays obsValid rows) n = true
  | .too_many_days_with_missing_temperature_data => under90 (validDays tempValid rows) n = true
  | .missing_monthly_temperature_data => monthlyUnder90 (·.tempPresent) rows = true
  | .missing_monthly_meter_data =>
      cfg.family = .hourly ∧ cfg.reporting = false ∧ monthlyUnder90 (·.obsPresent) rows = true
  | .missing_monthly_ghi_data =>
      cfg.family = .hourly ∧ (∃ r ∈ rows, r.ghi.isSome = true) ∧ monthlyUnder90 (fun r => r.ghi.getD false) rows = true

/-- **the reported set is exactly the set of violated criteria**: a disqualification is reported if and
only if its criterion is violated — nothing else is reported and nothing is withheld -/
theorem C10_verdict_exact (cfg : Cfg) (rows : List Row) (n : Int) (h : nDaysTotal rows = some n)
    (hm : cfg.methodReporting = cfg.reporting) (d : DQ) :
    d ∈ verdict cfg rows ↔ violated cfg rows n d := by
  unfold verdict
  rw [h, hm]
  cases d <;> simp [violated, List.mem_append, List.any_eq_true] <;> tauto

open EEM.Gen.SufficiencyPlan in
/-- **the source's plan is the model's verdict**: running the regenerated plan of the entry point — every
`_check_*` in call order, each disqualification under the guard the source puts around its `append` — on a
frame with at least one complete row yields exactly `verdict`, for every family, entry point and flag
combination (also the mismatched ones) -/
theorem C10_src_plan_is_verdict (cfg : Cfg) (rows : List Row) (n : Int) (h : nDaysTotal rows = some n) :
    runPlan cfg rows n (plan cfg.family cfg.methodReporting) = verdict cfg rows := by
  obtain ⟨fam, mr, rep, el⟩ := cfg
  unfold verdict
  rw [h]
  cases fam <;> cases mr <;>
    simp [runPlan, plan, runCheck, evalCond, evalQ, colFlag, dailyBaseline, dailyReporting, billingBaseline,
      billingReporting, hourlyBaseline, hourlyReporting, SufficiencyCriteria_check_no_data,
      SufficiencyCriteria_check_negative_meter_values, SufficiencyCriteria_check_baseline_length_daily_billing_model,
      SufficiencyCriteria_check_valid_days_percentage, SufficiencyCriteria_check_valid_meter_readings_percentage,
      SufficiencyCriteria_check_valid_temperature_values_percentage,
      SufficiencyCriteria_check_monthly_temperature_values_percentage, SufficiencyCriteria_check_extreme_values,
      BillingSufficiencyCriteria_check_estimated_meter_values,
      HourlySufficiencyCriteria_check_monthly_meter_readings_percentage,
      HourlySufficiencyCriteria_check_monthly_ghi_percentage,
      lt_frac_eq_under90, anyMonth_lt_eq, negcount_gt_zero, ndays_gt, ndays_lt, List.filter_cons, List.filter_nil, map_dq_ite, -List.any_eq_true]


open EEM.Gen.SufficiencyPlan in
/-- **what the source reports is exactly what is violated** — `C10_verdict_exact` restated on the regenerated
plan: a disqualification is appended by the entry point the data class calls iff its published criterion is
violated -/
theorem C10_src_reported_iff_violated (cfg : Cfg) (rows : List Row) (n : Int) (h : nDaysTotal rows = some n)
    (hm : cfg.methodReporting = cfg.reporting) (d : DQ) :
    d ∈ runPlan cfg rows n (plan cfg.family cfg.methodReporting) ↔ violated cfg rows n d := by
  rw [C10_src_plan_is_verdict cfg rows n h]
  exact C10_verdict_exact cfg rows n h hm d

open EEM.Gen.SufficiencyPlan in
/-- every data class calls the entry point that matches the flag it passes (`is_reporting_data=True` ⇔
`check_sufficiency_reporting`), uses the criteria class of its own family, and all six are present — the
hypothesis `hm` of the theorems above holds at every call site of the source (it did not before C10-F4) -/
theorem C10_src_call_sites_consistent :
    (∀ s ∈ callSites, s.2.2.1 = s.2.2.2) ∧
    callSites.map (fun s => (s.1, s.2.1)) =
      [("DailyBaselineData", Family.daily), ("DailyReportingData", .daily), ("BillingBaselineData", .billing),
       ("BillingReportingData", .billing), ("HourlyBaselineData", .hourly), ("HourlyReportingData", .hourly)] ∧
    callSites.map (fun s => s.2.2.2) = [false, true, false, true, false, true] := by
  decide

open EEM.Gen.SufficiencyPlan in
/-- the checks that only *warn* (extreme values, estimated reads) can never append a disqualification, and the only
warning any planned check issues is `extreme_values_detected`: warnings never change the verdict -/
theorem C10_src_warning_checks_never_disqualify (fam : Family) (mr : Bool) :
    ∀ c ∈ plan fam mr, c.warns ≠ [] → c.emits = [] := by
  cases fam <;> cases mr <;> decide

open EEM.Gen.SufficiencyPlan in
/-- which disqualifications each entry point of the source can ever append -/
theorem C10_src_plan_emits :
    planEmits (plan .daily false) = [.no_data, .negative_meter_values, .incorrect_number_of_total_days,
      .too_many_days_with_missing_data, .too_many_days_with_missing_meter_data,
      .too_many_days_with_missing_temperature_data, .missing_monthly_temperature_data] ∧
    planEmits (plan .billing false) = planEmits (plan .daily false) ∧
    planEmits (plan .hourly false) = planEmits (plan .daily false) ++ [.missing_monthly_meter_data, .missing_monthly_ghi_data] ∧
    planEmits (plan .daily true) = [.no_data, .too_many_days_with_missing_data,
      .too_many_days_with_missing_temperature_data, .missing_monthly_temperature_data] ∧
    planEmits (plan .billing true) = planEmits (plan .daily true) ∧
    planEmits (plan .hourly true) = planEmits (plan .daily true) ++ [.missing_monthly_ghi_data] := by
  decide

/-- a data class that runs the reporting checks but forgets to pass `is_reporting_data` judges reporting
data by its usage as well: the verdict can then contain a usage-based disqualification although no
reporting criterion is violated (what `HourlyReportingData` did before the repair; witness of C10-F4) -/
example :
    let rows : List Row := (List.range 40).map fun (i : Nat) =>
      { t := (i : Int) * 1440, month := 1, obsPresent := i % 2 == 0, obsNegative := false, tempPresent := true,
        tempCovOK := true, ghi := none, complete := i % 2 == 0 }
    verdict { family := .hourly, methodReporting := true, reporting := false, electric := true } rows
        = [DQ.too_many_days_with_missing_data]
      ∧ verdict { family := .hourly, methodReporting := true, reporting := true, electric := true } rows = [] := by
  decide +kernel

/-- with no complete row the only verdict is `no_data` -/
theorem C10_no_data (cfg : Cfg) (rows : List Row) (h : nDaysTotal rows = none) : verdict cfg rows = [.no_data] := by
  unfold verdict; rw [h]

/-- **the 90 % line is exact**: `n_valid / float(n_total) < 0.9` is the integer comparison
`10 · n_valid < 9 · n_total` (no tolerance either way) -/
theorem C10_under90_iff (v n : Int) (hn : 0 < n) : under90 v n = true ↔ 10 * v < 9 * n := by
  unfold under90
  rw [if_pos hn]
  simp only [decide_eq_true_eq]
  have hn' : (0 : Rat) < (n : Rat) := by exact_mod_cast hn
  rw [div_lt_iff₀ hn']
  constructor
  · intro h
    have : (10 * v : Rat) < 9 * n := by linarith
    exact_mod_cast this
  · intro h
    have : ((10 * v : Int) : Rat) < ((9 * n : Int) : Rat) := by exact_mod_cast h
    push_cast at this
    linarith

/-- the length criterion is the closed interval 329..365 -/
theorem C10_length_ok_iff (cfg : Cfg) (rows : List Row) (n : Int) (h : nDaysTotal rows = some n)
    (hm : cfg.methodReporting = cfg.reporting) (hb : cfg.reporting = false) :
    DQ.incorrect_number_of_total_days ∉ verdict cfg rows ↔ 329 ≤ n ∧ n ≤ 365 := by
  rw [C10_verdict_exact cfg rows n h hm]
  simp only [violated, hb, true_and]
  omega

/-- **the span is counted in calendar days**: when the first and last complete rows are `k` whole days
apart on the local wall clock — whatever clock changes lie between them — `n_days_total = k + 1`
(before repair c5dd37f4 the instants were absolute, and a span with one clock change came out one short) -/
theorem C10_calendar_span (rows : List Row) (a b : Row) (k : Int)
    (ha : (rows.filter (·.complete)).head? = some a) (hb : (rows.filter (·.complete)).getLast? = some b)
    (hk : b.t - a.t = k * 1440) : nDaysTotal rows = some (k + 1) := by
  unfold nDaysTotal
  simp only [ha, hb, hk]
  rw [Int.mul_ediv_cancel k (by norm_num)]

/-- instants increase -/
def Increasing : List Row → Prop
  | a :: b :: rest => a.t ≤ b.t ∧ Increasing (b :: rest)
  | _ => True

theorem sum_mask_mono (m₁ m₂ : Row → Bool) (hm : ∀ r, m₁ r = true → m₂ r = true) :
    ∀ (rows : List Row), Increasing rows →
      ((dayCounts rows).map fun (p : Row × Option Rat) => match p.2 with
        | some d => if m₁ p.1 then d else (0 : Rat)
        | none => (0 : Rat)).sum
      ≤ ((dayCounts rows).map fun (p : Row × Option Rat) => match p.2 with
        | some d => if m₂ p.1 then d else (0 : Rat)
        | none => (0 : Rat)).sum
  | [], _ => by simp [dayCounts]
  | [a], _ => by simp [dayCounts]
  | a :: b :: rest, h => by
    have ih := sum_mask_mono m₁ m₂ hm (b :: rest) h.2
    simp only [dayCounts, List.map_cons, List.sum_cons]
    have hd : (0 : Rat) ≤ ((b.t - a.t : Int) : Rat) / 1440 := by
      have : (0 : Int) ≤ b.t - a.t := by have := h.1; omega
      have : (0 : Rat) ≤ ((b.t - a.t : Int) : Rat) := by exact_mod_cast this
      exact div_nonneg this (by norm_num)
    by_cases h1 : m₁ a = true
    · rw [if_pos h1, if_pos (hm a h1)]; linarith
    · rw [if_neg h1]
      by_cases h2 : m₂ a = true
      · rw [if_pos h2]; linarith
      · rw [if_neg h2]; linarith

/-- **more valid data never lowers a valid-day count**: if every row valid under one mask is valid
under another, the counted days do not decrease -/
theorem C10_valid_days_monotone (m₁ m₂ : Row → Bool) (hm : ∀ r, m₁ r = true → m₂ r = true)
    (rows : List Row) (h : Increasing rows) : validDays m₁ rows ≤ validDays m₂ rows := by
  unfold validDays
  exact Rat.floor_monotone (sum_mask_mono m₁ m₂ hm rows h)

/-- ... and so never adds a coverage disqualification -/
theorem C10_under90_antitone (v₁ v₂ n : Int) (hv : v₁ ≤ v₂) (h : under90 v₂ n = true) : under90 v₁ n = true := by
  unfold under90 at *
  split
  · rename_i hn
    rw [if_pos hn] at h
    simp only [decide_eq_true_eq] at h ⊢
    have hn' : (0 : Rat) < (n : Rat) := by exact_mod_cast hn
    have : (v₁ : Rat) ≤ (v₂ : Rat) := by exact_mod_cast hv
    calc (v₁ : Rat) / n ≤ v₂ / n := by gcongr
      _ < 9 / 10 := h
  · rfl

/-- on a frame of whole days (every gap 1440 minutes) the counted days are the number of valid rows,
the last row excluded (its period is open-ended) -/
theorem C10_unit_days (mask : Row → Bool) : ∀ (rows : List Row),
    (∀ p ∈ dayCounts rows, p.2 = none ∨ p.2 = some 1) →
    validDays mask rows = ((rows.dropLast).filter mask).length
  | [], _ => by simp [validDays, dayCounts]; exact Rat.floor_intCast 0
  | [a], _ => by simp [validDays, dayCounts]; exact Rat.floor_intCast 0
  | a :: b :: rest, h => by
    have ih := C10_unit_days mask (b :: rest) (fun p hp => h p (by simp [dayCounts, hp]))
    have ha : (some ((((b.t - a.t : Int) : Rat)) / 1440) : Option Rat) = some 1 := by
      have := h (a, some (((b.t - a.t : Int) : Rat) / 1440)) (by simp [dayCounts])
      simpa using this
    unfold validDays at ih ⊢
    simp only [dayCounts, List.map_cons, List.sum_cons, List.dropLast_cons_cons, List.filter_cons] at ih ⊢
    rw [Option.some.injEq] at ha
    rw [ha]
    generalize ((dayCounts (b :: rest)).map fun (p : Row × Option Rat) => match p.2 with
        | some d => if mask p.1 then d else (0 : Rat)
        | none => (0 : Rat)).sum = S at ih ⊢
    have hfl : ∀ (k : Int), ((k : Rat) + S).floor = k + S.floor := by
      intro k
      apply le_antisymm
      · have h1 := Rat.lt_floor_add_one S
        have : (k : Rat) + S < ((k + S.floor + 1 : Int) : Rat) := by push_cast at h1 ⊢; linarith
        have := Rat.floor_lt_iff.mpr this
        omega
      · apply Rat.le_floor_iff.mpr
        have := Rat.floor_le S
        push_cast
        linarith
    by_cases hm : mask a = true
    · rw [if_pos hm, if_pos hm]
      have := hfl 1
      simp only [Int.cast_one] at this
      rw [this, ih]
      simp; omega
    · rw [if_neg hm, if_neg hm, zero_add, ih]

/-! ### Non-vacuity: 330 whole days, the last 34 without usage: 296 of 330 is under 90 % -/
example : (10 : Int) * 296 < 9 * 330 ∧ under90 296 330 = true ∧ under90 297 330 = false := by decide +kernel

end EEM.Props.C10
