/-
  EEM.Props.C11 — PROPERTY THEOREMS ONLY.
  C11: the daily model curve is continuous, monotone, and its load components add up.

  Objects: `Model.predictSubmodel` is the hand model of `DailyModel._predict_submodel`
  composed of the kernels GENERATED from /repo on every run (full_model, get_full_model_x,
  fix_full_model_x, get_smooth_coeffs).  `Bridge.Effective s x` says `x` is the effective
  7-vector the read path computes from the stored record `s`; it exists for every record
  obeying the sign conventions (`C11_effective_exists`).  `Bridge.NotWhole x T_max` excludes the
  single boundary case in which the effective balance points coincide at or beyond `T_max`
  (there the kernel extends the heating line over the whole range: Findings/C11).

  All statements are over ℝ, for EVERY temperature (not only −60…140 °F).
-/
import EEM.Bridge.Curve

namespace EEM.Props.C11
open EEM EEM.Spec EEM.Bridge EEM.Model Real

/-- every record obeying the sign conventions has an effective 7-vector with ordered balance
points and non-negative slopes/smoothing -/
theorem C11_effective_exists (s : Submodel ℝ) (hB : BoxOK s) : ∃ x, Effective s x :=
  effective_exists s hB

/-- the prediction of the (model of the) code IS the closed-form curve with its load split -/
theorem C11_prediction_is_curve {s : Submodel ℝ} {x : X} (h : Effective s x)
    (nw : NotWhole x s.T_max) (T : ℝ) :
    predictSubmodel s T
      = some { model := curveR x T, hdd_load := hddLoad x T, cdd_load := cddLoad x T } :=
  predict_refines h nw T

/-- continuity in temperature (including exactly at the balance points) -/
theorem C11_continuous (x : X) : Continuous (curveR x) := by
  unfold curveR curve
  exact (continuous_const.add (continuous_heat x)).add (continuous_cool x)

/-- between the balance points the prediction is the temperature-independent load -/
theorem C11_flat_between {s : Submodel ℝ} {x : X} (h : Effective s x) {T : ℝ}
    (h1 : x.hb ≤ T) (h2 : T ≤ x.cb) : curveR x T = s.coeffs.intercept := by
  unfold curveR curve
  rw [heat_of_ge LNMIN_nonpos LNMAX_nonneg x h.2.2.2.2.1 h1,
    cool_of_le LNMIN_nonpos LNMAX_nonneg x h.2.2.2.2.2.1 h2, h.2.2.2.2.2.2]
  ring

/-- never decreases as it gets colder below the heating balance point -/
theorem C11_antitone_below_hb {s : Submodel ℝ} {x : X} (h : Effective s x) :
    AntitoneOn (curveR x) (Set.Iic x.hb) := by
  intro a ha b hb hab
  have hc (T : ℝ) (hT : T ≤ x.hb) : cool LNMIN LNMAX x T = 0 :=
    cool_of_le LNMIN_nonpos LNMAX_nonneg x h.2.2.2.2.2.1 (le_trans hT h.2.1)
  have := heat_antitone LNMIN_nonpos LNMAX_nonneg x h.2.2.1 h.2.2.2.2.1 hab
  unfold curveR curve
  rw [hc a ha, hc b hb]
  linarith

/-- never decreases as it gets hotter above the cooling balance point -/
theorem C11_monotone_above_cb {s : Submodel ℝ} {x : X} (h : Effective s x) :
    MonotoneOn (curveR x) (Set.Ici x.cb) := by
  intro a ha b hb hab
  have hh (T : ℝ) (hT : x.cb ≤ T) : heat LNMIN LNMAX x T = 0 :=
    heat_of_ge LNMIN_nonpos LNMAX_nonneg x h.2.2.2.2.1 (le_trans h.2.1 hT)
  have := cool_monotone LNMIN_nonpos LNMAX_nonneg x h.2.2.2.1 h.2.2.2.2.2.1 hab
  unfold curveR curve
  rw [hh a ha, hh b hb]
  linarith

/-- unsmoothed: exactly the straight line with the fitted slope beyond the heating balance point -/
theorem C11_linear_below_hb_unsmoothed {s : Submodel ℝ} {x : X} (h : Effective s x)
    (hk : x.kh = 0) {T : ℝ} (hT : T ≤ x.hb) : curveR x T = x.c + x.βh * (x.hb - T) := by
  unfold curveR curve
  rw [heat_of_le_unsmooth LNMIN_nonpos LNMAX_nonneg x hk hT,
    cool_of_le LNMIN_nonpos LNMAX_nonneg x h.2.2.2.2.2.1 (le_trans hT h.2.1)]
  ring

theorem C11_linear_above_cb_unsmoothed {s : Submodel ℝ} {x : X} (h : Effective s x)
    (hk : x.kc = 0) {T : ℝ} (hT : x.cb ≤ T) : curveR x T = x.c + x.βc * (T - x.cb) := by
  unfold curveR curve
  rw [cool_of_ge_unsmooth LNMIN_nonpos LNMAX_nonneg x hk hT,
    heat_of_ge LNMIN_nonpos LNMAX_nonneg x h.2.2.2.2.1 (le_trans h.2.1 hT)]
  ring

/-- smoothed: the distance to the straight line of slope −βh through (hb, c − βh·kh) is exactly
`βh·kh·exp(max((T−hb)/kh, LNMIN))`: positive, and exponentially small as T falls -/
theorem C11_asymptote_below_hb_smoothed {s : Submodel ℝ} {x : X} (h : Effective s x)
    (hk : 0 < x.kh) {T : ℝ} (hT : T ≤ x.hb) :
    curveR x T - heatLine x T = x.βh * x.kh * exp (max ((T - x.hb) / x.kh) LNMIN) := by
  unfold curveR curve heatLine
  rw [heat_of_le_smooth LNMIN_nonpos LNMAX_nonneg x hk hT,
    cool_of_le LNMIN_nonpos LNMAX_nonneg x h.2.2.2.2.2.1 (le_trans hT h.2.1)]
  have : x.kh * ((T - x.hb) / x.kh) = T - x.hb := by field_simp
  linear_combination (-x.βh) * this

theorem C11_asymptote_above_cb_smoothed {s : Submodel ℝ} {x : X} (h : Effective s x)
    (hk : 0 < x.kc) {T : ℝ} (hT : x.cb ≤ T) :
    curveR x T - coolLine x T = x.βc * x.kc * exp (max ((x.cb - T) / x.kc) LNMIN) := by
  unfold curveR curve coolLine
  rw [cool_of_ge_smooth LNMIN_nonpos LNMAX_nonneg x hk hT,
    heat_of_ge LNMIN_nonpos LNMAX_nonneg x h.2.2.2.2.1 (le_trans h.2.1 hT)]
  have : x.kc * ((x.cb - T) / x.kc) = x.cb - T := by field_simp
  linear_combination (-x.βc) * this

/-- … and that distance is at most `βh·kh·exp((T−hb)/kh)` while the exponent is not clipped -/
theorem C11_asymptote_bound {s : Submodel ℝ} {x : X} (h : Effective s x)
    (hk : 0 < x.kh) {T : ℝ} (hT : T ≤ x.hb) (hclip : LNMIN ≤ (T - x.hb) / x.kh) :
    |curveR x T - heatLine x T| ≤ x.βh * x.kh * exp ((T - x.hb) / x.kh) := by
  rw [C11_asymptote_below_hb_smoothed h hk hT, max_eq_left hclip,
    abs_of_nonneg (mul_nonneg (mul_nonneg h.2.2.1 hk.le) (exp_pos _).le)]

/-- heating and cooling load are non-negative, at most one is non-zero, and
base load + heating load + cooling load is the prediction, exactly -/
theorem C11_loads {s : Submodel ℝ} {x : X} (h : Effective s x) (nw : NotWhole x s.T_max)
    (T : ℝ) (p : Pred ℝ) (hp : predictSubmodel s T = some p) :
    0 ≤ p.hdd_load ∧ 0 ≤ p.cdd_load ∧ (p.hdd_load = 0 ∨ p.cdd_load = 0)
      ∧ s.coeffs.intercept + p.hdd_load + p.cdd_load = p.model := by
  rw [predict_refines h nw T] at hp
  cases hp
  have hL := LNMIN_nonpos
  have hU := LNMAX_nonneg
  obtain ⟨_, ord, b1, b2, k1, k2, hc⟩ := h
  have hh0 := heat_nonneg hL hU x b1 k1 T
  have hc0 := cool_nonneg hL hU x b2 k2 T
  simp only [hddLoad, cddLoad, curveR, curve, ← hc]
  rcases lt_trichotomy T x.hb with hT | hT | hT
  · have : cool LNMIN LNMAX x T = 0 := cool_of_le hL hU x k2 (by linarith)
    have h3 : ¬ x.cb ≤ T := by linarith
    simp only [hT.le, if_true, h3, if_false, this]
    refine ⟨by linarith, le_refl _, Or.inr trivial, by ring⟩
  · have e1 : heat LNMIN LNMAX x T = 0 := heat_of_ge hL hU x k1 hT.ge
    have e2 : cool LNMIN LNMAX x T = 0 := cool_of_le hL hU x k2 (hT ▸ ord)
    simp only [e1, e2]
    split_ifs <;> simp
  · have e1 : heat LNMIN LNMAX x T = 0 := heat_of_ge hL hU x k1 hT.le
    have h3 : ¬ T ≤ x.hb := by linarith
    simp only [h3, if_false, e1]
    split_ifs with h4
    · exact ⟨le_refl _, by linarith, Or.inl trivial, by ring⟩
    · have : cool LNMIN LNMAX x T = 0 := cool_of_le hL hU x k2 (not_le.mp h4).le
      simp [this]

/-! ### Non-vacuity: concrete records meeting the hypotheses -/

/-- a smoothed two-slope record: hb 55, slope 1.2, 30 % smoothing; cb 68, slope 2, 40 % -/
def exFull : Submodel ℝ :=
  { coeffs := { model_type := .hdd_tidd_cdd_smooth, intercept := 20, hdd_bp := some 55,
                hdd_beta := some 1.2, hdd_k := some 0.3, cdd_bp := some 68, cdd_beta := some 2,
                cdd_k := some 0.4 },
    T_min := 10, T_max := 95, T_min_seg := 20, T_max_seg := 85, f_unc := 1 }

example : BoxOK exFull := by
  simp only [BoxOK, exFull, Coeffs.toNpArray, Option.bind_eq_bind, Option.bind_some]
  norm_num

/-- a heating-only unsmoothed record with the stored sign convention (negative slope) -/
def exHeat : Submodel ℝ :=
  { coeffs := { model_type := .hdd_tidd, intercept := 12, hdd_bp := some 60, hdd_beta := some (-0.8) },
    T_min := 5, T_max := 90, T_min_seg := 15, T_max_seg := 80, f_unc := 1 }

example : BoxOK exHeat := by
  simp only [BoxOK, exHeat, Coeffs.toNpArray, Option.bind_eq_bind, Option.bind_some]

end EEM.Props.C11
