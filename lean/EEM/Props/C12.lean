/-
  EEM.Props.C12 — PROPERTY THEOREMS ONLY.
  C12: every fitted daily/billing model is physically admissible and well formed — the part that is
  decided downstream of the optimiser: `reduce_model` and `ModelCoefficients.from_np_arrays`
  (`EEM.Model.Refine`, tied to the real functions by ./check C12).  "The optimiser returns a finite
  point inside the box it was given" is an ASSUMPTION validated on real fits through the hook.
-/
import EEM.Real
import EEM.Model.Refine
import EEM.Bridge.Curve
import EEM.Bridge.Kept
import EEM.Props.C11
import Mathlib.Tactic.Linarith

namespace EEM.Props.C12
open EEM EEM.Model EEM.Model.Refine EEM.RealBridge EEM.Bridge

/-- which optional fields a model type declares: (hdd_bp, hdd_beta, hdd_k, cdd_bp, cdd_beta, cdd_k) -/
def declared : ModelType → Bool × Bool × Bool × Bool × Bool × Bool
  | .hdd_tidd_cdd_smooth => (true, true, true, true, true, true)
  | .hdd_tidd_cdd => (true, true, false, true, true, false)
  | .hdd_tidd_smooth => (true, true, true, false, false, false)
  | .hdd_tidd => (true, true, false, false, false, false)
  | .tidd_cdd_smooth => (false, false, false, true, true, true)
  | .tidd_cdd => (false, false, false, true, true, false)
  | .tidd => (false, false, false, false, false, false)

def present (c : Coeffs ℝ) : Bool × Bool × Bool × Bool × Bool × Bool :=
  (c.hdd_bp.isSome, c.hdd_beta.isSome, c.hdd_k.isSome, c.cdd_bp.isSome, c.cdd_beta.isSome, c.cdd_k.isSome)

/-- **the declared model type agrees with which coefficients are present**, for every vector -/
theorem C12_type_matches_fields (ids : CoefId) (x : List ℝ) (c : Coeffs ℝ)
    (h : fromNpArrays ids x = some c) : present c = declared c.model_type := by
  unfold fromNpArrays at h
  split at h
  all_goals first
    | (split at h <;> (cases h; rfl))
    | (cases h; rfl)
    | cases h

/-- **the heating balance point is not above the cooling one** in every stored two-slope record -/
theorem C12_stored_ordered (ids : CoefId) (x : List ℝ) (c : Coeffs ℝ) (hb cb : ℝ)
    (h : fromNpArrays ids x = some c) (h1 : c.hdd_bp = some hb) (h2 : c.cdd_bp = some cb) : hb ≤ cb := by
  unfold fromNpArrays at h
  split at h
  · -- full7
    split at h
    · rename_i hlt
      cases h
      simp only [Option.some.injEq] at h1 h2
      subst h1; subst h2
      have : _ < _ := (ltb_iff _ _).mp hlt
      exact this.le
    · rename_i hlt
      cases h
      simp only [Option.some.injEq] at h1 h2
      subst h1; subst h2
      have := (ltb_false_iff _ _).mp (by simpa using hlt)
      exact this
  · split at h
    · rename_i hlt
      cases h
      simp only [Option.some.injEq] at h1 h2
      subst h1; subst h2
      exact ((ltb_iff _ _).mp hlt).le
    · rename_i hlt
      cases h
      simp only [Option.some.injEq] at h1 h2
      subst h1; subst h2
      exact (ltb_false_iff _ _).mp (by simpa using hlt)
  · split at h <;> (cases h; simp at h1 h2)
  · split at h <;> (cases h; simp at h1 h2)
  · cases h; simp at h1
  · cases h

/-- **slope signs of the single-slope shapes**: a heating-only record stores a negative slope (usage
rises as it gets colder), a cooling-only record a non-negative one -/
theorem C12_single_slope_signs (ids : CoefId) (x : List ℝ) (c : Coeffs ℝ)
    (h : fromNpArrays ids x = some c) :
    ((c.model_type = .hdd_tidd ∨ c.model_type = .hdd_tidd_smooth) → ∃ β, c.hdd_beta = some β ∧ β < 0) ∧
    ((c.model_type = .tidd_cdd ∨ c.model_type = .tidd_cdd_smooth) → ∃ β, c.cdd_beta = some β ∧ 0 ≤ β) := by
  unfold fromNpArrays at h
  split at h
  all_goals first
    | cases h; done
    | (cases h; simp; done)
    | (split at h <;> rename_i hlt <;> cases h <;>
        simp only [ofNat_eq, Nat.cast_zero, ltb_iff, not_lt] at hlt <;> simp [hlt])

/-- **admissible for the curve theorems**: a vector with non-negative slope magnitudes and smoothing
(what the optimiser's boxes guarantee) is stored as a record obeying the sign conventions of C11 —
so its prediction is the closed-form curve with non-negative, exclusive, additive loads -/
theorem C12_stored_record_obeys_sign_conventions (ids : CoefId) (x : List ℝ) (c : Coeffs ℝ)
    (h : fromNpArrays ids x = some c) (tmin tmax tmins tmaxs fu : ℝ)
    (hx7 : ∀ hb βh kh cb βc kc ic, x = [hb, βh, kh, cb, βc, kc, ic] → 0 ≤ βh ∧ 0 ≤ βc ∧ 0 ≤ kh ∧ 0 ≤ kc)
    (hx5 : ∀ hb βh cb βc ic, x = [hb, βh, cb, βc, ic] → 0 ≤ βh ∧ 0 ≤ βc)
    (hx4 : ∀ bp β k ic, x = [bp, β, k, ic] → 0 ≤ k) :
    BoxOK { coeffs := c, T_min := tmin, T_max := tmax, T_min_seg := tmins, T_max_seg := tmaxs, f_unc := fu } := by
  unfold fromNpArrays at h
  split at h
  · obtain ⟨a, b, k1, k2⟩ := hx7 _ _ _ _ _ _ _ rfl
    split at h <;> (cases h; simp [BoxOK, Coeffs.toNpArray, *])
  · obtain ⟨a, b⟩ := hx5 _ _ _ _ _ rfl
    split at h <;> (cases h; simp [BoxOK, Coeffs.toNpArray, *])
  · have := hx4 _ _ _ _ rfl
    split at h <;> (cases h; simp [BoxOK, Coeffs.toNpArray, *])
  · split at h <;> (cases h; simp [BoxOK, Coeffs.toNpArray])
  · cases h; simp [BoxOK, Coeffs.toNpArray]
  · cases h

/-- **every declared slope is non-zero**, for every fuel (so through the self-call) and every
model key: a two-slope result has both slopes non-zero, a single-slope result carries its slope in
position 1 and it is non-zero, and the flat result is returned only when both slopes are zero -/
theorem C12_reduce_declared_slopes_nonzero (fuel : Nat) (hb βh pkh cb βc pkc c tmins tmaxs : ℝ) (key : Gen.ModelKey)
    (ids : CoefId) (x : List ℝ)
    (h : reduceModel fuel hb βh pkh cb βc pkc c tmins tmaxs key = some (ids, x)) :
    (ids = .full7 ∨ ids = .full5 → βh ≠ 0 ∧ βc ≠ 0)
      ∧ (ids = .c4 ∨ ids = .c3 → ∃ bp β rest, x = bp :: β :: rest ∧ β ≠ 0)
      ∧ (ids = .one → βh = 0 ∧ βc = 0) := by
  induction fuel generalizing hb pkh cb pkc key with
  | zero => simp [reduceModel] at h
  | succ n ih =>
    unfold reduceModel at h
    simp only [neb_iff, eqb_iff, Bool.and_eq_true, Bool.or_eq_true, ofNat_eq, Nat.cast_zero] at h
    split_ifs at h
    all_goals first
      | (cases h; simp_all; done)
      | (split at h
         · split_ifs at h
           · exact ih _ _ _ _ _ h
           · cases h; simp_all
         · cases h)

/-- **reduce_model's recursion terminates**: the self-call is made with the key
`c_hdd_tidd_smooth`, under which no further self-call is possible — fuel 2 decides every input -/
theorem C12_reduce_terminates (n : Nat) (hb βh pkh cb βc pkc c tmins tmaxs : ℝ) (key : Gen.ModelKey) :
    reduceModel (n + 2) hb βh pkh cb βc pkc c tmins tmaxs key = reduceModel 2 hb βh pkh cb βc pkc c tmins tmaxs key := by
  have one : ∀ (m : Nat) (hb βh pkh cb βc pkc : ℝ),
      reduceModel (m + 1) hb βh pkh cb βc pkc c tmins tmaxs .c_hdd_tidd_smooth
        = reduceModel 1 hb βh pkh cb βc pkc c tmins tmaxs .c_hdd_tidd_smooth := by
    intro m hb βh pkh cb βc pkc
    unfold reduceModel
    simp
  unfold reduceModel
  simp only [one n]

/-- **a stored record is always evaluable**: every field its type needs is present, so
`to_np_array` (what prediction starts from) never meets a `None` -/
theorem C12_stored_record_evaluable (ids : CoefId) (x : List ℝ) (c : Coeffs ℝ)
    (h : fromNpArrays ids x = some c) : ∃ y, c.toNpArray = some y ∧ y.length = x.length := by
  unfold fromNpArrays at h
  split at h
  all_goals first
    | cases h; done
    | (cases h; exact ⟨_, rfl, rfl⟩)
    | (split at h <;> cases h <;> exact ⟨_, rfl, rfl⟩)

/-- **storing loses nothing when the balance points arrive ordered**: `to_np_array` gives back the
optimiser's reduced vector (when they arrive crossed, heating and cooling triples are exchanged —
that exchange is finding C11-F2's territory and is observed, not assumed away, by the check) -/
theorem C12_store_roundtrip (ids : CoefId) (x : List ℝ) (c : Coeffs ℝ)
    (h : fromNpArrays ids x = some c)
    (h7 : ∀ hb βh kh cb βc kc ic, x = [hb, βh, kh, cb, βc, kc, ic] → hb ≤ cb)
    (h5 : ∀ hb βh cb βc ic, x = [hb, βh, cb, βc, ic] → hb ≤ cb) : c.toNpArray = some x := by
  unfold fromNpArrays at h
  split at h
  · have := h7 _ _ _ _ _ _ _ rfl
    rw [if_neg (by simpa using this)] at h
    cases h; rfl
  · have := h5 _ _ _ _ _ rfl
    rw [if_neg (by simpa using this)] at h
    cases h; rfl
  · split at h <;> (cases h; rfl)
  · split at h <;> (cases h; rfl)
  · cases h; rfl
  · cases h

/-! ### the kept coefficients describe the curve the optimiser scored -/

open EEM.Bridge.Kept in
/-- optimiser outcomes covered by the theorem below: the segment limits lie strictly inside the
observed range, balance points are ordered and inside the segment box, slopes and smoothing are
non-negative, and the outcome is none of the three listed findings — C12-F1 (a zero-slope side still
carrying a smoothing fraction), C12-F2 (crossed balance points with smoothing), C12-F3 (a
single-slope balance point on or beyond the segment limit). -/
inductive Covered (Tmin Tmax Tmins Tmaxs : ℝ) : Gen.ModelKey → List ℝ → Prop
  | smooth_both (hb βh pkh cb βc pkc c : ℝ) : Tmins ≤ hb → hb ≤ cb → cb ≤ Tmaxs → 0 ≤ pkh → 0 ≤ pkc → 0 < βh → 0 < βc →
      Covered Tmin Tmax Tmins Tmaxs .hdd_tidd_cdd_smooth [hb, βh, pkh, cb, βc, pkc, c]
  | smooth_heat_only (hb βh pkh cb c : ℝ) : Tmins ≤ hb → hb ≤ cb → cb ≤ Tmaxs → 0 ≤ pkh → 0 < βh → hb < Tmaxs → Tmins < cb →
      Covered Tmin Tmax Tmins Tmaxs .hdd_tidd_cdd_smooth [hb, βh, pkh, cb, 0, 0, c]
  | smooth_cool_only (hb cb βc pkc c : ℝ) : Tmins ≤ hb → hb ≤ cb → cb ≤ Tmaxs → 0 ≤ pkc → 0 < βc → hb < Tmaxs → Tmins < cb →
      Covered Tmin Tmax Tmins Tmaxs .hdd_tidd_cdd_smooth [hb, 0, 0, cb, βc, pkc, c]
  | smooth_flat (hb pkh cb pkc c : ℝ) : Tmins ≤ hb → hb ≤ cb → cb ≤ Tmaxs → 0 ≤ pkh → 0 ≤ pkc → 0 < Tmax →
      Covered Tmin Tmax Tmins Tmaxs .hdd_tidd_cdd_smooth [hb, 0, pkh, cb, 0, pkc, c]
  | linear_both (hb βh cb βc c : ℝ) : Tmins ≤ hb → hb ≤ cb → cb ≤ Tmaxs → 0 < βh → 0 < βc →
      Covered Tmin Tmax Tmins Tmaxs .hdd_tidd_cdd [hb, βh, cb, βc, c]
  | linear_heat_only (hb βh cb c : ℝ) : Tmins ≤ hb → hb ≤ cb → cb ≤ Tmaxs → 0 < βh →
      Covered Tmin Tmax Tmins Tmaxs .hdd_tidd_cdd [hb, βh, cb, 0, c]
  | linear_cool_only (hb cb βc c : ℝ) : Tmins ≤ hb → hb ≤ cb → cb ≤ Tmaxs → 0 < βc →
      Covered Tmin Tmax Tmins Tmaxs .hdd_tidd_cdd [hb, 0, cb, βc, c]
  | linear_flat (hb cb c : ℝ) : Tmins ≤ hb → hb ≤ cb → cb ≤ Tmaxs → 0 < Tmax →
      Covered Tmin Tmax Tmins Tmaxs .hdd_tidd_cdd [hb, 0, cb, 0, c]
  | one_smooth_heat (bp β k c : ℝ) : Tmins ≤ bp → bp ≤ Tmaxs → β < 0 → 0 ≤ k →
      Covered Tmin Tmax Tmins Tmaxs .c_hdd_tidd_smooth [bp, β, k, c]
  | one_smooth_cool (bp β k c : ℝ) : Tmins ≤ bp → bp ≤ Tmaxs → 0 < β → 0 ≤ k →
      Covered Tmin Tmax Tmins Tmaxs .c_hdd_tidd_smooth [bp, β, k, c]
  | one_smooth_flat (bp k c : ℝ) : Tmins ≤ bp → bp ≤ Tmaxs → 0 ≤ k → 0 < Tmax →
      Covered Tmin Tmax Tmins Tmaxs .c_hdd_tidd_smooth [bp, 0, k, c]
  | one_linear_heat (bp β c : ℝ) : Tmins ≤ bp → bp ≤ Tmaxs → β < 0 → Covered Tmin Tmax Tmins Tmaxs .c_hdd_tidd [bp, β, c]
  | one_linear_cool (bp β c : ℝ) : Tmins ≤ bp → bp ≤ Tmaxs → 0 < β → Covered Tmin Tmax Tmins Tmaxs .c_hdd_tidd [bp, β, c]
  | one_linear_flat (bp c : ℝ) : Tmins ≤ bp → bp ≤ Tmaxs → 0 < Tmax → Covered Tmin Tmax Tmins Tmaxs .c_hdd_tidd [bp, 0, c]
  | tidd (c : ℝ) : 0 < Tmax → Covered Tmin Tmax Tmins Tmaxs .tidd [c]

open EEM.Bridge.Kept in
/-- **the kept coefficients describe the curve the optimiser scored**: for every covered optimiser
outcome — all five coefficient layouts, every reduction `_refine_model` makes (two slopes, one slope,
flat; smoothing kept or dropped; the self-call of `reduce_model`) — and EVERY temperature, the record
that is stored (`get_full_model_x` → `reduce_model` → `from_np_arrays`) is evaluable and
`_predict_submodel` of it returns exactly the value the objective scored for the raw vector.
Outside `Covered` lie the three listed findings and the boundary cases (crossed balance points
without smoothing, balance points on the ends of the observed range), which the check decides by
running the real code. -/
theorem C12_kept_reproduces_scored {Tmin Tmax Tmins Tmaxs : ℝ} (L : Limits Tmin Tmax Tmins Tmaxs)
    {key : Gen.ModelKey} {raw : List ℝ} (h : Covered Tmin Tmax Tmins Tmaxs key raw) (T : ℝ) :
    KeptIsScored key raw Tmin Tmax Tmins Tmaxs T := by
  cases h with
  | smooth_both hb βh pkh cb βc pkc c h1 ord h2 p0 q0 bh bc =>
    exact two_smooth_both (c := c) (L := L) (h1 := h1) (ord := ord) (h2 := h2) (p0 := p0) (q0 := q0) (bh := bh) (bc := bc) (T := T)
  | smooth_heat_only hb βh pkh cb c h1 ord h2 p0 bh hbs hcs =>
    exact two_smooth_heat_only (c := c) (pkc := 0) (L := L) (h1 := h1) (ord := ord) (h2 := h2) (p0 := p0) (q0 := le_rfl)
      (bh := bh) (hbs := hbs) (hcs := hcs) (T := T)
  | smooth_cool_only hb cb βc pkc c h1 ord h2 q0 bc hbs hcs =>
    exact two_smooth_cool_only (c := c) (pkh := 0) (L := L) (h1 := h1) (ord := ord) (h2 := h2) (p0 := le_rfl) (q0 := q0)
      (bc := bc) (hbs := hbs) (hcs := hcs) (T := T)
  | smooth_flat hb pkh cb pkc c h1 ord h2 p0 q0 hT0 =>
    exact two_smooth_flat (c := c) (L := L) (h1 := h1) (ord := ord) (h2 := h2) (p0 := p0) (q0 := q0) (hT0 := hT0) (T := T)
  | linear_both hb βh cb βc c h1 ord h2 bh bc =>
    exact two_linear_both (c := c) (L := L) (h1 := h1) (ord := ord) (h2 := h2) (bh := bh) (bc := bc) (T := T)
  | linear_heat_only hb βh cb c h1 ord h2 bh =>
    exact two_linear_heat_only (c := c) (L := L) (h1 := h1) (ord := ord) (h2 := h2) (bh := bh) (T := T)
  | linear_cool_only hb cb βc c h1 ord h2 bc =>
    exact two_linear_cool_only (c := c) (L := L) (h1 := h1) (ord := ord) (h2 := h2) (bc := bc) (T := T)
  | linear_flat hb cb c h1 ord h2 hT0 =>
    exact two_linear_flat (c := c) (L := L) (h1 := h1) (ord := ord) (h2 := h2) (hT0 := hT0) (T := T)
  | one_smooth_heat bp β k c h1 h2 hβ hk =>
    exact EEM.Bridge.Kept.one_smooth_heat (c := c) (L := L) (h1 := h1) (h2 := h2) (hβ := hβ) (hk0 := hk) (T := T)
  | one_smooth_cool bp β k c h1 h2 hβ hk =>
    exact EEM.Bridge.Kept.one_smooth_cool (c := c) (L := L) (h1 := h1) (h2 := h2) (hβ := hβ) (hk0 := hk) (T := T)
  | one_smooth_flat bp k c h1 h2 hk hT0 =>
    exact EEM.Bridge.Kept.one_smooth_flat (c := c) (L := L) (h1 := h1) (h2 := h2) (hT0 := hT0) (hkk := hk) (T := T)
  | one_linear_heat bp β c h1 h2 hβ =>
    exact EEM.Bridge.Kept.one_linear_heat (c := c) (L := L) (h1 := h1) (h2 := h2) (hβ := hβ) (T := T)
  | one_linear_cool bp β c h1 h2 hβ =>
    exact EEM.Bridge.Kept.one_linear_cool (c := c) (L := L) (h1 := h1) (h2 := h2) (hβ := hβ) (T := T)
  | one_linear_flat bp c h1 h2 hT0 =>
    exact EEM.Bridge.Kept.one_linear_flat (c := c) (L := L) (h1 := h1) (h2 := h2) (hT0 := hT0) (T := T)
  | tidd c hT0 => exact tidd_case c Tmin Tmax Tmins Tmaxs hT0 T

open EEM.Bridge.Kept in
/-- **every covered kept model is a model C11 speaks about**: its stored record has an effective 7-vector
that obeys the sign conventions and is not the whole-range boundary case — so continuity, flatness between
the balance points, monotonicity, the asymptotes and the load identities of C11 hold for it, at every
temperature (in particular: never a negative heating or cooling load) -/
theorem C12_kept_model_obeys_C11 {Tmin Tmax Tmins Tmaxs : ℝ} (L : Limits Tmin Tmax Tmins Tmaxs)
    {key : Gen.ModelKey} {raw : List ℝ} (h : Covered Tmin Tmax Tmins Tmaxs key raw) :
    ∃ s x, keptSubmodel key raw Tmin Tmax Tmins Tmaxs = some s ∧ Effective s x ∧ NotWhole x s.T_max
      ∧ ∀ (T : ℝ) (p : Model.Pred ℝ), Model.predictSubmodel s T = some p →
          0 ≤ p.hdd_load ∧ 0 ≤ p.cdd_load ∧ (p.hdd_load = 0 ∨ p.cdd_load = 0)
            ∧ s.coeffs.intercept + p.hdd_load + p.cdd_load = p.model := by
  obtain ⟨s, _, _, hs, _, _, _, _, x, heff, hnw⟩ := C12_kept_reproduces_scored L h 0
  exact ⟨s, x, hs, heff, hnw, fun T p hp => EEM.Props.C11.C11_loads heff hnw T p hp⟩

/-- non-vacuity: a both-slopes smoothed outcome inside its box is covered -/
example : Covered 10 95 20 85 .hdd_tidd_cdd_smooth [55, 1.2, 0.3, 68, 0.8, 0.2, 14] := by
  refine Covered.smooth_both 55 1.2 0.3 68 0.8 0.2 14 ?_ ?_ ?_ ?_ ?_ ?_ ?_ <;> norm_num

/-! ### Non-vacuity -/
example : fromNpArrays (α := ℝ) .c3 [60, -0.8, 12]
    = some { model_type := .hdd_tidd, intercept := 12, hdd_bp := some 60, hdd_beta := some (-0.8) } := by
  have : ((-0.8 : ℝ) < 0) := by norm_num
  unfold fromNpArrays
  simp only [ofNat_eq, Nat.cast_zero, ltb_iff, this, if_true]

end EEM.Props.C12
