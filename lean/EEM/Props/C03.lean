/-
  EEM.Props.C03 — PROPERTY THEOREMS ONLY.   (PARTIAL: see the end of the file.)
  C03: fitting is reproducible — the part that is logic: where randomness and retained state can
  enter a fit.  Tables: EEM.Gen.Nondet (regenerated from /repo on every run).
-/
import EEM.Model.Nondet
import EEM.Gen.Nondet
import EEM.Spec.Nondet

namespace EEM.Props.C03
open EEM.Model.Nondet

/-- **the only global-RNG draw in the library is the one guarded by `self.seed is None`** (table
regenerated from the source = frozen expectation) -/
theorem C03_global_rng_draws_are_the_known_one : EEM.Gen.Nondet.globalRngDraws = EEM.Spec.Nondet.globalRngDraws := by
  decide +kernel

/-- **every seeded constructor takes its seed from the settings** (ElasticNet from `_seed`, each
bisecting k-means from `seed + i`); no new `random_state=` site has appeared -/
theorem C03_seed_arguments_are_the_known_ones : EEM.Gen.Nondet.seedArguments = EEM.Spec.Nondet.seedArguments := by
  decide +kernel

/-- **no mutable default argument is mutated** by the function that declares it -/
theorem C03_no_mutable_default_is_mutated : EEM.Gen.Nondet.mutableDefaults.all (fun e => !e.2.2.2.2) = true := by
  decide +kernel

/-- **no function rebinds module-level state** (`global` statements) -/
theorem C03_no_global_statements : EEM.Gen.Nondet.globalStatements = [] := by
  decide +kernel

/-- **no function writes into a module-level container**: nothing a fit does can be found again by a
later fit in the same process through module state (caches, registries, accumulators) -/
theorem C03_no_module_state_is_written : EEM.Gen.Nondet.moduleStateWrites = [] := by
  decide +kernel

/-- **memoisation is per object only** (`cached_property` of the metrics frames); no process-wide
`lru_cache` / `cache` has appeared -/
theorem C03_memoised_functions_are_the_known_ones :
    EEM.Gen.Nondet.memoisedFunctions = EEM.Spec.Nondet.memoisedFunctions := by
  decide +kernel

/-- **a given seed is used as given**: whatever the global RNG would have produced -/
theorem C03_seed_given_ignores_global (s g₁ g₂ : Nat) : effectiveSeed (some s) g₁ = effectiveSeed (some s) g₂ := rfl

/-- ... including seed 0 (a falsy value must not be mistaken for "no seed") -/
theorem C03_seed_zero_is_a_seed (g : Nat) : effectiveSeed (some 0) g = 0 := rfl

/-- **with a seed, the seeds of all draws do not depend on process history**: if every global draw is
guarded by "no seed given", two fits started from any two global RNG states make the same draws -/
theorem C03_draws_independent_of_history (sites : List Site) (s : Nat) (g₁ g₂ : Nat)
    (h : ∀ x ∈ sites, x.src = .global → x.onlyWhenSeedNone = true) :
    drawSeeds sites (some s) g₁ = drawSeeds sites (some s) g₂ := by
  unfold drawSeeds
  induction sites with
  | nil => rfl
  | cons x xs ih =>
    have ih' := ih (fun y hy => h y (List.mem_cons_of_mem _ hy))
    have hx : siteSeed (some s) g₁ x = siteSeed (some s) g₂ x := by
      unfold siteSeed
      cases hsn : x.onlyWhenSeedNone with
      | true => simp
      | false =>
        cases hs : x.src with
        | global => have := h x (List.mem_cons_self ..) hs; simp [hsn] at this
        | settings k => simp [effectiveSeed]
    rw [List.filterMap_cons, List.filterMap_cons, hx, ih']

/-- the sites of the hourly fit as the tables describe them: the guarded global draw, ElasticNet on
the effective seed, and `recluster_count` k-means runs on `seed + i` -/
def hourlySites (reclusterCount : Nat) : List Site :=
  { src := .global, onlyWhenSeedNone := true } :: { src := .settings 0, onlyWhenSeedNone := false }
    :: (List.range reclusterCount).map fun i => { src := .settings i, onlyWhenSeedNone := false }

/-- **the hourly fit with a seed is a function of data, settings and seed only** — given that the
numerical core is a function of its inputs and of the seeds of its draws (the modelling assumption) -/
theorem C03_hourly_fit_reproducible {D S M : Type} (core : D → S → List Nat → M) (n : Nat) (d : D) (st : S)
    (s g₁ g₂ : Nat) : fit core (hourlySites n) d st (some s) g₁ = fit core (hourlySites n) d st (some s) g₂ := by
  unfold fit
  rw [C03_draws_independent_of_history (hourlySites n) s g₁ g₂]
  intro x hx hg
  simp only [hourlySites, List.mem_cons, List.mem_map, List.mem_range] at hx
  rcases hx with rfl | rfl | ⟨i, _, rfl⟩
  · rfl
  · cases hg
  · cases hg

/-- the daily / billing fit makes no draw at all -/
theorem C03_daily_fit_reproducible {D S M : Type} (core : D → S → List Nat → M) (d : D) (st : S)
    (seed : Option Nat) (g₁ g₂ : Nat) : fit core [] d st seed g₁ = fit core [] d st seed g₂ := rfl

/-- without the guard the statement is false: a site that always draws globally makes the draws
depend on history (what the seeded mutation `if not self.seed` does for seed 0) -/
example : drawSeeds [{ src := .global, onlyWhenSeedNone := false }] (some 0) 1
    ≠ drawSeeds [{ src := .global, onlyWhenSeedNone := false }] (some 0) 2 := by decide

/-
  PARTIAL.  Not proved, and not provable in an executable model of this size: that NLopt (DIRECT,
  SBPLX), numba-compiled kernels, BLAS reductions, scikit-learn's ElasticNet / k-means and the OS
  scheduler are deterministic functions of their inputs and seeds (`core` above is ASSUMED to be a
  function).  That part is observed by the oracle of ./check C03 (repeated fits, fresh processes,
  thread counts, concurrent workers, perturbed global RNG).
-/
end EEM.Props.C03
