/-
  EEM.Props.C07 — PROPERTY THEOREMS ONLY.
  C07: observed and predicted usage are masked together so savings sums are unbiased.

  About `EEM.Model.PredictFrame` (hand model of DailyModel._predict's frame assembly; ./check C07
  measures the masking mode of the implementation and runs the model with it).  The full-strength
  statements are for `MaskMode.nonFinite` (the repaired statement); `MaskMode.noOp` (the pinned
  commit's chained assignment) is refuted by a concrete witness at the end.
  Frames of ANY length; any routing and any per-segment curve.
-/
import EEM.Model.PredictFrame
import EEM.Gen.MaskStatement
import Mathlib.Tactic.Linarith
import Mathlib.Algebra.BigOperators.Group.List.Basic
import Mathlib.Data.Real.Basic

namespace EEM.Props.C07
open EEM.Model.PredictFrame

variable {α β : Type}

/-- every row of the returned frame comes from exactly this per-row description -/
theorem mem_predictFrame {m : MaskMode} {hasObs : Bool} {route : InRow α → List String}
    {curve : String → α → β} {rows : List (InRow α)} {o : OutRow α β}
    (h : o ∈ predictFrame m hasObs route curve rows) :
    ∃ r ∈ rows, o ∈ outRows m hasObs route curve r := by
  unfold predictFrame at h
  exact List.mem_flatMap.mp h

/-- **both or neither**: with usage supplied (finite or missing), every returned row has a
prediction exactly when it has an observed value -/
theorem C07_both_or_neither (route : InRow α → List String) (curve : String → α → β)
    (rows : List (InRow α))
    (hobs : ∀ r ∈ rows, r.observed.isFin = true ∨ r.observed.isNaN = true)
    (hroute : ∀ r ∈ rows, isClean true r = true → route r ≠ []) :
    ∀ o ∈ predictFrame .nonFinite true route curve rows, o.predicted.isSome = o.observed.isFin := by
  intro o ho
  obtain ⟨r, hr, hor⟩ := mem_predictFrame ho
  unfold outRows at hor
  by_cases hc : isClean true r = true
  · simp only [hc, if_true] at hor
    have hcl := hc
    unfold isClean at hcl
    simp only [Bool.not_true, Bool.false_or, Bool.and_eq_true] at hcl
    cases hT : r.temperature with
    | nan => rw [hT] at hcl; simp [Cell.isFin] at hcl
    | inf => rw [hT] at hcl; simp [Cell.isFin] at hcl
    | fin T =>
      rw [hT] at hor
      simp only at hor
      cases hs : route r with
      | nil => exact absurd hs (hroute r hr hc)
      | cons s ss =>
        rw [hs] at hor
        obtain ⟨s', _, rfl⟩ := List.mem_map.mp hor
        simp [hcl.2]
  · simp only [hc, Bool.false_eq_true, if_false, if_true, List.mem_singleton] at hor
    subst hor
    simp only [Option.isSome_none]
    unfold maskObserved
    simp only
    by_cases hT : r.temperature.isFin = true
    · simp only [hT, if_true]
      -- temperature is fine, so the row was dropped because usage is missing
      unfold isClean at hc
      simp only [hT, Bool.not_true, Bool.false_or, Bool.true_and] at hc
      simpa using hc
    · have hT' : r.temperature.isFin = false := by simpa using hT
      rw [if_neg (by simp [hT'])]
      rfl

/-- a day whose temperature is missing (NaN or not finite) has its consumption masked … -/
theorem C07_missing_temperature_masks_observed (route : InRow α → List String)
    (curve : String → α → β) (rows : List (InRow α)) :
    ∀ o ∈ predictFrame .nonFinite true route curve rows,
      o.temperature.isFin = false → o.observed.isNaN = true ∧ o.predicted = none := by
  intro o ho hT
  obtain ⟨r, hr, hor⟩ := mem_predictFrame ho
  unfold outRows at hor
  by_cases hc : isClean true r = true
  · simp only [hc, if_true] at hor
    have hcl := hc
    unfold isClean at hcl
    simp only [Bool.and_eq_true] at hcl
    cases hTr : r.temperature with
    | nan => rw [hTr] at hcl; simp [Cell.isFin] at hcl
    | inf => rw [hTr] at hcl; simp [Cell.isFin] at hcl
    | fin T =>
      rw [hTr] at hor
      simp only at hor
      cases hs : route r with
      | nil => rw [hs] at hor; simp at hor; subst hor; simp [Cell.isFin] at hT
      | cons s ss =>
        rw [hs] at hor
        obtain ⟨s', _, rfl⟩ := List.mem_map.mp hor
        simp [Cell.isFin] at hT
  · simp only [hc, Bool.false_eq_true, if_false, if_true, List.mem_singleton] at hor
    subst hor
    simp only at hT
    simp [maskObserved, hT, Cell.isNaN]

/-- … and a day whose consumption is missing gets no prediction -/
theorem C07_missing_observed_no_prediction (route : InRow α → List String)
    (curve : String → α → β) (rows : List (InRow α))
    (hobs : ∀ r ∈ rows, r.observed.isFin = true ∨ r.observed.isNaN = true)
    (hroute : ∀ r ∈ rows, isClean true r = true → route r ≠ []) :
    ∀ o ∈ predictFrame .nonFinite true route curve rows, o.observed.isFin = false → o.predicted = none := by
  intro o ho h
  have := C07_both_or_neither route curve rows hobs hroute o ho
  rw [h] at this
  cases hp : o.predicted with
  | none => rfl
  | some p => rw [hp] at this; simp at this

/-- observed as a number where present -/
def obsVal (o : OutRow ℝ ℝ) : Option ℝ := match o.observed with | .fin v => some v | _ => none

/-- NaN-skipping column sum -/
def colSum (l : List (Option ℝ)) : ℝ := (l.map (·.getD 0)).sum

/-- **unbiased sums**: when the two columns are present together, the difference of the column
sums is the sum of the row-wise savings -/
theorem C07_sum_of_columns_eq_sum_of_rowwise (out : List (OutRow ℝ ℝ))
    (h : ∀ o ∈ out, o.predicted.isSome = (obsVal o).isSome) :
    colSum (out.map obsVal) - colSum (out.map (·.predicted))
      = colSum (out.map fun o => match obsVal o, o.predicted with
          | some v, some p => some (v - p) | _, _ => none) := by
  unfold colSum
  induction out with
  | nil => simp
  | cons o t ih =>
    have ht := ih (fun o' ho' => h o' (List.mem_cons_of_mem _ ho'))
    have ho := h o List.mem_cons_self
    simp only [List.map_cons, List.sum_cons] at ht ⊢
    cases hv : obsVal o <;> cases hp : o.predicted <;> rw [hv, hp] at ho <;> simp at ho
    · simp only [Option.getD_none]; linarith
    · simp only [Option.getD_some]; linarith

/-- the same conclusion for the frame `_predict` returns (repaired masking) -/
theorem C07_predict_sums_unbiased (route : InRow ℝ → List String) (curve : String → ℝ → ℝ)
    (rows : List (InRow ℝ))
    (hobs : ∀ r ∈ rows, r.observed.isFin = true ∨ r.observed.isNaN = true)
    (hroute : ∀ r ∈ rows, isClean true r = true → route r ≠ []) :
    let out := predictFrame .nonFinite true route curve rows
    colSum (out.map obsVal) - colSum (out.map (·.predicted))
      = colSum (out.map fun o => match obsVal o, o.predicted with
          | some v, some p => some (v - p) | _, _ => none) := by
  intro out
  apply C07_sum_of_columns_eq_sum_of_rowwise
  intro o ho
  have := C07_both_or_neither route curve rows hobs hroute o ho
  rw [this]
  unfold obsVal
  cases o.observed <;> simp [Cell.isFin]

/-! ### the pinned commit's masking (`noOp`) does NOT have the property: concrete witness -/

/-- one day, temperature missing, usage 3: the row keeps its usage and has no prediction -/
theorem C07_noOp_counterexample :
    ∃ o ∈ predictFrame (α := ℝ) (β := ℝ) .noOp true (fun _ => ["fw-su_sh_wi"]) (fun _ T => T)
        [{ t := 0, season := "summer", dow := 1, temperature := .nan, observed := .fin 3 }],
      o.predicted.isSome ≠ o.observed.isFin := by
  refine ⟨_, List.mem_singleton.mpr rfl, ?_⟩
  simp [outRows, isClean, Cell.isFin, maskObserved]

/-- `nanOnly` masking (a repair through `isna()` alone) would still miss an infinite temperature -/
theorem C07_nanOnly_counterexample :
    ∃ o ∈ predictFrame (α := ℝ) (β := ℝ) .nanOnly true (fun _ => ["fw-su_sh_wi"]) (fun _ T => T)
        [{ t := 0, season := "summer", dow := 1, temperature := .inf, observed := .fin 3 }],
      o.predicted.isSome ≠ o.observed.isFin := by
  refine ⟨_, List.mem_singleton.mpr rfl, ?_⟩
  simp [outRows, isClean, Cell.isFin, Cell.isNaN, maskObserved]

/-! ### Non-vacuity -/
example : isClean (α := ℝ) true { t := 0, season := "summer", dow := 1, temperature := .fin 50, observed := .fin 3 } = true := rfl

/-! ### T1: the masking statement as the source has it -/

/-- **the source's masking statement is the one the theorems above are about**: the mask regenerated from
`DailyModel._predict` is "temperature not finite" (`MaskMode.nonFinite`), it is on by default, no `return` of `_predict`
comes before it (an early return would skip it), and no call of `_predict` in the daily / billing model classes switches it
off — so `C07_both_or_neither` and the other `.nonFinite` theorems speak about what `predict()` runs -/
theorem C07_src_mask_statement :
    EEM.Gen.MaskStatement.maskMode = .nonFinite ∧ EEM.Gen.MaskStatement.maskDefault = true ∧
    EEM.Gen.MaskStatement.returnsBeforeMask = 0 ∧
    (∀ c ∈ EEM.Gen.MaskStatement.predictCalls, c.2.2 = "default" ∨ c.2.2 = "True") ∧
    (∀ cls ∈ ["DailyModel", "BillingModel", "BillingWeightedModel"],
        (cls, "predict") ∈ EEM.Gen.MaskStatement.predictCalls.map fun c => (c.1, c.2.1)) := by
  decide

/-- hence, with the source's own mask mode: every returned row has both values or neither -/
theorem C07_src_both_or_neither (route : InRow α → List String) (curve : String → α → β)
    (rows : List (InRow α))
    (hobs : ∀ r ∈ rows, r.observed.isFin = true ∨ r.observed.isNaN = true)
    (hroute : ∀ r ∈ rows, isClean true r = true → route r ≠ []) :
    ∀ o ∈ predictFrame EEM.Gen.MaskStatement.maskMode true route curve rows, o.predicted.isSome = o.observed.isFin := by
  rw [C07_src_mask_statement.1]
  exact C07_both_or_neither route curve rows hobs hroute

end EEM.Props.C07
