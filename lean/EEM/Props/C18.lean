/-
  EEM.Props.C18 — PROPERTY THEOREMS ONLY.
  C18: CalTRACK hourly — each hour belongs to its own month; bin features sum to T.

  The weight tables and the prediction mapping in `EEM.Gen.Caltrack` are re-extracted from the
  live code on every run, so the `decide` proofs below are re-checked against what the code
  says now.  Bin features are proved over ℝ for EVERY endpoint list and temperature.
-/
import EEM.Real
import EEM.Model.Caltrack
import Mathlib.Tactic.Linarith

namespace EEM.Props.C18
open EEM EEM.Model.Caltrack EEM.Gen.Caltrack EEM.RealBridge

def months : List Nat := List.range' 1 12

/-- tables are rectangular: twelve months per segment, twelve segments -/
theorem C18_tables_wellformed :
    (weights_three_month_weighted.all fun r => r.2.length == 12) = true
    ∧ (weights_one_month.all fun r => r.2.length == 12) = true
    ∧ weights_three_month_weighted.length = 12 ∧ weights_one_month.length = 12 := by decide

/-- fitting: each calendar month carries full weight in exactly one segment, half weight in
exactly the two segments whose full-weight months are its neighbours (mod 12), zero elsewhere -/
theorem C18_fit_weights_partition :
    ∀ m ∈ months,
      (segsWith weights_three_month_weighted 2 m).length = 1
      ∧ (segsWith weights_three_month_weighted 1 m).length = 2
      ∧ (segsWith weights_three_month_weighted 0 m).length = 9
      ∧ (∀ s ∈ segsWith weights_three_month_weighted 2 (prevMonth m), s ∈ segsWith weights_three_month_weighted 1 m)
      ∧ (∀ s ∈ segsWith weights_three_month_weighted 2 (nextMonth m), s ∈ segsWith weights_three_month_weighted 1 m) := by
  decide

/-- the one-month segmentation used for prediction: full weight in exactly one segment, zero in
the other eleven -/
theorem C18_one_month_partition :
    ∀ m ∈ months, (segsWith weights_one_month 2 m).length = 1 ∧ (segsWith weights_one_month 0 m).length = 11 := by
  decide

/-- prediction: with every segment fitted, an hour of month `m` is predicted by exactly one
segment model, with weight 1, and it is the model in which `m` carried full weight at fit time -/
theorem C18_predict_uses_own_month :
    ∀ m ∈ months, (segsWith weights_three_month_weighted 2 m).length = 1
      ∧ predictContribs allFitted m = (segsWith weights_three_month_weighted 2 m).map (fun s => (s, 2)) := by
  decide

/-- … and whichever segment models exist, nothing else ever contributes -/
theorem C18_predict_single_contribution (fitted : List String) :
    ∀ m ∈ months, ∀ c ∈ predictContribs fitted m, c ∈ predictContribs allFitted m := by
  intro m hm c hc
  have key : ∀ (tbl : List (String × Nat)) (c : String × Nat),
      c ∈ (tbl.filterMap fun (pname, w) =>
        if w == 0 then none else match predNameMap.lookup pname with
          | none => none
          | some fit => if fitted.contains fit then some (fit, w) else none) →
      (∃ p ∈ tbl, p.2 ≠ 0 ∧ predNameMap.lookup p.1 = some c.1 ∧ c.2 = p.2) := by
    intro tbl c hc
    rw [List.mem_filterMap] at hc
    obtain ⟨⟨pn, w⟩, hp, hv⟩ := hc
    refine ⟨(pn, w), hp, ?_⟩
    simp only at hv
    split at hv
    · cases hv
    · rename_i hw
      split at hv
      · cases hv
      · rename_i fit hfit
        split at hv
        · cases hv; exact ⟨by simpa using hw, hfit, rfl⟩
        · cases hv
  unfold predictContribs at hc ⊢
  have hm' : m ∈ months := hm
  revert hc
  cases hT : tableOf predSegmentType with
  | none => intro hc; cases hc
  | some tbl =>
    intro hc
    obtain ⟨p, hp, hw, hl, hcw⟩ := key _ c hc
    rw [List.mem_filterMap]
    refine ⟨p, hp, ?_⟩
    have hfit : allFitted.contains c.1 = true := by
      -- every name the mapping can produce is a fitted segment of the weighted method
      have : ∀ q ∈ predNameMap, allFitted.contains q.2 = true := by decide
      have hmem : (p.1, c.1) ∈ predNameMap := by
        have := List.lookup_eq_some_iff.mp hl
        obtain ⟨l1, l2, h1, _⟩ := this
        rw [h1]; simp
      exact this _ hmem
    obtain ⟨pn, w⟩ := p
    simp only at hw hl hcw ⊢
    have hw' : (w == 0) = false := by simpa using hw
    simp only [hw', hl, hfit, if_true]
    simp [← hcw]

/-- hour-of-week is 24 × weekday + hour and lies in [0, 168) for every instant -/
theorem C18_hour_of_week (t : Int) :
    hourOfWeek t = 24 * Time.weekday (Time.dayOf t) + Time.hourOf t
      ∧ 0 ≤ hourOfWeek t ∧ hourOfWeek t < 168 := by
  have h1 := Time.weekday_range (Time.dayOf t)
  have h2 := Time.hourOf_range t
  unfold hourOfWeek
  omega

/-- all 168 values occur: hour `k` of the week starting Monday 1970-01-05 has hour-of-week `k` -/
theorem C18_hour_of_week_all_values :
    ∀ k ∈ List.range 168, hourOfWeek (4 * 86400 + 3600 * (k : Int)) = k := by
  decide +kernel

/-- last bin (right endpoint +∞): the excess over its left endpoint -/
theorem C18_last_bin (T left : ℝ) : binRest T left [] = [max (T - left) 0] := by
  simp only [binRest, gtb_iff, sub_eq, ofNat_eq, Nat.cast_zero]
  split_ifs with h
  · rw [max_eq_left (by linarith)]
  · rw [max_eq_right (by linarith)]

/-- every inner bin is the temperature's excess over its left endpoint, clamped to [0, width] -/
theorem C18_inner_bin (T left r : ℝ) (rest : List ℝ) (h : left ≤ r) :
    binRest T left (r :: rest) = min (max (T - left) 0) (r - left) :: binRest T r rest := by
  simp only [binRest, gtb_iff, leb_iff, sub_eq, ofNat_eq, Nat.cast_zero, Bool.and_eq_true]
  congr 1
  split_ifs with h1 h2
  · rw [max_eq_left (by linarith), min_eq_left (by linarith)]
  · rw [max_eq_left (by linarith), min_eq_right (by linarith)]
  · have : T ≤ left := by
      by_contra hc
      exact h1 ⟨not_le.mp hc, not_lt.mp h2⟩
    rw [max_eq_right (by linarith), min_eq_left (by linarith)]

theorem C18_bins_after_first_sum (T : ℝ) : ∀ (left : ℝ) (es : List ℝ), List.IsChain (· ≤ ·) (left :: es) →
    (binRest T left es).sum = max (T - left) 0 := by
  intro left es
  induction es generalizing left with
  | nil => intro _; simp [C18_last_bin]
  | cons r rest ih =>
    intro h
    have h1 : left ≤ r := (List.isChain_cons_cons.mp h).1
    have h2 := (List.isChain_cons_cons.mp h).2
    rw [C18_inner_bin T left r rest h1, List.sum_cons, ih r h2]
    rcases le_total T left with a | a
    · rw [max_eq_right (by linarith), max_eq_right (by linarith), min_eq_left (by linarith)]; ring
    · rcases le_total T r with b | b
      · rw [max_eq_left (by linarith), max_eq_right (by linarith), min_eq_left (by linarith)]; ring
      · rw [max_eq_left (by linarith), max_eq_left (by linarith), min_eq_right (by linarith)]; ring

/-- **bin features sum to the temperature**, for every sorted endpoint list (hence for every
subset of the candidate endpoints) and every temperature -/
theorem C18_bins_sum_to_T (T : ℝ) (es : List ℝ) (h : List.IsChain (· ≤ ·) es) : (binFeatures T es).sum = T := by
  cases es with
  | nil => simp [binFeatures]
  | cons e0 rest =>
    simp only [binFeatures, leb_iff, List.sum_cons, C18_bins_after_first_sum T e0 rest h]
    split_ifs with h1
    · rw [max_eq_right (by linarith)]; ring
    · rw [max_eq_left (by linarith)]; ring

/-- first bin (−∞, e0]: the temperature itself, capped at e0 -/
theorem C18_first_bin (T e0 : ℝ) (rest : List ℝ) :
    binFeatures T (e0 :: rest) = min T e0 :: binRest T e0 rest := by
  simp only [binFeatures, leb_iff]
  congr 1
  split_ifs with h
  · rw [min_eq_left h]
  · rw [min_eq_right (not_le.mp h).le]

/-- bins fill in order: a bin is within [0, width], and if the NEXT bin holds anything the
bin is full -/
theorem C18_bins_filled_in_order (T left r r2 : ℝ) (h1 : left ≤ r) :
    0 ≤ min (max (T - left) 0) (r - left) ∧ min (max (T - left) 0) (r - left) ≤ r - left
    ∧ (0 < min (max (T - r) 0) (r2 - r) → min (max (T - left) 0) (r - left) = r - left)
    ∧ (0 < max (T - r) 0 → min (max (T - left) 0) (r - left) = r - left) := by
  refine ⟨le_min (le_max_right _ _) (by linarith), min_le_right _ _, ?_, ?_⟩
  · intro h
    have : 0 < max (T - r) 0 := lt_of_lt_of_le h (min_le_left _ _)
    have hT : r < T := by
      rcases le_total (T - r) 0 with a | a
      · rw [max_eq_right a] at this; exact absurd this (lt_irrefl _)
      · rw [max_eq_left a] at this; linarith
    rw [max_eq_left (by linarith), min_eq_right (by linarith)]
  · intro this
    have hT : r < T := by
      rcases le_total (T - r) 0 with a | a
      · rw [max_eq_right a] at this; exact absurd this (lt_irrefl _)
      · rw [max_eq_left a] at this; linarith
    rw [max_eq_left (by linarith), min_eq_right (by linarith)]

/-- occupied and unoccupied features are never both non-zero (occupancy known: 0 or 1) -/
theorem C18_occupied_unoccupied_exclusive (b : Bool) (fo fu : List ℝ) :
    (∀ v ∈ occupiedFeatures (some b) fo, v = 0) ∨ (∀ v ∈ unoccupiedFeatures (some b) fu, v = 0) := by
  cases b
  · left
    intro v hv
    simp only [occupiedFeatures, beq_self_eq_true, if_true, List.mem_map] at hv
    obtain ⟨_, _, rfl⟩ := hv
    simp
  · right
    intro v hv
    simp only [unoccupiedFeatures, beq_self_eq_true, if_true, List.mem_map] at hv
    obtain ⟨_, _, rfl⟩ := hv
    simp

/-! ### Non-vacuity -/
example : List.IsChain (· ≤ ·) ([30, 45, 55, 65, 75, 90] : List ℝ) := by
  simp only [List.isChain_cons_cons, List.isChain_singleton, and_true]; norm_num
example : 6 ∈ months := by decide

end EEM.Props.C18
