/-
  EEM.Props.C16 — PROPERTY THEOREMS ONLY.
  C16: reported fit statistics are the true statistics of the model predictions.

  About `EEM.Model.Metrics` (hand model of BaselineMetrics/ReportingMetrics, tied to the real
  classes by ./check C16) with `_safe_divide` GENERATED from /repo, interpreted over ℝ.
  Series of ANY length (at least one finite pair where a mean is taken).
-/
import EEM.Real
import EEM.Model.Metrics
import EEM.Model.CaltrackMetrics
import EEM.Gen.MetricFormulas
import EEM.Bridge.Corr
import Mathlib.Tactic.Linarith
import Mathlib.Tactic.Ring
import Mathlib.Tactic.FieldSimp
import Mathlib.Tactic.Positivity
import Mathlib.Algebra.BigOperators.Group.List.Basic
import Mathlib.Algebra.Order.BigOperators.Group.List

namespace EEM.Props.C16
open EEM EEM.Model.Metrics EEM.RealBridge

theorem asum_eq_sum (l : List ℝ) : asum l = l.sum := by
  induction l with
  | nil => simp [asum, ofNat_eq]
  | cons a t ih => simp [asum, add_eq, ih]

/-- Σ x² ≥ 0 -/
theorem sse_nonneg (ps : List (ℝ × ℝ)) : 0 ≤ sse ps := by
  unfold sse
  rw [asum_eq_sum]
  apply List.sum_nonneg
  intro x hx
  obtain ⟨r, _, rfl⟩ := List.mem_map.mp hx
  simp only [mul_eq]
  exact mul_self_nonneg r

theorem nOf_pos {ps : List (ℝ × ℝ)} (h : ps ≠ []) : (0 : ℝ) < nOf ps := by
  unfold nOf
  simp only [arith_ofNat]
  exact_mod_cast List.length_pos_iff.mpr h

/-- **rmse² · n = sse** -/
theorem C16_rmse_sq_mul_n (ps : List (ℝ × ℝ)) (h : ps ≠ []) : rmse ps ^ 2 * nOf ps = sse ps := by
  have hn := nOf_pos h
  unfold rmse mse
  simp only [carrier_sqrt, div_eq]
  rw [Real.sq_sqrt (div_nonneg (sse_nonneg ps) hn.le)]
  field_simp

/-- **ddof ≥ 1** whatever the parameter count -/
theorem C16_ddof_ge_one (ps : List (ℝ × ℝ)) (k : Nat) : 1 ≤ ddof ps k := by
  unfold ddof; split <;> omega

/-- ddof is `n − k` when that is at least 1 -/
theorem C16_ddof_eq (ps : List (ℝ × ℝ)) (k : Nat) (h : k + 1 ≤ ps.length) : ddof ps k = ps.length - k := by
  unfold ddof; split <;> omega

/-- **rmse_adj² · ddof = sse** -/
theorem C16_rmse_adj_sq_mul_ddof (ps : List (ℝ × ℝ)) (k : Nat) :
    rmseAdj ps k ^ 2 * (ddof ps k : ℝ) = sse ps := by
  have hd : (0 : ℝ) < (ddof ps k : ℝ) := by exact_mod_cast C16_ddof_ge_one ps k
  unfold rmseAdj
  simp only [carrier_sqrt, div_eq, arith_ofNat]
  rw [Real.sq_sqrt (div_nonneg (sse_nonneg ps) hd.le)]
  field_simp

/-- **n · mbe = Σ observed − Σ predicted** -/
theorem C16_n_mul_mbe (ps : List (ℝ × ℝ)) (h : ps ≠ []) :
    nOf ps * mbe ps = (obs ps).sum - (pred ps).sum := by
  have hn := nOf_pos h
  unfold mbe mean resid nOf at *
  simp only [asum_eq_sum, div_eq, arith_ofNat, List.length_map] at *
  rw [mul_div_cancel₀ _ (ne_of_gt hn)]
  unfold obs pred
  induction ps with
  | nil => simp
  | cons a t ih =>
    simp only [List.map_cons, List.sum_cons, sub_eq]
    by_cases ht : t = []
    · subst ht; simp
    · have := ih ht (by exact_mod_cast List.length_pos_iff.mpr ht)
      simp only [sub_eq] at this
      linarith

/-- savings is the negated total bias -/
theorem C16_savings_eq (ps : List (ℝ × ℝ)) (h : ps ≠ []) :
    savings ps = (pred ps).sum - (obs ps).sum ∧ savings ps = -(nOf ps * mbe ps) := by
  have := C16_n_mul_mbe ps h
  unfold savings
  simp only [asum_eq_sum, sub_eq]
  exact ⟨trivial, by linarith⟩

/-- (Σ x)² ≤ n Σ x² on lists -/
theorem two_mul_sum_le (a : ℝ) (t : List ℝ) :
    2 * a * t.sum ≤ t.length * a ^ 2 + (t.map fun x => x ^ 2).sum := by
  induction t with
  | nil => norm_num
  | cons b t ih =>
    simp only [List.sum_cons, List.length_cons, List.map_cons, Nat.cast_add, Nat.cast_one]
    nlinarith [sq_nonneg (a - b)]

theorem sq_sum_le (l : List ℝ) : l.sum ^ 2 ≤ l.length * (l.map fun x => x ^ 2).sum := by
  induction l with
  | nil => norm_num
  | cons a t ih =>
    simp only [List.sum_cons, List.length_cons, List.map_cons, Nat.cast_add, Nat.cast_one]
    have := two_mul_sum_le a t
    nlinarith [sq_nonneg a, List.sum_nonneg (l := t.map fun x => x ^ 2) (by
      intro x hx; obtain ⟨y, _, rfl⟩ := List.mem_map.mp hx; exact sq_nonneg y)]

theorem abs_sum_le (l : List ℝ) : |l.sum| ≤ (l.map fun x => |x|).sum := by
  induction l with
  | nil => simp
  | cons a t ih =>
    simp only [List.sum_cons, List.map_cons]
    exact le_trans (abs_add_le a t.sum) (by linarith)

/-- **|mbe| ≤ mae** -/
theorem C16_abs_mbe_le_mae (ps : List (ℝ × ℝ)) (h : ps ≠ []) : |mbe ps| ≤ mae ps := by
  have hn := nOf_pos h
  unfold mbe mean mae nOf at *
  simp only [asum_eq_sum, div_eq, arith_ofNat, List.length_map] at *
  unfold resid at *
  simp only [List.length_map] at *
  rw [abs_div, abs_of_pos hn]
  apply div_le_div_of_nonneg_right _ hn.le
  have := abs_sum_le (ps.map fun q => q.1 - q.2)
  rw [List.map_map] at this
  simp only [sub_eq, List.map_map]
  exact this

/-- **mae ≤ rmse** (Cauchy–Schwarz) -/
theorem C16_mae_le_rmse (ps : List (ℝ × ℝ)) (h : ps ≠ []) : mae ps ≤ rmse ps := by
  have hn := nOf_pos h
  have hmae0 : 0 ≤ mae ps := by
    unfold mae
    simp only [asum_eq_sum, div_eq]
    apply div_nonneg _ hn.le
    apply List.sum_nonneg
    intro x hx
    obtain ⟨r, _, rfl⟩ := List.mem_map.mp hx
    simp only [arith_abs]; exact abs_nonneg r
  apply Real.le_sqrt_of_sq_le
  -- mae² ≤ mse
  unfold mae mse sse nOf at *
  simp only [asum_eq_sum, div_eq, arith_ofNat] at *
  set l := (resid ps).map Arith.abs with hl
  have hlen : l.length = ps.length := by simp [hl, resid]
  have hsq : (l.map fun x => x ^ 2).sum = ((resid ps).map fun r => r * r).sum := by
    simp only [hl, List.map_map]
    congr 1
    apply List.map_congr_left
    intro r _
    simp [Function.comp, arith_abs, mul_eq, sq_abs, sq]
  have := sq_sum_le l
  rw [hlen, hsq] at this
  rw [div_pow, div_le_div_iff₀ (by positivity) hn]
  nlinarith [this, hn]

/-- the statistics **ignore non-finite rows**: inserting a row with a NaN/±inf value anywhere
leaves the finite pairs (and hence every statistic) unchanged -/
theorem C16_metrics_ignore_nonfinite_rows (pre post : List (Option ℝ × Option ℝ)) (o p : Option ℝ)
    (h : o = none ∨ p = none) : finitePairs (pre ++ (o, p) :: post) = finitePairs (pre ++ post) := by
  unfold finitePairs
  rw [List.filterMap_append, List.filterMap_append, List.filterMap_cons]
  rcases h with rfl | rfl
  · simp
  · cases o <;> simp

/-- **n counts the finite pairs** -/
theorem C16_n_counts_finite_pairs (rows : List (Option ℝ × Option ℝ)) :
    (finitePairs rows).length = rows.countP fun r => r.1.isSome && r.2.isSome := by
  unfold finitePairs
  induction rows with
  | nil => rfl
  | cons a t ih =>
    obtain ⟨o, p⟩ := a
    cases o <;> cases p <;> simp [List.filterMap_cons, List.countP_cons, ih]

/-- **when a ratio is undefined** (the generated `_safe_divide`): exactly when the denominator is at
most `min_denominator` AND the numerator exceeds ten times it -/
theorem C16_safe_divide_none_iff (a b m : ℝ) :
    Gen.safe_divide a b m = none ↔ (b ≤ m ∧ 10 * m < a) := by
  unfold Gen.safe_divide
  simp only [leb_iff, gtb_iff, Bool.and_eq_true, mul_eq, ofNat_eq]
  have h10 : ((10 : ℕ) : ℝ) = 10 := by norm_num
  rw [h10]
  split_ifs with h
  · exact ⟨fun _ => h, fun _ => rfl⟩
  · exact ⟨fun hn => hn.elim, fun hc => absurd hc h⟩

/-- and when defined it is the quotient -/
theorem C16_safe_divide_some (a b m q : ℝ) (h : Gen.safe_divide a b m = some q) : q = a / b := by
  unfold Gen.safe_divide at h
  split_ifs at h
  simp only [div_eq, Option.some.injEq] at h
  exact h.symm

/-- partial form of the property's clause "a ratio whose denominator is not safely positive is
reported as undefined": it holds when the numerator is not small (full statement is refuted in
EEM.Findings.C16) -/
theorem C16_ratio_undefined_partial (a b m : ℝ) (hb : b ≤ m) (ha : 10 * m < a) :
    Gen.safe_divide a b m = none := (C16_safe_divide_none_iff a b m).mpr ⟨hb, ha⟩

/-- **cvrmse · mean(observed) = rmse** whenever cvrmse is reported -/
theorem C16_cvrmse_mul_mean (ps : List (ℝ × ℝ)) (q : ℝ) (h : cvrmse ps = some q)
    (hm : mean (obs ps) ≠ 0) : q * mean (obs ps) = rmse ps := by
  unfold cvrmse at h
  rw [C16_safe_divide_some _ _ _ _ h]
  field_simp

/-- **hourly poor-fit disqualification**: not acceptable exactly when the model misses BOTH
thresholds (an undefined ratio counts as a miss) -/
theorem C16_hourly_dq_iff (cv pn : Option ℝ) (cvThr pnThr : ℝ) :
    hourlyFitAcceptable cv pn cvThr pnThr = false ↔
      (∀ c, cv = some c → cvThr ≤ c) ∧ (∀ p, pn = some p → pnThr ≤ p) := by
  unfold hourlyFitAcceptable
  cases cv <;> cases pn <;> simp [ltb_iff, not_lt]

/-- **daily/billing disqualification**: exactly when CVRMSE exceeds its threshold -/
theorem C16_daily_dq_iff (c thr : ℝ) : dailyDisqualified c thr = true ↔ thr < c := by
  unfold dailyDisqualified
  simp [gtb_iff]


/-! ### T1: the derived statistics of the SOURCE (`EEM.Gen.MetricFormulas`, regenerated from the AST of
`BaselineMetrics` on every run) are the model's statistics, on the model's base quantities -/

namespace MF
export EEM.Gen.MetricFormulas (n_prime ddof ddof_autocorr nmae pnmae mbe nmbe pnmbe sse mse rmse rmse_adj rmse_autocorr_adj cvrmse
  cvrmse_adj cvrmse_autocorr_adj pnrmse pnrmse_adj pnrmse_autocorr_adj r_squared_adj)
end MF

/-- unadjusted statistics: the source's formula chain, evaluated on the base quantities of a series, is
literally the model's definition (any series, any parameter count) -/
theorem C16_src_unadjusted (ps : List (ℝ × ℝ)) (k : Nat) :
    MF.sse (baseOf ps k) = sse ps ∧ MF.mse (baseOf ps k) = mse ps ∧ MF.rmse (baseOf ps k) = rmse ps ∧
    MF.mbe (baseOf ps k) = mbe ps ∧ MF.cvrmse (baseOf ps k) = cvrmse ps ∧ MF.pnrmse (baseOf ps k) = pnrmse ps ∧
    MF.nmae (baseOf ps k) = nmae ps ∧ MF.nmbe (baseOf ps k) = nmbe ps :=
  ⟨rfl, rfl, rfl, rfl, rfl, rfl, rfl, rfl⟩

/-- the source's float `ddof` (`n − k`, raised to 1 when below 1) is the model's integer `max(n − k, 1)` -/
theorem C16_src_ddof (ps : List (ℝ × ℝ)) (k : Nat) :
    MF.ddof (baseOf ps k) = ((ddof ps k : ℕ) : ℝ) := by
  unfold EEM.Gen.MetricFormulas.ddof baseOf nOf ddof
  simp only [arith_ofNat, sub_eq, ofNat_eq, Nat.cast_one]
  by_cases h : k + 1 ≤ ps.length
  · have h1 : ¬ ((ps.length : ℝ) - (k : ℝ) < 1) := by
      have : ((k + 1 : ℕ) : ℝ) ≤ (ps.length : ℝ) := by exact_mod_cast h
      push_cast at this
      linarith
    have h2 : ¬ (ps.length - k < 1) := by omega
    have hb : Arith.ltb ((ps.length : ℝ) - (k : ℝ)) 1 = false := by
      rw [Bool.eq_false_iff]; intro hc; exact h1 ((ltb_iff _ _).mp hc)
    rw [if_neg h2]
    simp only [hb, Bool.false_eq_true, if_false]
    rw [Nat.cast_sub (by omega)]
  · have h1 : (ps.length : ℝ) - (k : ℝ) < 1 := by
      have : (ps.length : ℝ) ≤ (k : ℝ) := by exact_mod_cast (by omega : ps.length ≤ k)
      linarith
    have h2 : ps.length - k < 1 := by omega
    have hb : Arith.ltb ((ps.length : ℝ) - (k : ℝ)) 1 = true := (ltb_iff _ _).mpr h1
    rw [if_pos h2]
    simp only [hb, if_true, Nat.cast_one]

/-- adjusted statistics: the source's chain through its float `ddof` is the model's through `max(n − k, 1)` -/
theorem C16_src_adjusted (ps : List (ℝ × ℝ)) (k : Nat) :
    MF.rmse_adj (baseOf ps k) = rmseAdj ps k ∧ MF.cvrmse_adj (baseOf ps k) = cvrmseAdj ps k ∧
    MF.pnrmse_adj (baseOf ps k) = pnrmseAdj ps k := by
  have h : MF.rmse_adj (baseOf ps k) = rmseAdj ps k := by
    show Carrier.sqrt (EEM.Gen.MetricFormulas.sse (baseOf ps k) / EEM.Gen.MetricFormulas.ddof (baseOf ps k)) = _
    have := C16_src_ddof ps k
    rw [this]
    rfl
  refine ⟨h, ?_, ?_⟩
  · show Gen.safe_divide (EEM.Gen.MetricFormulas.rmse_adj (baseOf ps k)) _ _ = _
    rw [h]; rfl
  · show Gen.safe_divide (EEM.Gen.MetricFormulas.rmse_adj (baseOf ps k)) _ _ = _
    rw [h]; rfl

/-- **the autocorrelation-corrected n**: for a lag-1 autocorrelation ρ in (−1, 1] the source reports
`n' = n (1 − ρ)/(1 + ρ)` (the finiteness repair does not fire), it is non-negative, and it is at most n
exactly when ρ ≥ 0 (positively correlated residuals carry less information) -/
theorem C16_src_n_prime (b : EEM.Model.MetricBase ℝ) (hn : 0 < b.n)
    (h1 : -1 < b.residuals_autocorr1) (h2 : b.residuals_autocorr1 ≤ 1) :
    MF.n_prime b = b.n * (1 - b.residuals_autocorr1) / (1 + b.residuals_autocorr1) ∧
    0 ≤ MF.n_prime b ∧ (MF.n_prime b ≤ b.n ↔ 0 ≤ b.residuals_autocorr1) := by
  have hden : 0 < 1 + b.residuals_autocorr1 := by linarith
  have e : MF.n_prime b = b.n * (1 - b.residuals_autocorr1) / (1 + b.residuals_autocorr1) := by
    unfold EEM.Gen.MetricFormulas.n_prime
    simp only [sub_eq, mul_eq, div_eq, add_eq, ofNat_eq, Nat.cast_one, Nat.cast_zero, sub_self]
    have : Arith.eqb (0 : ℝ) 0 = true := (eqb_iff _ _).mpr rfl
    simp only [this, if_true]
  refine ⟨e, ?_, ?_⟩
  · rw [e]; exact div_nonneg (mul_nonneg hn.le (by linarith)) hden.le
  · rw [e, div_le_iff₀ hden]
    constructor
    · intro h; nlinarith
    · intro h; nlinarith

/-- the autocorrelation-corrected degrees of freedom never fall below 1, for ANY base quantities -/
theorem C16_src_ddof_autocorr_ge_one (b : EEM.Model.MetricBase ℝ) : 1 ≤ MF.ddof_autocorr b := by
  unfold EEM.Gen.MetricFormulas.ddof_autocorr
  simp only [sub_eq, ofNat_eq, Nat.cast_one]
  by_cases h : EEM.Gen.MetricFormulas.n_prime b - b.num_model_params < 1
  · have hb : Arith.ltb (EEM.Gen.MetricFormulas.n_prime b - b.num_model_params) 1 = true := (ltb_iff _ _).mpr h
    simp only [hb, if_true, le_refl]
  · have hb : Arith.ltb (EEM.Gen.MetricFormulas.n_prime b - b.num_model_params) 1 = false := by
      rw [Bool.eq_false_iff]; intro hc; exact h ((ltb_iff _ _).mp hc)
    simp only [hb, Bool.false_eq_true, if_false]
    exact not_lt.mp h

/-- **rmse_autocorr_adj² · ddof_autocorr = sse** for any base quantities with a non-negative sum of squares -/
theorem C16_src_rmse_autocorr_adj_sq (b : EEM.Model.MetricBase ℝ) (hs : 0 ≤ b.residuals_sum_squared) :
    MF.rmse_autocorr_adj b ^ 2 * MF.ddof_autocorr b = b.residuals_sum_squared := by
  have hd : (0 : ℝ) < MF.ddof_autocorr b := lt_of_lt_of_le one_pos (C16_src_ddof_autocorr_ge_one b)
  show (Carrier.sqrt (EEM.Gen.MetricFormulas.sse b / EEM.Gen.MetricFormulas.ddof_autocorr b)) ^ 2 * _ = _
  simp only [carrier_sqrt, div_eq, EEM.Gen.MetricFormulas.sse]
  rw [Real.sq_sqrt (div_nonneg hs hd.le)]
  field_simp

/-- **adjusted R²**: whenever the source reports it, it is `1 − (1 − R²)(n − 1)/(ddof − 1)` -/
theorem C16_src_r_squared_adj (b : EEM.Model.MetricBase ℝ) (q : ℝ) (h : MF.r_squared_adj b = some q) :
    q = 1 - (1 - b.r_squared) * (b.n - 1) / (MF.ddof b - 1) := by
  unfold EEM.Gen.MetricFormulas.r_squared_adj at h
  simp only [Option.map_eq_some_iff] at h
  obtain ⟨x, hx, rfl⟩ := h
  rw [C16_safe_divide_some _ _ _ _ hx]
  simp only [sub_eq, mul_eq, ofNat_eq, Nat.cast_one]

/-- … and it is withheld only when `ddof − 1` is at most `min_denominator` while the numerator is large -/
theorem C16_src_r_squared_adj_none_iff (b : EEM.Model.MetricBase ℝ) :
    MF.r_squared_adj b = none ↔
      (MF.ddof b - 1 ≤ b.min_denominator ∧ 10 * b.min_denominator < (1 - b.r_squared) * (b.n - 1)) := by
  unfold EEM.Gen.MetricFormulas.r_squared_adj
  simp only [Option.map_eq_none_iff]
  rw [C16_safe_divide_none_iff]
  simp only [sub_eq, mul_eq, ofNat_eq, Nat.cast_one]

/-! ### The correlation statistics are in range -/

/-- **0 ≤ R² ≤ 1** whenever both columns have spread (without spread the real class reports NaN) -/
theorem C16_r_squared_in_unit_interval (ps : List (ℝ × ℝ))
    (hx : 0 < ((pred ps).map fun x => (x - mean (pred ps)) * (x - mean (pred ps))).sum)
    (hy : 0 < ((obs ps).map fun y => (y - mean (obs ps)) * (y - mean (obs ps))).sum) :
    0 ≤ rSquared ps ∧ rSquared ps ≤ 1 := by
  unfold rSquared
  refine ⟨mul_self_nonneg _, ?_⟩
  exact EEM.Bridge.Corr.pearson_sq_le_one (pred ps) (obs ps) (by simp [pred, obs]) hx hy

/-- **−1 ≤ ρ₁ ≤ 1** for the lag-1 autocorrelation of the residuals whenever the two shifted copies have spread -/
theorem C16_autocorr_in_range (ps : List (ℝ × ℝ))
    (hx : 0 < (((resid ps).tail).map fun x => (x - mean (resid ps).tail) * (x - mean (resid ps).tail)).sum)
    (hy : 0 < (((resid ps).dropLast).map fun y => (y - mean (resid ps).dropLast) * (y - mean (resid ps).dropLast)).sum) :
    -1 ≤ autocorr1 ps ∧ autocorr1 ps ≤ 1 := by
  unfold autocorr1
  exact EEM.Bridge.Corr.pearson_abs_le_one _ _ (by simp) hx hy

/-- so on the model's base quantities the source's `n'` is the textbook `n (1 − ρ₁)/(1 + ρ₁)`, non-negative, unless the
residuals are perfectly anti-correlated -/
theorem C16_src_n_prime_of_series (ps : List (ℝ × ℝ)) (k : Nat) (h : ps ≠ [])
    (hx : 0 < (((resid ps).tail).map fun x => (x - mean (resid ps).tail) * (x - mean (resid ps).tail)).sum)
    (hy : 0 < (((resid ps).dropLast).map fun y => (y - mean (resid ps).dropLast) * (y - mean (resid ps).dropLast)).sum)
    (hne : autocorr1 ps ≠ -1) :
    MF.n_prime (baseOf ps k) = nOf ps * (1 - autocorr1 ps) / (1 + autocorr1 ps) ∧ 0 ≤ MF.n_prime (baseOf ps k) := by
  have hr := C16_autocorr_in_range ps hx hy
  have h1 : -1 < (baseOf ps k).residuals_autocorr1 := lt_of_le_of_ne hr.1 (Ne.symm hne)
  have := C16_src_n_prime (baseOf ps k) (nOf_pos h) h1 hr.2
  exact ⟨this.1, this.2.1⟩

/-! ### Non-vacuity -/
example : finitePairs [(some (1:ℝ), some 2), (none, some 3), (some 3, some 2)] ≠ [] := by
  unfold finitePairs
  rw [List.filterMap_cons]
  exact List.cons_ne_nil _ _

/-- the spread hypotheses are satisfiable: observed 1, 3, 2 against predicted 2, 2, 4 -/
example : 0 < ((pred [((1:ℝ), (2:ℝ)), (3, 2), (2, 4)]).map fun x =>
    (x - mean (pred [((1:ℝ), (2:ℝ)), (3, 2), (2, 4)])) * (x - mean (pred [((1:ℝ), (2:ℝ)), (3, 2), (2, 4)]))).sum := by
  have hm : mean (pred [((1:ℝ), (2:ℝ)), (3, 2), (2, 4)]) = 8 / 3 := by
    unfold mean pred
    simp only [List.map_cons, List.map_nil, asum, List.length_cons, List.length_nil, arith_ofNat, add_eq, div_eq, ofNat_eq]
    push_cast
    ring
  rw [hm]
  unfold pred
  simp only [List.map_cons, List.map_nil, List.sum_cons, List.sum_nil]
  nlinarith

/-! ### The CalTRACK-hourly `ModelMetrics` (hand model `EEM.Model.CaltrackMetrics`) -/

open EEM.Model

/-- the sign convention of the residuals does not matter for the squared error:
`ModelMetrics` (predicted − observed) and `BaselineMetrics` (observed − predicted) have the same SSE, hence RMSE -/
theorem C16_ct_sse_is_sse (ps : List (ℝ × ℝ)) : CaltrackMetrics.sseOf ps = sse ps := by
  unfold CaltrackMetrics.sseOf CaltrackMetrics.residPO sse resid
  simp only [List.map_map]
  congr 1
  apply List.map_congr_left
  intro q _
  simp only [Function.comp, mul_eq, sub_eq]
  ring

theorem C16_ct_rmse_is_rmse (ps : List (ℝ × ℝ)) : CaltrackMetrics.rmse ps = rmse ps := by
  unfold CaltrackMetrics.rmse rmse mse
  rw [C16_ct_sse_is_sse]

/-- **CalTRACK CVRMSE is the textbook RMSE / mean(observed) exactly when no observed value is negative**
(the class divides by the mean of the ABSOLUTE values) -/
theorem C16_ct_cvrmse_textbook_of_nonneg (ps : List (ℝ × ℝ)) (h : ∀ q ∈ ps, 0 ≤ q.1) :
    CaltrackMetrics.cvrmse ps = rmse ps / mean (obs ps) := by
  unfold CaltrackMetrics.cvrmse CaltrackMetrics.observedMeanAbs
  rw [C16_ct_rmse_is_rmse]
  have : (obs ps).map Arith.abs = obs ps := by
    unfold obs
    rw [List.map_map]
    apply List.map_congr_left
    intro q hq
    simp only [Function.comp, arith_abs]
    exact abs_of_nonneg (h q hq)
  rw [this]

/-- … and it is NOT for a net-metered series: two hours, one exporting (witness of finding C16-F4) -/
example :
    let ps : List (ℝ × ℝ) := [(3, 2), (-1, 0)]
    CaltrackMetrics.observedMeanAbs ps = 2 ∧ mean (obs ps) = 1 := by
  constructor
  · simp only [CaltrackMetrics.observedMeanAbs, mean, obs, asum, List.map, arith_abs, add_eq, div_eq, arith_ofNat, ofNat_eq,
      List.length_cons, List.length_nil]
    norm_num [abs_of_nonneg, abs_of_neg]
  · simp only [mean, obs, asum, List.map, add_eq, div_eq, arith_ofNat, ofNat_eq, List.length_cons, List.length_nil]
    norm_num

/-- **the autocorrelation-corrected n is the textbook one exactly when every observed value has a prediction**:
`n_prime` scales with `observed_length`, the statistics with the joined rows -/
theorem C16_ct_nprime_textbook_of_equal_lengths (rows : List (Option ℝ × Option ℝ))
    (h : CaltrackMetrics.observedLength rows = (CaltrackMetrics.merged rows).length) :
    CaltrackMetrics.nPrime rows = CaltrackMetrics.nPrimePairs rows := by
  unfold CaltrackMetrics.nPrime CaltrackMetrics.nPrimePairs
  rw [h]

/-- the joined rows never outnumber the observed values, so `n_prime` can only be too LARGE (finding C16-F3) -/
theorem C16_ct_merged_le_observed (rows : List (Option ℝ × Option ℝ)) :
    (CaltrackMetrics.merged rows).length ≤ CaltrackMetrics.observedLength rows := by
  unfold CaltrackMetrics.merged CaltrackMetrics.observedLength finitePairs
  induction rows with
  | nil => simp
  | cons r rs ih =>
    obtain ⟨a, b⟩ := r
    cases a <;> cases b <;> simp [List.filterMap_cons, List.filter_cons] <;> omega

/-- every observed value has a prediction when the predicted series has no gap -/
theorem C16_ct_equal_lengths_of_full_prediction (rows : List (Option ℝ × Option ℝ)) (h : ∀ r ∈ rows, r.2.isSome) :
    CaltrackMetrics.observedLength rows = (CaltrackMetrics.merged rows).length := by
  unfold CaltrackMetrics.merged CaltrackMetrics.observedLength finitePairs
  induction rows with
  | nil => simp
  | cons r rs ih =>
    obtain ⟨a, b⟩ := r
    have hb : b.isSome := h (a, b) (by simp)
    have ih' := ih (fun r hr => h r (List.mem_cons_of_mem _ hr))
    cases a <;> cases b <;> simp_all [List.filterMap_cons, List.filter_cons]

/-- **rmse_adj² · (n − k) = sse** when there are more rows than parameters (otherwise the class reports NaN) -/
theorem C16_ct_rmse_adj (ps : List (ℝ × ℝ)) (k : Nat) (h : k < ps.length) :
    ∃ r, CaltrackMetrics.rmseAdj ps k = some r ∧ r ^ 2 * ((ps.length - k : Nat) : ℝ) = sse ps := by
  have hd : (0 : ℝ) < ((ps.length - k : Nat) : ℝ) := by exact_mod_cast Nat.sub_pos_of_lt h
  refine ⟨Real.sqrt (sse ps / ((ps.length - k : Nat) : ℝ)), ?_, ?_⟩
  · unfold CaltrackMetrics.rmseAdj
    rw [if_pos h]
    simp only [carrier_sqrt, div_eq, arith_ofNat, C16_ct_sse_is_sse]
  · rw [Real.sq_sqrt (div_nonneg (sse_nonneg ps) hd.le)]
    field_simp

theorem C16_ct_rmse_adj_undefined (ps : List (ℝ × ℝ)) (k : Nat) (h : ps.length ≤ k) :
    CaltrackMetrics.rmseAdj ps k = none := by
  simp [CaltrackMetrics.rmseAdj]; omega

end EEM.Props.C16
