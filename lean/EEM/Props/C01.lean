/-
  EEM.Props.C01 — PROPERTY THEOREMS ONLY.
  C01: a stored model reproduces its counterfactual exactly (daily / billing part; the hourly and
  CalTRACK families are covered by the round-trip oracle of ./check C01 only — see MANIFEST).
-/
import EEM.Model.Serial
import EEM.Bridge.Curve
import EEM.Props.C11

namespace EEM.Props.C01
open EEM EEM.Model EEM.Model.Serial EEM.Bridge EEM.Spec

variable {α : Type}

theorem parse_modelTypeName (m : ModelType) : parseModelType (modelTypeName m) = some m := by
  cases m <;> rfl

/-- **the coefficient record round-trips exactly**, for every shape and every value -/
theorem C01_coeffs_roundtrip (c : Coeffs α) : coeffsFromDoc (dumpsLoads (coeffsToDoc c)) = some c := by
  obtain ⟨mt, ic, a, b, k1, d, e, k2⟩ := c
  simp only [dumpsLoads, coeffsToDoc, coeffsFromDoc]
  cases a <;> cases b <;> cases k1 <;> cases d <;> cases e <;> cases k2 <;>
    simp +decide [List.lookup, parse_modelTypeName, getNum, getOptNum, optNum]

/-- **the stored sub-model round-trips exactly** (coefficients, temperature limits, uncertainty) -/
theorem C01_submodel_roundtrip (s : Submodel α) : submodelFromDoc (dumpsLoads (submodelToDoc s)) = some s := by
  obtain ⟨c, a, b, d, e, f⟩ := s
  have hc := C01_coeffs_roundtrip c
  simp only [dumpsLoads] at hc
  simp only [dumpsLoads, submodelToDoc, submodelFromDoc]
  simp +decide [List.lookup, hc, getNum]

/-- hence **the restored model predicts identically**, for every temperature (any carrier: this is
an equality of the executed computations, doubles included) -/
theorem C01_predict_after_reload [Carrier α] (s s' : Submodel α)
    (h : submodelFromDoc (dumpsLoads (submodelToDoc s)) = some s') (T : α) :
    (predictSubmodel s' T).map (·.model) = (predictSubmodel s T).map (·.model) := by
  rw [C01_submodel_roundtrip] at h
  cases h
  rfl

/-- and **re-serialises to the same document** -/
theorem C01_reserialise (s s' : Submodel α)
    (h : submodelFromDoc (dumpsLoads (submodelToDoc s)) = some s') :
    submodelFromDoc (dumpsLoads (submodelToDoc s')) = submodelFromDoc (dumpsLoads (submodelToDoc s)) := by
  rw [C01_submodel_roundtrip] at h
  cases h
  rfl

/-- **the prediction is the documented formula evaluated from the stored parameters alone**: the
restored record's prediction is the closed-form curve of its effective 7-vector (C11's refinement of
the kernels regenerated from /repo) -/
theorem C01_daily_formula (s s' : Submodel ℝ) (x : X)
    (h : submodelFromDoc (dumpsLoads (submodelToDoc s)) = some s')
    (he : Effective s x) (nw : NotWhole x s.T_max) (T : ℝ) :
    (predictSubmodel s' T).map (·.model) = some (curveR x T) := by
  rw [C01_submodel_roundtrip] at h
  cases h
  rw [predict_refines he nw T]
  rfl

/-! ### Non-vacuity -/
example : submodelFromDoc (dumpsLoads (submodelToDoc EEM.Props.C11.exHeat)) = some EEM.Props.C11.exHeat :=
  C01_submodel_roundtrip _

end EEM.Props.C01
