/-
  EEM.Props.C01 — PROPERTY THEOREMS ONLY.
  C01: a stored model reproduces its counterfactual exactly (daily / billing part; the hourly and
  CalTRACK families are covered by the round-trip oracle of ./check C01 only — see MANIFEST).
-/
import EEM.Model.Serial
import EEM.Bridge.Curve
import EEM.Props.C11
import EEM.Gen.SerialFootprint
import EEM.Spec.SerialExempt

namespace EEM.Props.C01
open EEM EEM.Model EEM.Model.Serial EEM.Bridge EEM.Spec

variable {α : Type}

theorem parse_modelTypeName (m : ModelType) : parseModelType (modelTypeName m) = some m := by
  cases m <;> rfl

/-- **the coefficient record round-trips exactly**, for every shape and every value -/
theorem C01_coeffs_roundtrip (c : Coeffs α) : coeffsFromDoc (dumpsLoads (coeffsToDoc c)) = some c := by
  obtain ⟨mt, ic, a, b, k1, d, e, k2⟩ := c
  simp only [dumpsLoads, coeffsToDoc, coeffsFromDoc]
  cases a <;> cases b <;> cases k1 <;> cases d <;> cases e <;> cases k2 <;>
    simp +decide [List.lookup, parse_modelTypeName, getNum, getOptNum, optNum]

/-- **the stored sub-model round-trips exactly** (coefficients, temperature limits, uncertainty) -/
theorem C01_submodel_roundtrip (s : Submodel α) : submodelFromDoc (dumpsLoads (submodelToDoc s)) = some s := by
  obtain ⟨c, a, b, d, e, f⟩ := s
  have hc := C01_coeffs_roundtrip c
  simp only [dumpsLoads] at hc
  simp only [dumpsLoads, submodelToDoc, submodelFromDoc]
  simp +decide [List.lookup, hc, getNum]

/-- hence **the restored model predicts identically**, for every temperature (any carrier: this is
an equality of the executed computations, doubles included) -/
theorem C01_predict_after_reload [Carrier α] (s s' : Submodel α)
    (h : submodelFromDoc (dumpsLoads (submodelToDoc s)) = some s') (T : α) :
    (predictSubmodel s' T).map (·.model) = (predictSubmodel s T).map (·.model) := by
  rw [C01_submodel_roundtrip] at h
  cases h
  rfl

/-- and **re-serialises to the same document** -/
theorem C01_reserialise (s s' : Submodel α)
    (h : submodelFromDoc (dumpsLoads (submodelToDoc s)) = some s') :
    submodelFromDoc (dumpsLoads (submodelToDoc s')) = submodelFromDoc (dumpsLoads (submodelToDoc s)) := by
  rw [C01_submodel_roundtrip] at h
  cases h
  rfl

/-- **the prediction is the documented formula evaluated from the stored parameters alone**: the
restored record's prediction is the closed-form curve of its effective 7-vector (C11's refinement of
the kernels regenerated from /repo) -/
theorem C01_daily_formula (s s' : Submodel ℝ) (x : X)
    (h : submodelFromDoc (dumpsLoads (submodelToDoc s)) = some s')
    (he : Effective s x) (nw : NotWhole x s.T_max) (T : ℝ) :
    (predictSubmodel s' T).map (·.model) = some (curveR x T) := by
  rw [C01_submodel_roundtrip] at h
  cases h
  rw [predict_refines he nw T]
  rfl

/-! ### Non-vacuity -/
example : submodelFromDoc (dumpsLoads (submodelToDoc EEM.Props.C11.exHeat)) = some EEM.Props.C11.exHeat :=
  C01_submodel_roundtrip _

/-! ### The source's own footprint: what fit produces and predict consumes is what `from_dict` restores -/

/-- attributes assigned on the fit path and read on the predict path that `from_dict` does not set and the frozen
exemption list does not explain -/
def unrestored (fitWrites predictReads restored exempt : List String) : List String :=
  fitWrites.filter fun a => predictReads.contains a && !restored.contains a && !exempt.contains a

open EEM.Gen.SerialFootprint EEM.Spec.SerialExempt in
/-- **every piece of fitted state that `predict` reads is set by `from_dict`** — for all four families, on the
footprint tables regenerated from the source on every run: nothing that flows from `fit` to `predict` lives
outside the stored document (up to the frozen, reasoned exemptions of `EEM.Spec.SerialExempt`: attributes that
predict recomputes before use, and a read that is dead on the predict path) -/
theorem C01_src_fitted_state_is_restored :
    unrestored daily_fit_writes daily_predict_reads daily_restored (exemptOf "daily") = [] ∧
    unrestored billing_fit_writes billing_predict_reads billing_restored (exemptOf "billing") = [] ∧
    unrestored hourly_fit_writes hourly_predict_reads hourly_restored (exemptOf "hourly") = [] ∧
    unrestored caltrack_fit_writes caltrack_predict_reads caltrack_restored (exemptOf "caltrack") = [] := by
  decide

open EEM.Gen.SerialFootprint in
/-- every top-level key `HourlyModel.from_dict` reads is one `to_dict` writes (no key is silently defaulted), and the
gate state (`disqualification`, `warnings`, `baseline_timezone`, fittedness) is restored in every family that has it -/
theorem C01_src_keys_and_gate_state :
    (∀ k ∈ hourly_from_dict_keys, k ∈ hourly_to_dict_keys) ∧
    (∀ a ∈ ["disqualification", "warnings", "baseline_timezone", "is_fitted"],
        a ∈ daily_restored ∧ a ∈ billing_restored ∧ a ∈ hourly_restored) ∧
    "is_fit" ∈ caltrack_restored := by
  decide

open EEM.Gen.SerialFootprint in
/-- the tables are not empty shells: the hourly cluster table, bin edges and scalers do flow from fit to predict and
are restored; the exemptions are real (each is produced by fit, read by predict and not set by `from_dict`) -/
example :
    (∀ a ∈ ["_df_temporal_clusters", "_T_bin_edges", "_T_edge_bin_coeffs", "_ts_features", "_categorical_features"],
        a ∈ hourly_fit_writes ∧ a ∈ hourly_predict_reads ∧ a ∈ hourly_restored) ∧
    ("params" ∈ daily_fit_writes ∧ "params" ∈ daily_predict_reads ∧ "params" ∈ daily_restored) ∧
    ("df_meter" ∈ daily_fit_writes ∧ "df_meter" ∈ daily_predict_reads ∧ "df_meter" ∉ daily_restored) ∧
    ("_ts_feature_norm" ∈ hourly_fit_writes ∧ "_ts_feature_norm" ∈ hourly_predict_reads
        ∧ "_ts_feature_norm" ∉ hourly_restored) := by
  decide

end EEM.Props.C01
