/-
  EEM.Props.C09 — PROPERTY THEOREMS ONLY.
  C09: daily temperature is the meter-day mean of the sub-daily temperatures.
  Model: EEM.Model.TempAgg (hand model, tied to the data classes by ./check C09).
-/
import EEM.Model.TempAgg
import EEM.Gen.Thresholds
import EEM.Model.ResampleMin
import EEM.Bridge.ResampleRefine
import EEM.Props.C08
import Mathlib.Tactic.Linarith
import Mathlib.Tactic.FieldSimp
import Mathlib.Tactic.Ring
import Mathlib.Algebra.Order.Field.Rat

namespace EEM.Props.C09
open EEM.Model.Resample EEM.Model.TempAgg EEM.Props.C08

/-- **the per-day counts are exact**: present and absent readings of the meter day `[s,e)`, and
together they are all of its readings -/
theorem C09_counts_exact (s e : Int) (rs : List Reading) :
    (hourlyDay s e rs).notNull = (rs.filter fun r => decide (s ≤ r.1 ∧ r.1 < e) && r.2.isSome).length
    ∧ (hourlyDay s e rs).null = (rs.filter fun r => decide (s ≤ r.1 ∧ r.1 < e) && r.2.isNone).length
    ∧ (hourlyDay s e rs).notNull + (hourlyDay s e rs).null = (inDay s e rs).length := by
  unfold hourlyDay
  simp only
  refine ⟨?_, ?_, ?_⟩
  · unfold notNull presentVals inDay
    induction rs with
    | nil => simp
    | cons r rs ih =>
      simp only [List.filter_cons]
      by_cases h : (s ≤ r.1 ∧ r.1 < e) <;> cases hv : r.2 <;> simp [h, hv, List.filterMap_cons] at ih ⊢ <;> exact ih
  · unfold null inDay
    rw [List.filter_filter]
    congr 1
    apply List.filter_congr
    intro r _
    simp [Bool.and_comm]
  · unfold notNull null presentVals
    induction inDay s e rs with
    | nil => simp
    | cons r rs ih =>
      cases hv : r.2 <;> simp [List.filterMap_cons, List.filter_cons, hv] at ih ⊢ <;> omega

/-- **a day with more than half of its readings present is the mean of the present ones** -/
theorem C09_day_mean (s e : Int) (rs : List Reading)
    (h : (hourlyDay s e rs).notNull + (hourlyDay s e rs).null < 2 * (hourlyDay s e rs).notNull) :
    (hourlyDay s e rs).temp
      = some ((presentVals (inDay s e rs)).sum / ((presentVals (inDay s e rs)).length : Rat)) := by
  unfold hourlyDay at h ⊢
  simp only at h ⊢
  rw [if_neg (by omega)]
  unfold mean
  have : presentVals (inDay s e rs) ≠ [] := by
    intro h0
    unfold notNull at h
    rw [h0] at h
    simp at h
  rw [if_neg this]

/-- **a day with half or fewer of its readings present is missing** -/
theorem C09_day_missing (s e : Int) (rs : List Reading)
    (h : 2 * (hourlyDay s e rs).notNull ≤ (hourlyDay s e rs).notNull + (hourlyDay s e rs).null) :
    (hourlyDay s e rs).temp = none := by
  unfold hourlyDay at h ⊢
  simp only at h ⊢
  rw [if_pos h]

theorem sum_bounds (xs : List Rat) (lo hi : Rat) (h : ∀ x ∈ xs, lo ≤ x ∧ x ≤ hi) :
    lo * xs.length ≤ xs.sum ∧ xs.sum ≤ hi * xs.length := by
  induction xs with
  | nil => simp
  | cons x xs ih =>
    have hx := h x (List.mem_cons_self ..)
    have := ih (fun y hy => h y (List.mem_cons_of_mem _ hy))
    simp only [List.sum_cons, List.length_cons, Nat.cast_add, Nat.cast_one]
    constructor <;> nlinarith [this.1, this.2, hx.1, hx.2]

/-- the reported temperature lies between the smallest and largest present reading of the day -/
theorem C09_mean_within_range (s e : Int) (rs : List Reading) (m lo hi : Rat)
    (hm : (hourlyDay s e rs).temp = some m)
    (hb : ∀ x ∈ presentVals (inDay s e rs), lo ≤ x ∧ x ≤ hi) : lo ≤ m ∧ m ≤ hi := by
  unfold hourlyDay at hm
  simp only at hm
  split at hm
  · cases hm
  · unfold mean at hm
    split at hm
    · cases hm
    · rename_i hne
      cases hm
      have hlen : (0 : Rat) < ((presentVals (inDay s e rs)).length : Rat) := by
        have : 0 < (presentVals (inDay s e rs)).length := List.length_pos_iff.mpr hne
        exact_mod_cast this
      have := sum_bounds _ lo hi hb
      constructor
      · rw [le_div_iff₀ hlen]; exact this.1
      · rw [div_le_iff₀ hlen]; exact this.2

theorem inDay_split (a b c : Int) (h1 : a ≤ b) (h2 : b ≤ c) (rs : List Reading) :
    (inDay a b rs).length + (inDay b c rs).length = (inDay a c rs).length := by
  unfold inDay
  induction rs with
  | nil => simp
  | cons r rs ih =>
    simp only [List.filter_cons]
    split_ifs with h₁ h₂ h₃ h₃ h₂ h₃ h₃ <;> (try simp only [List.length_cons]) <;>
      (try simp only [decide_eq_true_eq] at h₁) <;> (try simp only [decide_eq_true_eq] at h₂) <;>
      (try simp only [decide_eq_true_eq] at h₃) <;> omega

/-- **every reading is counted in exactly one meter day**: over consecutive meter days the counts add
up to the number of readings between the first start and the last -/
theorem C09_every_reading_counted_once : ∀ (bs : List Int) (hne : bs ≠ []), Mono bs → ∀ (rs : List Reading),
    ((hourlyDaily bs rs).map fun a => a.notNull + a.null).sum = (inDay (bs.head hne) (bs.getLast hne) rs).length
  | [a], _, _, rs => by
    have : ∀ r : Reading, ¬ (a ≤ r.1 ∧ r.1 < a) := by intro r; omega
    simp [hourlyDaily, days, inDay, this]
  | a :: b :: rest, _, h, rs => by
    have ih := C09_every_reading_counted_once (b :: rest) (by simp) h.2 rs
    have hl := mono_head_le_last (b :: rest) (by simp) h.2
    simp only [hourlyDaily, days, List.map_cons, List.sum_cons, List.head_cons, List.getLast_cons_cons] at ih hl ⊢
    rw [ih, (C09_counts_exact a b rs).2.2]
    exact inDay_split a b _ h.1 hl rs

/-- **sub-hourly feeds, repaired code**: a day covered for more than half is the time-weighted mean of
the present readings, not divided by anything; a day covered for half or less is missing -/
theorem C09_inst_day (ps : List Period) (d0 d1 : Int) :
    (1 / 2 < coverage ps d0 d1 → instDay false ps d0 d1 = instMean ps d0 d1)
    ∧ (coverage ps d0 d1 ≤ 1 / 2 → ∀ q, instDay q ps d0 d1 = none) := by
  constructor
  · intro h
    unfold instDay
    rw [if_pos h]
    cases instMean ps d0 d1 <;> simp
  · intro h q
    unfold instDay
    rw [if_neg (not_lt.mpr h)]

/-- a reading interval of the feed lies inside the meter day and has the feed's sampling length -/
def InsideL (L d0 d1 : Int) (p : Period) : Prop := d0 ≤ p.t0 ∧ p.t1 ≤ d1 ∧ p.t1 - p.t0 = L

instance (L d0 d1 : Int) (p : Period) : Decidable (InsideL L d0 d1 p) := by unfold InsideL; infer_instance

/-- the present readings of the day on an aligned grid -/
def presentInside (L d0 d1 : Int) (ps : List Period) : List Rat :=
  (ps.filter fun p => decide (InsideL L d0 d1 p)).filterMap (·.v)

theorem presentInside_cons (L d0 d1 : Int) (p : Period) (ps : List Period) :
    presentInside L d0 d1 (p :: ps)
      = (if InsideL L d0 d1 p then (match p.v with | some v => [v] | none => []) else []) ++ presentInside L d0 d1 ps := by
  unfold presentInside
  by_cases h : InsideL L d0 d1 p
  · cases hv : p.v <;> simp [List.filter_cons, h, hv, List.filterMap_cons]
  · simp [List.filter_cons, h]

theorem covered_aligned (L : Int) (hL : 0 < L) (ps : List Period) (d0 d1 : Int)
    (h : ∀ p ∈ ps, InsideL L d0 d1 p ∨ (p.t1 ≤ d0 ∨ d1 ≤ p.t0)) :
    dayCovered ps d0 d1 = L * ((presentInside L d0 d1 ps).length : Int) := by
  unfold dayCovered
  induction ps with
  | nil => simp [presentInside]
  | cons p ps ih =>
    have ih' := ih (fun q hq => h q (List.mem_cons_of_mem _ hq))
    rw [List.map_cons, List.sum_cons, ih', presentInside_cons]
    rcases h p (List.mem_cons_self ..) with hin | hout
    · have hov : overlap d0 d1 p.t0 p.t1 = L := by obtain ⟨a, b, c⟩ := hin; unfold overlap; omega
      rw [if_pos hin]
      cases hv : p.v with
      | none => simp [covered, hv]
      | some v => simp [covered, hv, hov]; ring
    · have hov : overlap d0 d1 p.t0 p.t1 = 0 := by unfold overlap; omega
      have hnot : ¬ InsideL L d0 d1 p := by unfold InsideL; omega
      rw [if_neg hnot]
      cases hv : p.v <;> simp [covered, hv, hov]

theorem weighted_aligned (L : Int) (hL : 0 < L) (ps : List Period) (d0 d1 : Int)
    (h : ∀ p ∈ ps, InsideL L d0 d1 p ∨ (p.t1 ≤ d0 ∨ d1 ≤ p.t0)) :
    (ps.map (weighted d0 d1)).sum = (L : Rat) * (presentInside L d0 d1 ps).sum := by
  induction ps with
  | nil => simp [presentInside]
  | cons p ps ih =>
    have ih' := ih (fun q hq => h q (List.mem_cons_of_mem _ hq))
    rw [List.map_cons, List.sum_cons, ih', presentInside_cons]
    rcases h p (List.mem_cons_self ..) with hin | hout
    · have hov : overlap d0 d1 p.t0 p.t1 = L := by obtain ⟨a, b, c⟩ := hin; unfold overlap; omega
      rw [if_pos hin]
      cases hv : p.v with
      | none => simp [weighted, hv]
      | some v => simp [weighted, hv, hov]; ring
    · have hov : overlap d0 d1 p.t0 p.t1 = 0 := by unfold overlap; omega
      have hnot : ¬ InsideL L d0 d1 p := by unfold InsideL; omega
      rw [if_neg hnot]
      cases hv : p.v <;> simp [weighted, hv, hov]

/-- **sub-hourly feeds on a grid aligned with the meter day** (every reading interval has the sampling
length `L` and lies inside the day or misses it — the property's "offset a whole number of sampling
intervals"): the time-weighted mean the code computes is the plain mean of the present readings of the day -/
theorem C09_inst_mean_is_plain_mean (L : Int) (hL : 0 < L) (ps : List Period) (d0 d1 : Int)
    (h : ∀ p ∈ ps, InsideL L d0 d1 p ∨ (p.t1 ≤ d0 ∨ d1 ≤ p.t0)) (hne : presentInside L d0 d1 ps ≠ []) :
    instMean ps d0 d1 = some ((presentInside L d0 d1 ps).sum / ((presentInside L d0 d1 ps).length : Rat)) := by
  have h1 := weighted_aligned L hL ps d0 d1 h
  have h2 := covered_aligned L hL ps d0 d1 h
  have hlen : 0 < (presentInside L d0 d1 ps).length := List.length_pos_iff.mpr hne
  have hcov : dayCovered ps d0 d1 ≠ 0 := by
    rw [h2]
    have : (0 : Int) < ((presentInside L d0 d1 ps).length : Int) := by exact_mod_cast hlen
    exact (mul_pos hL this).ne'
  unfold instMean
  rw [if_neg hcov, h1, h2]
  congr 1
  have hLr : (L : Rat) ≠ 0 := by exact_mod_cast hL.ne'
  have hnr : ((presentInside L d0 d1 ps).length : Rat) ≠ 0 := by exact_mod_cast hlen.ne'
  push_cast
  field_simp

/-- the pinned code's result is the mean divided by the coverage: strictly larger than the mean for a
positive mean and incomplete coverage (the witness of finding C09-F1) -/
theorem C09_inst_day_divided (ps : List Period) (d0 d1 : Int) (m : Rat) (hm : instMean ps d0 d1 = some m)
    (hc : 1 / 2 < coverage ps d0 d1) (hc1 : coverage ps d0 d1 < 1) (hpos : 0 < m) :
    ∃ v, instDay true ps d0 d1 = some v ∧ m < v := by
  refine ⟨m / coverage ps d0 d1, ?_, ?_⟩
  · unfold instDay; rw [if_pos hc, hm]; simp
  · have hc0 : 0 < coverage ps d0 d1 := by linarith
    rw [lt_div_iff₀ hc0]
    nlinarith

/-- **billing class**: a day keeps its mean only if, in addition, its present count exceeds half the
median day length; whenever it keeps a temperature, it is the one of the plain rule -/
theorem C09_billing_keeps_only_plain_means (starts : List Int) (rs : List Reading) :
    ∃ f : DayAgg → DayAgg,
      (∀ a, (f a).notNull = a.notNull ∧ (f a).null = a.null ∧ ((f a).temp = none ∨ (f a).temp = a.temp))
      ∧ hourlyDailyBilling starts rs = (hourlyDaily starts rs).map f := by
  unfold hourlyDailyBilling
  simp only
  split
  · exact ⟨id, fun a => ⟨rfl, rfl, Or.inr rfl⟩, by simp⟩
  · rename_i med _
    split
    · refine ⟨fun a => if (2 * a.notNull : Rat) ≤ med then { a with temp := none } else a, fun a => ?_, rfl⟩
      by_cases h : (2 * a.notNull : Rat) ≤ med <;> simp [h]
    · exact ⟨id, fun a => ⟨rfl, rfl, Or.inr rfl⟩, by simp⟩

/-- the billing rule is stricter than the property's: on a 23-hour day with 12 of 23 readings present
(more than half), among 24-hour days, the plain rule keeps the mean and the billing class blanks it
(the witness of finding C09-F4) -/
example :
    let starts : List Int := [0, 1440, 2880, 4260, 5700]
    let rs : List Reading := ((List.range 95).map fun (i : Nat) =>
      ((i : Int) * 60, if 48 ≤ i ∧ i < 71 ∧ i % 2 = 1 then none else some (60 : Rat)))
    ((hourlyDaily starts rs).map (·.temp), (hourlyDailyBilling starts rs).map (·.temp))
      = ([some 60, some 60, some 60, some 60], [some 60, some 60, none, some 60]) := by
  decide +kernel

/-! ### Non-vacuity -/
example : (hourlyDay 0 1440 [(0, some 60), (60, none), (120, some 62), (1440, some 1)]).temp = some 61 := by
  decide +kernel
example : (hourlyDay 0 1440 [(0, some 60), (60, none), (120, none), (180, none)]).temp = none := by
  decide +kernel

/-! ### T1: the row rules regenerated from the source -/
open EEM.Gen.Thresholds

/-- **the source's blanking rule is `2·present ≤ total`** (`_DailyData._compute_temperature_features`, regenerated:
`EEM.Gen.Thresholds.tempInvalidDaily`) for every day that has readings at all; a day without any reading has no mean to
blank (the source divides 0/0 there: NaN ≤ 0.5 is false, and the mean is already NaN) -/
theorem C09_src_invalid_daily (nn nl : Nat) (h : 0 < nn + nl) :
    tempInvalidDaily (nn : Rat) (nl : Rat) = decide (2 * nn ≤ nn + nl) := by
  unfold tempInvalidDaily
  rw [Bool.eq_iff_iff]
  simp only [decide_eq_true_eq]
  have hp : (0 : Rat) < (nn : Rat) + (nl : Rat) := by exact_mod_cast h
  rw [div_le_iff₀ hp]
  constructor
  · intro hh
    have : (2 * nn : Rat) ≤ nn + nl := by linarith
    exact_mod_cast this
  · intro hh
    have : (2 * nn : Rat) ≤ nn + nl := by exact_mod_cast hh
    linarith

/-- the billing class adds the median rule and nothing else: blanked iff `2·present ≤ total` or `2·present ≤ median` -/
theorem C09_src_invalid_billing (nn nl : Nat) (med : Rat) (h : 0 < nn + nl) :
    tempInvalidBilling (nn : Rat) (nl : Rat) med = (decide (2 * nn ≤ nn + nl) || decide ((2 * nn : Rat) ≤ med)) := by
  have h1 := C09_src_invalid_daily nn nl h
  unfold tempInvalidDaily at h1
  unfold tempInvalidBilling
  rw [h1]
  congr 1
  rw [Bool.eq_iff_iff]
  simp only [decide_eq_true_eq]
  constructor <;> intro hh <;> linarith

/-- hence the model's day is the source's rule applied to the day's own counts -/
theorem C09_src_hourlyDay_rule (s e : Int) (rs : List Reading)
    (h : 0 < notNull (inDay s e rs) + null (inDay s e rs)) :
    (hourlyDay s e rs).temp =
      if tempInvalidDaily (notNull (inDay s e rs) : Rat) (null (inDay s e rs) : Rat) then none
      else mean (presentVals (inDay s e rs)) := by
  rw [C09_src_invalid_daily _ _ h]
  simp [hourlyDay]

/-! ### The minute-grid algorithm of `as_freq(..., series_type="instantaneous")` refines the time-weighted mean -/

open EEM.Model.ResampleMin EEM.Bridge.ResampleRefine

/-- **holding each temperature reading until the next one and averaging the minutes of a day is the time-weighted mean**:
for readings on a strictly increasing index, `asfreq("1 Min", ffill)` followed by `resample("D").mean()` — the mean over the
minutes of `[d0, d1)` that carry a value — is exactly `instMean`, `Σ v·overlap / Σ overlap`, and it is missing exactly when no
minute of the day carries a value -/
theorem C09_src_minute_grid_mean (reads : List Reading) (hs : reads.Pairwise (fun a b => a.1 < b.1))
    (d0 d1 : Int) (hd : d0 ≤ d1) :
    dayMeanMin (periods reads) d0 d1 = instMean (periods reads) d0 d1 := by
  have hch := periods_chained reads hs
  have hn : d0 + ((d1 - d0).toNat : Int) = d1 := by omega
  have hcount := valCount_eq (·.v) (fun _ => rfl) (periods reads) hch (d1 - d0).toNat d0
  have hsum := valSum_eq (·.v) (periods reads) hch (d1 - d0).toNat d0
  rw [hn] at hcount hsum
  unfold dayMeanMin instMean minutes heldAt
  simp only []
  have hw : ((periods reads).map fun p => (p.v).getD 0 * ((overlap d0 d1 p.t0 p.t1 : Int) : Rat)) =
      (periods reads).map (weighted d0 d1) := by
    apply List.map_congr_left
    intro p _
    unfold weighted
    cases p.v <;> simp
  rw [hsum, hw]
  by_cases hz : dayCovered (periods reads) d0 d1 = 0
  · have : ((minutesFrom d0 (d1 - d0).toNat).filter fun m => (valAt (·.v) (periods reads) m).isSome).length = 0 := by
      have := hcount; rw [hz] at this; exact_mod_cast this
    simp [this, hz]
  · have hne : ((minutesFrom d0 (d1 - d0).toNat).filter fun m => (valAt (·.v) (periods reads) m).isSome).length ≠ 0 := by
      intro h0; apply hz; rw [← hcount, h0]; rfl
    simp only [hne, hz, if_false]
    congr 2
    exact_mod_cast hcount

/-- **the whole sub-hourly temperature path on the minute grid is the closed form** (`instDaily false`: the repaired code,
which does not divide by the coverage), for every feed on a strictly increasing index and non-decreasing day boundaries -/
theorem C09_src_minute_grid_inst_daily (reads : List Reading) (hs : reads.Pairwise (fun a b => a.1 < b.1))
    (bounds : List Int) (hb : bounds.Pairwise (· ≤ ·)) :
    instDailyMin reads bounds = instDaily false reads bounds := by
  unfold instDailyMin instDaily
  apply List.map_congr_left
  intro d hd
  have hle := EEM.Props.C08.days_ordered bounds hb d hd
  have hch := periods_chained reads hs
  have hn : d.1 + ((d.2 - d.1).toNat : Int) = d.2 := by omega
  have hcount := valCount_eq (·.v) (fun _ => rfl) (periods reads) hch (d.2 - d.1).toNat d.1
  rw [hn] at hcount
  unfold instDayMin instDay coverage
  rw [C09_src_minute_grid_mean reads hs d.1 d.2 hle]
  have : ((((minutes d.1 d.2).filter fun m => (heldAt (periods reads) m).isSome).length : Nat) : Rat) =
      ((dayCovered (periods reads) d.1 d.2 : Int) : Rat) := by
    unfold minutes heldAt
    exact_mod_cast hcount
  simp only [this, Bool.false_eq_true, if_false, Option.map_id']

end EEM.Props.C09
