/-
  EEM.Spec.Nondet — FROZEN expectation for C03 (hand-written, not regenerated): the complete list of
  places where the library may touch randomness, and how each is seeded.  `EEM.Props.C03` proves that
  the table regenerated from /repo on every run (`EEM.Gen.Nondet`) is exactly this list — a new RNG
  call, a changed guard or a changed seed expression breaks that proof.
-/
namespace EEM.Spec.Nondet

/-- the one draw from the process-global RNG, and the exact guard under which it runs -/
def globalRngDraws : List (String × String × String × String) := [
  ("opendsm/eemeter/models/hourly/settings.py", "BaseHourlySettings._check_seed", "np.random.randint", "self.seed is None")]

/-- every seeded constructor and the expression that seeds it -/
def seedArguments : List (String × String × String × String × String) := [
  ("opendsm/eemeter/models/hourly/model.py", "HourlyModel.__init__", "ElasticNet", "random_state", "self.settings.elasticnet._seed"),
  ("opendsm/eemeter/models/hourly/model.py", "_cluster_time_series", "_bisect_k_means.BisectingKMeans", "random_state", "seed + i"),
  ("opendsm/common/hourly_interpolation.py", "multiple_imputation", "dict", "random_state", "None")]

/-- memoising decorators: only per-instance `cached_property` of the metrics frames (state that dies with the object) -/
def memoisedFunctions : List (String × String × String) := [
  ("opendsm/common/metrics.py", "BaselineMetrics._df", "cached_property"),
  ("opendsm/common/metrics.py", "ReportingMetrics._df", "cached_property")]

end EEM.Spec.Nondet
