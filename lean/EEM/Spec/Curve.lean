/-
  EEM.Spec.Curve — the documented piecewise heating/cooling curve in closed form
  (no case split on T), over ℝ.  Short enough to read in a minute.

    curve x T = c + heat x T + cool x T
    heat x T  = βh·kh·(exp(clip(min((T−hb)/kh, 0))) − 1) + βh·max(hb − T, 0)
    cool x T  = βc·kc·(exp(clip(min((cb−T)/kc, 0))) − 1) + βc·max(T − cb, 0)

  With kh = 0 the first summand vanishes and heat is the unsmoothed hinge βh·(hb − T)⁺.
  `L ≤ 0 ≤ U` are the clip thresholds of the exponent (the code's LN_MIN/LN_MAX constants).
-/
import Mathlib.Analysis.SpecialFunctions.Exp
import Mathlib.Tactic.Linarith
import Mathlib.Tactic.Ring
import Mathlib.Tactic.FieldSimp

namespace EEM.Spec

/-- effective 7-vector handed to the kernel -/
structure X where
  hb : ℝ
  βh : ℝ
  kh : ℝ
  cb : ℝ
  βc : ℝ
  kc : ℝ
  c : ℝ

def clipR (L U u : ℝ) : ℝ := min (max u L) U

noncomputable def heat (L U : ℝ) (x : X) (T : ℝ) : ℝ :=
  x.βh * x.kh * (Real.exp (clipR L U (min ((T - x.hb) / x.kh) 0)) - 1) + x.βh * max (x.hb - T) 0

noncomputable def cool (L U : ℝ) (x : X) (T : ℝ) : ℝ :=
  x.βc * x.kc * (Real.exp (clipR L U (min ((x.cb - T) / x.kc) 0)) - 1) + x.βc * max (T - x.cb) 0

noncomputable def curve (L U : ℝ) (x : X) (T : ℝ) : ℝ := x.c + heat L U x T + cool L U x T

/-- what the kernel needs of its 7-vector: ordered balance points, non-negative slope
magnitudes and smoothing, and balance points that do not coincide at or beyond `T_max`
(there the kernel treats the whole range as heating; see Findings/C11). -/
structure KernelAdm (x : X) (T_max : ℝ) : Prop where
  ord : x.hb ≤ x.cb
  βh0 : 0 ≤ x.βh
  βc0 : 0 ≤ x.βc
  kh0 : 0 ≤ x.kh
  kc0 : 0 ≤ x.kc
  notWhole : x.hb = x.cb → x.cb < T_max

/-- the straight line the heating side follows / approaches: slope −βh through
(hb, c − βh·kh) -/
def heatLine (x : X) (T : ℝ) : ℝ := x.c - x.βh * x.kh + x.βh * (x.hb - T)
def coolLine (x : X) (T : ℝ) : ℝ := x.c - x.βc * x.kc + x.βc * (T - x.cb)

end EEM.Spec
