/-
  EEM.Spec.WindowStatements — FROZEN.  The statements of `get_baseline_data`, `get_reporting_data` and their two warning
  builders (common/transform.py) as they were when the hand model `EEM.Model.Window` was written and reviewed against them
  line by line:

    data[:end_limit]                         ↔ sliceTo      (closed label slice on the sorted index)
    data_before_end_limit[start_limit:]      ↔ sliceFrom
    end_limit - timedelta(days=max_days)     ↔ baselineStartTarget (· - daySecs md)
    ignore_billing_period_gap_for_day_count… ↔ baselineEndLimit / reportingStartLimit
    get_indexer([x], method='nearest')       ↔ nearest (and its `except` fallback)
    <sel>.dropna().empty → raise             ↔ allNull → .error
    <sel>.iloc[-1] = np.nan                  ↔ blankLast
    _make_*_warnings guards                  ↔ gapWarnings

  `EEM.Props.C20.C20_src_window_statements_are_the_reviewed_ones` proves the table regenerated from the live source on every run
  (`EEM.Gen.WindowStatements`) equal to this one.  Hand-maintained; never regenerated.
-/
namespace EEM.Spec.WindowStatements

/-- (function, parameters, flattened body as (depth, text)) -/
def reviewed : List (String × List String × List (Nat × String)) := [
  ("_make_baseline_warnings", ["end_inf", "start_inf", "data_start", "data_end", "start_limit", "end_limit"], [
    (0, "warnings = []"),
    (0, "if not end_inf and data_end < end_limit:"),
    (1, "warnings.append(<eemeter.get_baseline_data.gap_at_baseline_end>)"),
    (0, "if not start_inf and start_limit < data_start:"),
    (1, "warnings.append(<eemeter.get_baseline_data.gap_at_baseline_start>)"),
    (0, "return warnings")]),
  ("get_baseline_data", ["data", "start", "end", "max_days", "allow_billing_period_overshoot", "n_days_billing_period_overshoot", "ignore_billing_period_gap_for_day_count"], [
    (0, "start = None if start is None else pd.Timestamp(start)"),
    (0, "end = None if end is None else pd.Timestamp(end)"),
    (0, "if max_days is not None:"),
    (1, "if start is not None:"),
    (2, "raise ValueError"),
    (0, "start_inf = False"),
    (0, "if start is None:"),
    (1, "start_target = pytz.UTC.localize(pd.Timestamp.min) + timedelta(days=1)"),
    (1, "start_inf = True"),
    (0, "else:"),
    (1, "start_target = start"),
    (0, "end_inf = False"),
    (0, "if end is None:"),
    (1, "end_limit = pytz.UTC.localize(pd.Timestamp.max) - timedelta(days=1)"),
    (1, "end_inf = True"),
    (0, "else:"),
    (1, "end_limit = end"),
    (0, "data_before_end_limit = data[:end_limit].copy()"),
    (0, "data_end = data_before_end_limit.index.max()"),
    (0, "if ignore_billing_period_gap_for_day_count and (n_days_billing_period_overshoot is None or end_limit - timedelta(days=n_days_billing_period_overshoot) < data_end):"),
    (1, "end_limit = data_before_end_limit.index.max()"),
    (0, "if not end_inf and max_days is not None:"),
    (1, "start_target = end_limit - timedelta(days=max_days)"),
    (0, "if allow_billing_period_overshoot:"),
    (1, "try:"),
    (2, "loc = data_before_end_limit.index.get_indexer([start_target], method='nearest')[0]"),
    (2, "start_limit = data_before_end_limit.index[loc]"),
    (1, "except (KeyError, IndexError, OverflowError, pd.errors.OutOfBoundsDatetime):"),
    (2, "baseline_data = data_before_end_limit"),
    (2, "start_limit = start_target"),
    (1, "else:"),
    (2, "baseline_data = data_before_end_limit[start_limit:].copy()"),
    (0, "else:"),
    (1, "start_limit = start_target"),
    (1, "baseline_data = data_before_end_limit[start_limit:].copy()"),
    (0, "if baseline_data.dropna().empty:"),
    (1, "raise NoBaselineDataError"),
    (0, "baseline_data.iloc[-1] = np.nan"),
    (0, "data_end = data.index.max()"),
    (0, "data_start = data.index.min()"),
    (0, "return (baseline_data, _make_baseline_warnings(end_inf, start_inf, data_start, data_end, start_limit, end_limit))")]),
  ("_make_reporting_warnings", ["end_inf", "start_inf", "data_start", "data_end", "start_limit", "end_limit"], [
    (0, "warnings = []"),
    (0, "if not end_inf and data_end < end_limit:"),
    (1, "warnings.append(<eemeter.get_reporting_data.gap_at_reporting_end>)"),
    (0, "if not start_inf and start_limit < data_start:"),
    (1, "warnings.append(<eemeter.get_reporting_data.gap_at_reporting_start>)"),
    (0, "return warnings")]),
  ("get_reporting_data", ["data", "start", "end", "max_days", "allow_billing_period_overshoot", "ignore_billing_period_gap_for_day_count"], [
    (0, "start = None if start is None else pd.Timestamp(start)"),
    (0, "end = None if end is None else pd.Timestamp(end)"),
    (0, "if max_days is not None:"),
    (1, "if end is not None:"),
    (2, "raise ValueError"),
    (0, "start_inf = False"),
    (0, "if start is None:"),
    (1, "start_limit = pytz.UTC.localize(pd.Timestamp.min) + timedelta(days=1)"),
    (1, "start_inf = True"),
    (0, "else:"),
    (1, "start_limit = start"),
    (0, "end_inf = False"),
    (0, "if end is None:"),
    (1, "end_target = pytz.UTC.localize(pd.Timestamp.max) - timedelta(days=1)"),
    (1, "end_inf = True"),
    (0, "else:"),
    (1, "end_target = end"),
    (0, "data_after_start_limit = data[start_limit:].copy()"),
    (0, "if ignore_billing_period_gap_for_day_count:"),
    (1, "start_limit = data_after_start_limit.index.min()"),
    (0, "if not start_inf and max_days is not None:"),
    (1, "end_target = start_limit + timedelta(days=max_days)"),
    (0, "if allow_billing_period_overshoot:"),
    (1, "try:"),
    (2, "loc = data_after_start_limit.index.get_indexer([end_target], method='nearest')[0]"),
    (2, "end_limit = data_after_start_limit.index[loc]"),
    (1, "except (KeyError, IndexError, OverflowError, pd.errors.OutOfBoundsDatetime):"),
    (2, "reporting_data = data_after_start_limit"),
    (2, "end_limit = end_target"),
    (1, "else:"),
    (2, "reporting_data = data_after_start_limit[:end_limit].copy()"),
    (0, "else:"),
    (1, "end_limit = end_target"),
    (1, "reporting_data = data_after_start_limit[:end_limit].copy()"),
    (0, "if reporting_data.dropna().empty:"),
    (1, "raise NoReportingDataError"),
    (0, "reporting_data.iloc[-1] = np.nan"),
    (0, "data_end = data.index.max()"),
    (0, "data_start = data.index.min()"),
    (0, "return (reporting_data, _make_reporting_warnings(end_inf, start_inf, data_start, data_end, start_limit, end_limit))")])]

end EEM.Spec.WindowStatements
