/-
  EEM.Spec.DstStatements — FROZEN.  The statements of `_get_dst_indices` and `_transform_dst` (hourly/model.py) that
  `EEM.Model.DstSrc` (the literal transcription: `slice`, `sortOps`, `loop`, `interpolatedVal`, `transformDstSrc`) and
  `EEM.Model.Dst` (`dstOps`: which hour of a 23- or 25-hour day is named) were transcribed from:

    remove_idx / interp_idx comprehensions        ↔ removeIdx / interpIdx     (date * 24 + hour, date * 24 + hour + 1)
    (prediction[idx - 1] + prediction[idx]) / 2   ↔ interpolatedVal
    sorted(remove_idx + interp_idx, key=t[1])     ↔ sortOps (stable insertion by flat index)
    zip([(START_END, 0)] + ops, ops + [(START_END, None)]) and the loop over pairs ↔ loop (fence-post slices; REMOVE skips one,
                                                    INTERPOLATE first emits the next interpolated value)
    np.concatenate(slices)                        ↔ the flattened result

  `EEM.Props.C06.C06_src_dst_statements_are_the_transcribed_ones` proves the table regenerated from the live source on every run
  (`EEM.Gen.DstStatements`) equal to this one.  Hand-maintained; never regenerated.
-/
namespace EEM.Spec.DstStatements

/-- (function, parameters, flattened body as (depth, text)) -/
def transcribed : List (String × List String × List (Nat × String)) := [
  ("_get_dst_indices", ["df"], [
    (0, "dates = df.index.date"),
    (0, "counts = df.groupby(dates).size()"),
    (0, "interp = counts[counts == 23]"),
    (0, "mean = counts[counts == 25]"),
    (0, "interp_idx = []"),
    (0, "for idx in interp.index:"),
    (1, "month = df[dates == idx]"),
    (1, "date_idx = counts.index.get_loc(idx)"),
    (1, "missing_hour = set(range(24)) - set(month.index.hour)"),
    (1, "if len(missing_hour) != 1:"),
    (2, "raise ValueError"),
    (1, "hour = missing_hour.pop()"),
    (1, "interp_idx.append((date_idx, hour))"),
    (0, "mean_idx = []"),
    (0, "for idx in mean.index:"),
    (1, "date_idx = counts.index.get_loc(idx)"),
    (1, "month = df[dates == idx]"),
    (1, "seen = set()"),
    (1, "for i in month.index:"),
    (2, "if i.hour in seen:"),
    (3, "hour = i.hour"),
    (3, "break"),
    (2, "seen.add(i.hour)"),
    (1, "mean_idx.append((date_idx, hour))"),
    (0, "return (interp_idx, mean_idx)")]),
  ("_transform_dst", ["prediction", "dst_indices"], [
    (0, "interp, mean = dst_indices"),
    (0, "START_END = 0"),
    (0, "REMOVE = 1"),
    (0, "INTERPOLATE = 2"),
    (0, "remove_idx = [(REMOVE, date * 24 + hour) for date, hour in interp]"),
    (0, "interp_idx = [(INTERPOLATE, date * 24 + hour + 1) for date, hour in mean]"),
    (0, "interpolated_vals = []"),
    (0, "for (_, idx) in interp_idx:"),
    (1, "interpolated = (prediction[idx - 1] + prediction[idx]) / 2"),
    (1, "interpolated_vals.append(interpolated)"),
    (0, "interpolation = iter(interpolated_vals)"),
    (0, "ops = sorted(remove_idx + interp_idx, key=lambda t: t[1])"),
    (0, "pairs = list(zip([(START_END, 0)] + ops, ops + [(START_END, None)]))"),
    (0, "slices = []"),
    (0, "for (start, end) in pairs:"),
    (1, "start_i = start[1]"),
    (1, "end_i = end[1]"),
    (1, "if start[0] == REMOVE:"),
    (2, "start_i += 1"),
    (1, "if start[0] == INTERPOLATE:"),
    (2, "slices.append([next(interpolation)])"),
    (1, "slices.append(prediction[slice(start_i, end_i)])"),
    (0, "return np.concatenate(slices)")])]

end EEM.Spec.DstStatements
