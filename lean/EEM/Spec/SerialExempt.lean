/-
  EEM.Spec.SerialExempt — FROZEN expectation for C01 (hand-written, not regenerated): the attributes that the
  `fit` path assigns and the `predict` path reads, but that `from_dict` does not set — and why that is harmless.
  `EEM.Props.C01` proves that on the tables regenerated from /repo on every run (`EEM.Gen.SerialFootprint`) every
  other attribute that flows from fit to predict is restored by `from_dict`.  New fitted state kept outside the
  stored document (a cache, a memo, a retained design matrix) breaks that proof.
-/
namespace EEM.Spec.SerialExempt

/-- (family, attribute, reason) -/
def exempt : List (String × String × String) := [
  ("daily", "df_meter",
    "read only by `_meter_segment(component, meter=None)` when no frame is passed; `_predict` always passes the reporting frame"),
  ("billing", "df_meter", "as for daily (inherited methods)"),
  ("hourly", "_processed_meter_data_full",
    "rebound by `_prepare_features` on every predict before it is read"),
  ("hourly", "_processed_meter_data",
    "rebound by `_prepare_features` on every predict before it is read"),
  ("hourly", "_ts_feature_norm",
    "rebound by `_normalize_features` (called from `_prepare_features`) on every predict before it is read")]

def exemptOf (fam : String) : List String := (exempt.filter (·.1 == fam)).map (·.2.1)

end EEM.Spec.SerialExempt
