/-
  EEM.Findings.C16 — the full-strength clause "a ratio whose denominator is not safely positive
  is reported as undefined rather than as a number" is FALSE of the generated `_safe_divide`:
  with a small (or negative) numerator a zero denominator yields a number.  Known finding C16-F1;
  the witness is replayed on the implementation by ./check C16.  Not obligations.
-/
import EEM.Props.C16

namespace EEM.Findings.C16
open EEM EEM.RealBridge

/-- numerator 0.005, denominator 0: a value is reported (over ℝ it is 0.005/0 = 0; on doubles, +inf) -/
theorem safe_divide_reports_number_for_zero_denominator :
    ∃ q, Gen.safe_divide (0.005 : ℝ) 0 0.001 = some q := by
  refine ⟨(0.005 : ℝ) / 0, ?_⟩
  unfold Gen.safe_divide
  simp only [leb_iff, gtb_iff, Bool.and_eq_true, mul_eq, ofNat_eq, div_eq]
  rw [if_neg]
  norm_num

theorem not_full_strength :
    ¬ (∀ a b m : ℝ, b ≤ m → Gen.safe_divide a b m = none) := by
  intro h
  obtain ⟨q, hq⟩ := safe_divide_reports_number_for_zero_denominator
  rw [h 0.005 0 0.001 (by norm_num)] at hq
  cases hq

end EEM.Findings.C16
