/-
  EEM.Findings.C12 — the hypothesis `Covered` of `C12_kept_reproduces_scored` cannot be dropped.
  In the region of finding C12-F3 (a single-slope balance point beyond the segment limit) the kept
  record provably predicts something else than what was scored — by exactly slope × distance.
-/
import EEM.Bridge.Kept

namespace EEM.Findings.C12
open EEM EEM.Model EEM.Model.Refine EEM.RealBridge EEM.Spec EEM.Bridge EEM.Bridge.Kept

/-- **C12-F3, exactly**: a heating-only outcome `[bp, β, c]` (β < 0) of the `c_hdd_tidd` layout whose
balance point lies beyond `T_max_seg` is kept as `hdd_tidd(T_max_seg, β)`; at every temperature at or
below `T_max_seg` the objective scored `(−β)·(bp − T_max_seg)` more than the kept record predicts. -/
theorem C12_F3_shift (bp β c Tmin Tmax Tmins Tmaxs T : ℝ) (L : Limits Tmin Tmax Tmins Tmaxs)
    (hβ : β < 0) (hbp : Tmaxs < bp) (hbpmax : bp < Tmax) (hT : T ≤ Tmaxs) :
    ∃ s p v, keptSubmodel .c_hdd_tidd [bp, β, c] Tmin Tmax Tmins Tmaxs = some s
      ∧ Model.predictSubmodel s T = some p ∧ scored .c_hdd_tidd [bp, β, c] Tmin Tmax T = some v
      ∧ v - p.model = (-β) * (bp - Tmaxs) := by
  have hne : -β ≠ 0 := by linarith
  have hfix := fix_interior Tmaxs (-β) 0 Tmaxs 0 0 c Tmin Tmax le_rfl (fun h => absurd rfl h)
  have e1 : (if -β = 0 then (0:ℝ) else 0) = 0 := by split <;> rfl
  rw [e1] at hfix
  simp only [if_true] at hfix
  have h1 : ¬ bp < Tmins := by have := L.mid; intro h; linarith
  have hk : keptRecord .c_hdd_tidd [bp, β, c] Tmin Tmax Tmins Tmaxs
      = some { model_type := .hdd_tidd, intercept := c, hdd_bp := some Tmaxs, hdd_beta := some β } := by
    unfold keptRecord
    have hg : Gen.get_full_model_x .c_hdd_tidd [bp, β, c] Tmin Tmax Tmins Tmaxs = some [Tmaxs, -β, 0, Tmaxs, 0, 0, c] := by
      simp [Gen.get_full_model_x, h1, hbp, hβ, hfix]
    rw [hg]
    simp [reduceModel, fromNpArrays, hne, hβ]
  have hfx := fullX_c3_heat Tmaxs β c Tmin Tmax Tmins Tmaxs hβ L.mid le_rfl
  have admk : KernelAdm ⟨Tmaxs, -β, 0, Tmaxs, 0, 0, c⟩ Tmax :=
    ⟨le_rfl, by simp only; linarith, le_rfl, le_rfl, le_rfl, fun _ => by simp only; linarith [L.hi]⟩
  have adms : KernelAdm ⟨bp, -β, 0, bp, 0, 0, c⟩ Tmax :=
    ⟨le_rfl, by simp only; linarith, le_rfl, le_rfl, le_rfl, fun _ => hbpmax⟩
  have heff : Effective (sub { model_type := .hdd_tidd, intercept := c, hdd_bp := some Tmaxs, hdd_beta := some β } Tmin Tmax Tmins Tmaxs)
      ⟨Tmaxs, -β, 0, Tmaxs, 0, 0, c⟩ := ⟨hfx, le_rfl, admk.βh0, le_rfl, le_rfl, le_rfl, rfl⟩
  refine ⟨_, _, curveR ⟨bp, -β, 0, bp, 0, 0, c⟩ T, keptSubmodel_of hk, predict_refines heff admk.notWhole T, ?_, ?_⟩
  · unfold scored
    have : scoredX .c_hdd_tidd [bp, β, c] = some [bp, -β, 0, bp, 0, 0, c] := by simp [scoredX, hβ]
    rw [this]
    exact full_model_refines ⟨bp, -β, 0, bp, 0, 0, c⟩ Tmin Tmax T adms
  · show curveR ⟨bp, -β, 0, bp, 0, 0, c⟩ T - curveR ⟨Tmaxs, -β, 0, Tmaxs, 0, 0, c⟩ T = -β * (bp - Tmaxs)
    unfold curveR curve
    rw [heat_of_le_unsmooth LNMIN_nonpos LNMAX_nonneg _ rfl (show T ≤ bp by linarith),
      cool_of_le LNMIN_nonpos LNMAX_nonneg _ (le_refl _) (show T ≤ bp by linarith),
      heat_of_le_unsmooth LNMIN_nonpos LNMAX_nonneg _ rfl hT,
      cool_of_le LNMIN_nonpos LNMAX_nonneg _ (le_refl _) hT]
    ring

/-- ... which is not zero: in that region `KeptIsScored` is false, so `Covered` cannot be dropped -/
theorem C12_F3_is_a_real_exclusion (bp β c Tmin Tmax Tmins Tmaxs T : ℝ) (L : Limits Tmin Tmax Tmins Tmaxs)
    (hβ : β < 0) (hbp : Tmaxs < bp) (hbpmax : bp < Tmax) (hT : T ≤ Tmaxs) :
    ¬ KeptIsScored .c_hdd_tidd [bp, β, c] Tmin Tmax Tmins Tmaxs T := by
  obtain ⟨s, p, v, hs, hp, hv, hd⟩ := C12_F3_shift bp β c Tmin Tmax Tmins Tmaxs T L hβ hbp hbpmax hT
  rintro ⟨s', p', v', hs', hp', hv', heq, _⟩
  rw [hs] at hs'; cases hs'
  rw [hp] at hp'; cases hp'
  rw [hv] at hv'; cases hv'
  have : (-β) * (bp - Tmaxs) = 0 := by rw [← hd, heq]; ring
  have h1 : 0 < -β := by linarith
  have h2 : 0 < bp - Tmaxs := by linarith
  have := mul_pos h1 h2
  linarith

end EEM.Findings.C12
