/-
  EEM.Findings.C11 — the excluded boundary of C11 is a real counterexample (not an artefact of
  the proof): when the effective balance points coincide at `T_max`, the generated kernel
  extends the heating line above the balance point, so the prediction falls below the base
  load and the "cooling load" is negative.  Witness replayed on the implementation by
  ./check C11 (known finding C11-F1).  These are NOT obligations of the property.
-/
import EEM.Bridge.Curve

namespace EEM.Findings.C11
open EEM EEM.RealBridge

/-- heating-only line, balance point 80 = T_max, evaluated at 90 °F: 12 − 0.8·10 = 4 < 12 -/
theorem whole_range_heating_extends_line :
    Gen.full_model_elem (80:ℝ) 0.8 0 80 0 0 12 [5, 80] 90 = some 4 := by
  unfold Gen.full_model_elem
  simp only [eqb_iff, ltb_iff, gtb_iff, geb_iff, leb_iff, Bool.and_eq_true, Bool.or_eq_true,
    ofNat_eq, mul_eq, sub_eq, add_eq, neg_eq]
  norm_num

/-- so the full-strength C11 statement without `NotWhole` is false: -/
theorem not_monotone_above_cb_without_NotWhole :
    ¬ (∀ T : ℝ, 80 ≤ T → ∀ v, Gen.full_model_elem (80:ℝ) 0.8 0 80 0 0 12 [5, 80] T = some v → 12 ≤ v) := by
  intro h
  have := h 90 (by norm_num) 4 whole_range_heating_extends_line
  norm_num at this

end EEM.Findings.C11
