import EEM.Carrier
