/-
  EEM.Bridge.DstRefine — the literal transcription of `_transform_dst` (`EEM.Model.DstSrc`: global indices,
  sorted operations, fence-post slices) refines the per-day model (`EEM.Model.Dst.transformDst`).
-/
import EEM.Model.DstSrc
import Mathlib.Data.List.Sort
import Mathlib.Tactic.Linarith

namespace EEM.Bridge.DstRefine
open EEM EEM.ArithNotation EEM.Model.Dst EEM.Model.DstSrc

variable {α : Type} [Arith α]

/-- flat reading of the loop: walk the sorted operations with the index where the next slice starts -/
def go (p : List α) : Nat → List (Kind × Nat) → List α → Option (List α)
  | start, [], _ => some (p.drop start)
  | start, (Kind.interpolate, i) :: r, v :: vs => (go p i r vs).map fun t => slice p start (some i) ++ v :: t
  | _, (Kind.interpolate, _) :: _, [] => none
  | start, (Kind.remove, i) :: r, vals => (go p (i + 1) r vals).map fun t => slice p start (some i) ++ t
  | start, (Kind.startEnd, i) :: r, vals => (go p i r vals).map fun t => slice p start (some i) ++ t

def optOps (g : List (Kind × Nat)) : List (Kind × Option Nat) := g.map fun o => (o.1, some o.2)

/-- the pairs the source zips, with `prev` as the pending left fence post -/
def run (p : List α) (prev : Kind × Nat) (g : List (Kind × Nat)) (vals : List α) : Option (List α) :=
  loop p (((prev.1, some prev.2) :: optOps g).zip (optOps g ++ [(Kind.startEnd, none)])) vals

def startOf (prev : Kind × Nat) : Nat := prev.2 + (if prev.1 = Kind.remove then 1 else 0)

omit [Arith α] in
theorem run_eq_go (p : List α) : ∀ (g : List (Kind × Nat)) (prev : Kind × Nat) (vals : List α),
    run p prev g vals =
      if prev.1 = Kind.interpolate then
        match vals with
        | v :: vs => (go p (startOf prev) g vs).map fun t => v :: t
        | [] => none
      else go p (startOf prev) g vals := by
  intro g
  induction g with
  | nil =>
    intro prev vals
    obtain ⟨k, i⟩ := prev
    cases k <;> cases vals <;> simp [run, optOps, loop, go, startOf, slice]
  | cons o os ih =>
    intro prev vals
    obtain ⟨k, i⟩ := prev
    obtain ⟨ko, io⟩ := o
    have ih' := ih (ko, io)
    simp only [run, optOps, List.map_cons, List.cons_append, List.zip_cons_cons, loop] at ih' ⊢
    cases k <;> cases ko <;> cases vals <;>
      simp_all [run, optOps, go, startOf, slice, Option.map_map, Function.comp_def]
    rename_i hd tl
    cases tl <;> simp [go, slice, Option.map_map, Function.comp_def]

/-! ### slicing lemmas -/

omit [Arith α] in
theorem drop_split (q : List α) (s s' : Nat) (h : s ≤ s') : (q.take s').drop s ++ q.drop s' = q.drop s := by
  have h1 : (q.take s').drop s = (q.drop s).take (s' - s) := by rw [List.drop_take]
  have h2 : q.drop s' = (q.drop s).drop (s' - s) := by rw [List.drop_drop]; congr 1; omega
  rw [h1, h2, List.take_append_drop]

omit [Arith α] in
theorem slice_split (p : List α) (s s' i : Nat) (h : s ≤ s') (h' : s' ≤ i) :
    slice p s (some i) = slice p s (some s') ++ slice p s' (some i) := by
  simp only [slice]
  have := drop_split (p.take i) s s' h
  rw [List.take_take, Nat.min_eq_left h'] at this
  exact this.symm

omit [Arith α] in
theorem go_advance (p : List α) : ∀ (g : List (Kind × Nat)) (vals : List α) (s s' : Nat), s ≤ s' →
    (∀ o ∈ g, s' ≤ o.2) →
    go p s g vals = (go p s' g vals).map fun t => slice p s (some s') ++ t := by
  intro g
  cases g with
  | nil =>
    intro vals s s' h _
    simp [go, slice, drop_split p s s' h]
  | cons o r =>
    intro vals s s' h hb
    obtain ⟨k, i⟩ := o
    have hi : s' ≤ i := hb (k, i) (by simp)
    have hs := slice_split p s s' i h hi
    cases k <;> cases vals <;> simp [go, Option.map_map, Function.comp_def, hs, List.append_assoc]


/-! ### the per-day reading, as global operations -/

/-- hours a day's operation may carry -/
def okOp : DayOp → Prop
  | .none => True
  | .interp h => h < 24
  | .mean h => h < 24

/-- the global operations in day order -/
def gopsAux : Nat → List DayOp → List (Kind × Nat)
  | _, [] => []
  | k, .none :: r => gopsAux (k + 1) r
  | k, .interp h :: r => (Kind.remove, k * 24 + h) :: gopsAux (k + 1) r
  | k, .mean h :: r => (Kind.interpolate, k * 24 + h + 1) :: gopsAux (k + 1) r

/-- the interpolated values in day order -/
def valsAux (p : List α) : Nat → List DayOp → Option (List α)
  | _, [] => some []
  | k, .mean h :: r =>
    match interpolatedVal p (k * 24 + h + 1), valsAux p (k + 1) r with
    | some v, some vs => some (v :: vs)
    | _, _ => none
  | k, .none :: r => valsAux p (k + 1) r
  | k, .interp _ :: r => valsAux p (k + 1) r

theorem gops_lb : ∀ (d : List DayOp) (k : Nat), ∀ o ∈ gopsAux k d, k * 24 ≤ o.2 := by
  intro d
  induction d with
  | nil => intro k o h; simp [gopsAux] at h
  | cons op r ih =>
    intro k o h
    cases op with
    | none => have := ih (k + 1) o (by simpa [gopsAux] using h); omega
    | interp hh =>
      simp only [gopsAux, List.mem_cons] at h
      rcases h with rfl | h
      · simp
      · have := ih (k + 1) o h; omega
    | mean hh =>
      simp only [gopsAux, List.mem_cons] at h
      rcases h with rfl | h
      · simp; omega
      · have := ih (k + 1) o h; omega


omit [Arith α] in
theorem slice_day (p : List α) (k : Nat) : slice p (k * 24) (some ((k + 1) * 24)) = (p.drop (k * 24)).take 24 := by
  simp only [slice, List.drop_take]
  congr 1; omega

omit [Arith α] in
theorem drop_day (p : List α) (k : Nat) : (p.drop (k * 24)).drop 24 = p.drop ((k + 1) * 24) := by
  rw [List.drop_drop]; congr 1; omega

omit [Arith α] in
theorem slice_pre (p : List α) (k j : Nat) (hj : j ≤ 24) :
    slice p (k * 24) (some (k * 24 + j)) = ((p.drop (k * 24)).take 24).take j := by
  simp only [slice, List.drop_take, List.take_take]
  congr 1; omega

omit [Arith α] in
theorem slice_post (p : List α) (k j : Nat) (hj : j ≤ 24) :
    slice p (k * 24 + j) (some ((k + 1) * 24)) = ((p.drop (k * 24)).take 24).drop j := by
  simp only [slice, List.drop_take, List.drop_drop]
  congr 1; omega

omit [Arith α] in
theorem day_get (p : List α) (k j : Nat) (hj : j < 24) : ((p.drop (k * 24)).take 24)[j]? = p[k * 24 + j]? := by
  rw [List.getElem?_take, if_pos hj, List.getElem?_drop]

/-- **the flat walk over the day-ordered operations is the per-day model** -/
theorem go_days (p : List α) : ∀ (d : List DayOp) (k : Nat) (vals : List α),
    (∀ op ∈ d, okOp op) → p.length = 24 * (k + d.length) → valsAux p k d = some vals →
    go p (k * 24) (gopsAux k d) vals = some (transformDst d (p.drop (k * 24))) := by
  intro d
  induction d with
  | nil =>
    intro k vals _ hl _
    have : p.drop (k * 24) = [] := by rw [List.drop_eq_nil_iff]; simp at hl; omega
    simp [gopsAux, go, transformDst, this]
  | cons op r ih =>
    intro k vals hok hl hv
    have hokr : ∀ op ∈ r, okOp op := fun o ho => hok o (List.mem_cons_of_mem _ ho)
    have hlr : p.length = 24 * (k + 1 + r.length) := by simp at hl; omega
    have hlb := gops_lb r (k + 1)
    have hqlen : 24 ≤ (p.drop (k * 24)).length := by simp at hl ⊢; omega
    cases op with
    | none =>
      have hv' : valsAux p (k + 1) r = some vals := by simpa [valsAux] using hv
      have h1 := ih (k + 1) vals hokr hlr hv'
      show go p (k * 24) (gopsAux (k + 1) r) vals = _
      rw [go_advance p _ vals (k * 24) ((k + 1) * 24) (by omega) hlb, h1]
      have e : slice p (k * 24) (some ((k + 1) * 24)) = (p.drop (k * 24)).take 24 := slice_day p k
      have e2 := drop_day p k
      simp only [Option.map_some, transformDst, transformDay, e, e2]
    | interp h =>
      have hh : h < 24 := hok (.interp h) (by simp)
      have hv' : valsAux p (k + 1) r = some vals := by simpa [valsAux] using hv
      have h1 := ih (k + 1) vals hokr hlr hv'
      show go p (k * 24) ((Kind.remove, k * 24 + h) :: gopsAux (k + 1) r) vals = _
      simp only [go]
      rw [go_advance p _ vals (k * 24 + h + 1) ((k + 1) * 24) (by omega) hlb, h1]
      simp only [Option.map_some, transformDst, transformDay, drop_day, Option.some.injEq]
      rw [← List.append_assoc]
      congr 1
      rw [List.eraseIdx_eq_take_drop_succ]
      simp only [slice, List.take_take, List.drop_take, List.drop_drop]
      congr 1
      · congr 1; omega
      · have e1 : (k + 1) * 24 - (k * 24 + h + 1) = 24 - (h + 1) := by omega
        rw [e1, Nat.add_assoc]
    | mean h =>
      have hh : h < 24 := hok (.mean h) (by simp)
      obtain ⟨v, vs, hv1, hv2, rfl⟩ : ∃ v vs, interpolatedVal p (k * 24 + h + 1) = some v ∧
          valsAux p (k + 1) r = some vs ∧ vals = v :: vs := by
        simp only [valsAux] at hv
        split at hv
        · rename_i v vs h1 h2; exact ⟨v, vs, h1, h2, by simpa using hv.symm⟩
        · simp at hv
      have h1 := ih (k + 1) vs hokr hlr hv2
      show go p (k * 24) ((Kind.interpolate, k * 24 + h + 1) :: gopsAux (k + 1) r) (v :: vs) = _
      simp only [go]
      rw [go_advance p _ vs (k * 24 + h + 1) ((k + 1) * 24) (by omega) hlb, h1]
      simp only [Option.map_some, transformDst, drop_day, Option.some.injEq]
      obtain ⟨a, b, ha, hb, rfl⟩ : ∃ a b, p[k * 24 + h]? = some a ∧ p[k * 24 + h + 1]? = some b ∧ v = avg a b := by
        simp only [interpolatedVal, Nat.add_sub_cancel] at hv1
        split at hv1
        · rename_i a b h1 h2; exact ⟨a, b, h1, h2, by simpa using hv1.symm⟩
        · simp at hv1
      have hL : ((p.drop (k * 24)).take 24).length = 24 := by rw [List.length_take]; omega
      have e1 : ((p.drop (k * 24)).take 24)[h]? = some a := by rw [day_get p k h hh, ha]
      have e2 : (if h + 1 < ((p.drop (k * 24)).take 24).length then ((p.drop (k * 24)).take 24)[h + 1]?
          else (p.drop ((k + 1) * 24)).head?) = some b := by
        rw [hL]
        split
        · rename_i hlt; rw [day_get p k (h + 1) hlt, ← Nat.add_assoc, hb]
        · rename_i hge
          have : h = 23 := by omega
          subst this
          rw [List.head?_drop]
          have : (k + 1) * 24 = k * 24 + 23 + 1 := by omega
          rw [this, hb]
      simp only [transformDay, e1, e2]
      have := slice_pre p k (h + 1) (by omega)
      have := slice_post p k (h + 1) (by omega)
      simp only [Nat.add_assoc] at *
      simp [*, List.append_assoc]


/-! ### sorting: the source's `sorted(...)` of the two index lists is the day order -/

omit [Arith α] in
theorem insertOp_perm (x : Kind × Nat) : ∀ l, (insertOp x l).Perm (x :: l)
  | [] => by simp [insertOp]
  | y :: ys => by
    unfold insertOp
    split
    · exact List.Perm.refl _
    · exact ((insertOp_perm x ys).cons y).trans (List.Perm.swap x y ys)

omit [Arith α] in
theorem sortOps_perm : ∀ l, (sortOps l).Perm l
  | [] => by simp [sortOps]
  | x :: xs => by
    have := sortOps_perm xs
    simp only [sortOps, List.foldr_cons] at this ⊢
    exact (insertOp_perm x _).trans (this.cons x)

omit [Arith α] in
theorem insertOp_sorted (x : Kind × Nat) : ∀ l, l.Pairwise (fun a b => a.2 ≤ b.2) →
    (insertOp x l).Pairwise (fun a b => a.2 ≤ b.2)
  | [], _ => by simp [insertOp]
  | y :: ys, h => by
    unfold insertOp
    rw [List.pairwise_cons] at h
    split
    · rename_i hxy
      refine List.pairwise_cons.mpr ⟨?_, List.pairwise_cons.mpr h⟩
      intro b hb
      rcases List.mem_cons.mp hb with rfl | hb
      · exact hxy
      · exact Nat.le_trans hxy (h.1 b hb)
    · rename_i hxy
      refine List.pairwise_cons.mpr ⟨?_, insertOp_sorted x ys h.2⟩
      intro b hb
      rcases List.mem_cons.mp ((insertOp_perm x ys).subset hb) with rfl | hb
      · omega
      · exact h.1 b hb

omit [Arith α] in
theorem sortOps_sorted : ∀ l, (sortOps l).Pairwise (fun a b => a.2 ≤ b.2)
  | [] => by simp [sortOps]
  | x :: xs => by
    have := sortOps_sorted xs
    simp only [sortOps, List.foldr_cons] at this ⊢
    exact insertOp_sorted x _ this

omit [Arith α] in
/-- a list whose keys are strictly increasing is what the stable sort of any of its permutations returns -/
theorem sortOps_unique (l g : List (Kind × Nat)) (hp : l.Perm g) (hg : g.Pairwise (fun a b => a.2 < b.2)) :
    sortOps l = g := by
  have hperm : (sortOps l).Perm g := (sortOps_perm l).trans hp
  have hs := sortOps_sorted l
  -- keys of g are distinct, hence so are those of sortOps l, hence it is strictly sorted
  have hne : g.Pairwise (fun a b => a.2 ≠ b.2) := hg.imp (fun h => Nat.ne_of_lt h)
  have hne' : (sortOps l).Pairwise (fun a b => a.2 ≠ b.2) :=
    hperm.symm.pairwise hne (fun h => Ne.symm h)
  have hlt : (sortOps l).Pairwise (fun a b => a.2 < b.2) :=
    (hs.and hne').imp (fun h => Nat.lt_of_le_of_ne h.1 h.2)
  exact List.Perm.eq_of_pairwise (le := fun a b => a.2 < b.2)
    (fun a b _ _ h1 h2 => absurd h1 (Nat.lt_asymm h2)) hlt hg hperm


omit [Arith α] in
theorem perm_gops : ∀ (d : List DayOp) (k : Nat),
    (removeIdx (interpOfAux k d) ++ interpIdx (meanOfAux k d)).Perm (gopsAux k d) := by
  intro d
  induction d with
  | nil => intro k; simp [interpOfAux, meanOfAux, gopsAux, removeIdx, interpIdx]
  | cons op r ih =>
    intro k
    cases op with
    | none => simpa [interpOfAux, meanOfAux, gopsAux] using ih (k + 1)
    | interp h =>
      simp only [interpOfAux, meanOfAux, gopsAux, removeIdx, List.map_cons, List.cons_append]
      exact (ih (k + 1)).cons _
    | mean h =>
      simp only [interpOfAux, meanOfAux, gopsAux, interpIdx, List.map_cons]
      exact List.perm_middle.trans ((ih (k + 1)).cons _)

theorem mapM_vals (p : List α) : ∀ (d : List DayOp) (k : Nat),
    (interpIdx (meanOfAux k d)).mapM (fun o => interpolatedVal p o.2) = valsAux p k d := by
  intro d
  induction d with
  | nil => intro k; simp [meanOfAux, interpIdx, valsAux]
  | cons op r ih =>
    intro k
    cases op with
    | none => simpa [meanOfAux, valsAux] using ih (k + 1)
    | interp h => simpa [meanOfAux, valsAux] using ih (k + 1)
    | mean h =>
      have := ih (k + 1)
      simp only [interpIdx] at this
      simp only [meanOfAux, interpIdx, List.map_cons, List.mapM_cons, valsAux, this]
      cases interpolatedVal p (k * 24 + h + 1) <;> cases valsAux p (k + 1) r <;> rfl

/-- the one arrangement the source's sort does not keep in day order: a day whose 23:00 is repeated, directly
followed by a day whose 00:00 is skipped (both operations land on the same flat index) -/
def noClash : List DayOp → Bool
  | .mean h :: .interp h' :: r => !(h == 23 && h' == 0) && noClash (.interp h' :: r)
  | _ :: r => noClash r
  | [] => true

omit [Arith α] in
theorem gops_lb_strict : ∀ (r : List DayOp) (k : Nat), (∀ op ∈ r, okOp op) → r.head? ≠ some (.interp 0) →
    ∀ o ∈ gopsAux k r, k * 24 < o.2 := by
  intro r k hok hh o ho
  cases r with
  | nil => simp [gopsAux] at ho
  | cons op r' =>
    cases op with
    | none => have := gops_lb r' (k + 1) o (by simpa [gopsAux] using ho); omega
    | interp h =>
      simp only [gopsAux, List.mem_cons] at ho
      rcases ho with rfl | ho
      · have : h ≠ 0 := by intro h0; subst h0; simp at hh
        simp; omega
      · have := gops_lb r' (k + 1) o ho; omega
    | mean h =>
      simp only [gopsAux, List.mem_cons] at ho
      rcases ho with rfl | ho
      · simp; omega
      · have := gops_lb r' (k + 1) o ho; omega

omit [Arith α] in
theorem gops_sorted : ∀ (d : List DayOp) (k : Nat), (∀ op ∈ d, okOp op) → noClash d = true →
    (gopsAux k d).Pairwise (fun a b => a.2 < b.2) := by
  intro d
  induction d with
  | nil => intro k _ _; simp [gopsAux]
  | cons op r ih =>
    intro k hok hnc
    have hokr : ∀ op ∈ r, okOp op := fun o ho => hok o (List.mem_cons_of_mem _ ho)
    cases op with
    | none => exact ih (k + 1) hokr (by simpa [noClash] using hnc)
    | interp h =>
      have hh : h < 24 := hok (.interp h) (by simp)
      have hnc' : noClash r = true := by simpa [noClash] using hnc
      simp only [gopsAux]
      refine List.pairwise_cons.mpr ⟨?_, ih (k + 1) hokr hnc'⟩
      intro o ho
      have := gops_lb r (k + 1) o ho
      simp; omega
    | mean h =>
      have hh : h < 24 := hok (.mean h) (by simp)
      have hnc' : noClash r = true := by
        cases r with
        | nil => simp [noClash]
        | cons op' r' => cases op' <;> simp_all [noClash]
      simp only [gopsAux]
      refine List.pairwise_cons.mpr ⟨?_, ih (k + 1) hokr hnc'⟩
      intro o ho
      by_cases h23 : h = 23
      · subst h23
        have hhead : r.head? ≠ some (.interp 0) := by
          cases r with
          | nil => simp
          | cons op' r' =>
            cases op' with
            | none => simp
            | mean _ => simp
            | interp h' =>
              intro heq
              simp at heq
              subst heq
              simp [noClash] at hnc
        have := gops_lb_strict r (k + 1) hokr hhead o ho
        simp; omega
      · have := gops_lb r (k + 1) o ho
        simp; omega


/-- **`_transform_dst` as written is the per-day model.**  For every frame of whole days (`24` predictions per
day), with hours in range and every value the source indexes present (`valsAux … = some _`: a repeated 23:00 on
the last day would make the source raise `IndexError`), and without the one arrangement in which two operations
land on the same flat index (`noClash`), the literal transcription of the source's algorithm — operations sorted
by flat index, fence-post slices, iterator of interpolated values — returns exactly what the per-day model
returns. -/
theorem transformDstSrc_eq (p : List α) (d : List DayOp) (vals : List α)
    (hok : ∀ op ∈ d, okOp op) (hlen : p.length = 24 * d.length) (hnc : noClash d = true)
    (hv : valsAux p 0 d = some vals) :
    transformDstSrc p (interpOf d) (meanOf d) = some (transformDst d p) := by
  unfold transformDstSrc interpOf meanOf
  rw [mapM_vals p d 0, hv]
  simp only
  rw [sortOps_unique _ _ (perm_gops d 0) (gops_sorted d 0 hok hnc)]
  have hrun := run_eq_go p (gopsAux 0 d) (Kind.startEnd, 0) vals
  simp only [run, optOps, startOf] at hrun
  have hgo := go_days p d 0 vals hok (by simpa using hlen) hv
  simp only [Nat.zero_mul, List.drop_zero] at hgo
  simpa [hgo] using hrun

end EEM.Bridge.DstRefine
