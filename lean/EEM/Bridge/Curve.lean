/-
  EEM.Bridge.Curve — refinement: the GENERATED kernel `Gen.full_model_elem` (py2lean from
  full_model.py), interpreted over ℝ, equals the closed-form `Spec.curve` for every
  kernel-admissible 7-vector and every temperature.
-/
import EEM.Real
import EEM.Gen.DailyCurve
import EEM.Lemmas.Curve
import EEM.Model.DailyCurve

namespace EEM.Bridge
open EEM EEM.Spec EEM.RealBridge Real EEM.Model

/-- the clip thresholds of the exponent, as the generated code spells them -/
noncomputable def LNMIN : ℝ := (Gen.LN_MIN_POS_SYSTEM_VALUE : ℝ)
noncomputable def LNMAX : ℝ := (Gen.LN_MAX_POS_SYSTEM_VALUE : ℝ)

theorem LNMIN_nonpos : LNMIN ≤ 0 := by
  unfold LNMIN Gen.LN_MIN_POS_SYSTEM_VALUE
  simp only [arith_ofSci, neg_eq]
  norm_num

theorem LNMAX_nonneg : 0 ≤ LNMAX := by
  unfold LNMAX Gen.LN_MAX_POS_SYSTEM_VALUE
  simp only [arith_ofSci]
  norm_num

noncomputable abbrev curveR := Spec.curve LNMIN LNMAX
noncomputable abbrev heatR := Spec.heat LNMIN LNMAX
noncomputable abbrev coolR := Spec.cool LNMIN LNMAX

/-- **Refinement of the generated kernel.** For every kernel-admissible 7-vector and every
temperature the translated `full_model` loop body returns the closed-form curve. -/
theorem full_model_refines (x : X) (T_min T_max T : ℝ) (h : KernelAdm x T_max) :
    Gen.full_model_elem x.hb x.βh x.kh x.cb x.βc x.kc x.c [T_min, T_max] T
      = some (curveR x T) := by
  obtain ⟨ord, βh0, βc0, kh0, kc0, nw⟩ := h
  have hL := LNMIN_nonpos
  have hU := LNMAX_nonneg
  unfold Gen.full_model_elem
  simp only [eqb_iff, ltb_iff, gtb_iff, geb_iff, leb_iff, Bool.and_eq_true, Bool.or_eq_true,
    ofNat_eq, Nat.cast_zero, Nat.cast_one, not_lt.mpr ord, if_false, mul_eq, sub_eq, add_eq, neg_eq,
    arith_abs, carrier_exp, clip_eq, one_mul]
  have nw' : ¬ (x.hb = x.cb ∧ T_max ≤ x.cb) := fun ⟨h1, h2⟩ => absurd (nw h1) (not_lt.mpr h2)
  show _ = some (x.c + heatR x T + coolR x T)
  change _ = some (x.c + Spec.heat LNMIN LNMAX x T + Spec.cool LNMIN LNMAX x T)
  have clip0 : min (max (0:ℝ) (Gen.LN_MIN_POS_SYSTEM_VALUE : ℝ)) (Gen.LN_MAX_POS_SYSTEM_VALUE : ℝ) = 0 :=
    clipR_zero hL hU
  by_cases hT : T < x.hb
  · -- heating side
    have hc : Spec.cool LNMIN LNMAX x T = 0 := cool_of_le hL hU x kc0 (by linarith)
    rw [hc]
    by_cases hb0 : x.βh = 0
    · have hh : Spec.heat LNMIN LNMAX x T = 0 := by unfold Spec.heat; rw [hb0]; simp
      rw [hh]
      by_cases hc0 : x.βc = 0
      · simp [hb0, hc0]
      · simp [hb0, hc0, hT]
    · have hbp : 0 < x.βh := lt_of_le_of_ne βh0 (Ne.symm hb0)
      rcases kh0.lt_or_eq with hk | hk
      · rw [heat_of_le_smooth hL hU x hk hT.le]
        have hne : x.kh ≠ 0 := ne_of_gt hk
        have habs : |-x.βh * x.kh| = x.βh * x.kh := by
          rw [neg_mul, abs_neg, abs_of_nonneg (mul_nonneg βh0 kh0)]
        have hclip : min (max (1 / x.kh * (T - x.hb)) (Gen.LN_MIN_POS_SYSTEM_VALUE : ℝ)) (Gen.LN_MAX_POS_SYSTEM_VALUE : ℝ)
            = max ((T - x.hb) / x.kh) LNMIN := by
          have e : 1 / x.kh * (T - x.hb) = (T - x.hb) / x.kh := by field_simp
          rw [e]
          exact clipR_of_nonpos hL hU (div_nonpos_of_nonpos_of_nonneg (by linarith) hk.le)
        simp only [hb0, false_and, if_false, hT, true_or, if_true, neg_eq_zero, hne, habs, hclip]
        congr 1
        have : x.kh * ((T - x.hb) / x.kh) = T - x.hb := by field_simp
        linear_combination x.βh * this
      · rw [heat_of_le_unsmooth hL hU x hk.symm hT.le]
        simp only [hb0, false_and, if_false, hT, true_or, if_true, neg_eq_zero, ← hk]
        congr 1; ring
  by_cases hT2 : x.cb < T
  · -- cooling side
    have hT1 : x.hb ≤ T := not_lt.mp hT
    have hh : Spec.heat LNMIN LNMAX x T = 0 := heat_of_ge hL hU x kh0 hT1
    rw [hh]
    by_cases hc0 : x.βc = 0
    · have hcz : Spec.cool LNMIN LNMAX x T = 0 := by unfold Spec.cool; rw [hc0]; simp
      rw [hcz]
      by_cases hb0 : x.βh = 0
      · simp [hb0, hc0]
      · simp [hb0, hc0, hT, nw', hT2]
    · rcases kc0.lt_or_eq with hk | hk
      · rw [cool_of_ge_smooth hL hU x hk hT2.le]
        have hne : x.kc ≠ 0 := ne_of_gt hk
        have habs : |x.βc * -x.kc| = x.βc * x.kc := by
          rw [mul_neg, abs_neg, abs_of_nonneg (mul_nonneg βc0 kc0)]
        have hclip : min (max (1 / -x.kc * (T - x.cb)) (Gen.LN_MIN_POS_SYSTEM_VALUE : ℝ)) (Gen.LN_MAX_POS_SYSTEM_VALUE : ℝ)
            = max ((x.cb - T) / x.kc) LNMIN := by
          have e : 1 / -x.kc * (T - x.cb) = (x.cb - T) / x.kc := by field_simp; ring
          rw [e]
          exact clipR_of_nonpos hL hU (div_nonpos_of_nonpos_of_nonneg (by linarith) hk.le)
        simp only [hc0, and_false, if_false, hT, false_or, nw', hT2, true_or, if_true, neg_eq_zero, hne, habs, hclip]
        congr 1
        have : x.kc * ((x.cb - T) / x.kc) = x.cb - T := by field_simp
        linear_combination x.βc * this
      · rw [cool_of_ge_unsmooth hL hU x hk.symm hT2.le]
        simp only [hc0, and_false, if_false, hT, false_or, nw', hT2, true_or, if_true, neg_eq_zero, ← hk]
        congr 1; ring
  · -- between (or at) the balance points: the temperature-independent load
    have hT1 : x.hb ≤ T := not_lt.mp hT
    have hT3 : T ≤ x.cb := not_lt.mp hT2
    have hh : Spec.heat LNMIN LNMAX x T = 0 := heat_of_ge hL hU x kh0 hT1
    have hc : Spec.cool LNMIN LNMAX x T = 0 := cool_of_le hL hU x kc0 hT3
    rw [hh, hc]
    simp only [hT, false_or, nw', if_false, hT2, add_zero]
    by_cases hbc : x.βh = 0 ∧ x.βc = 0
    · simp [hbc]
    · simp only [hbc, if_false]
      by_cases hw : x.hb = x.cb ∧ x.hb ≤ T_min
      · have hTc : T = x.cb := le_antisymm hT3 (hw.1 ▸ hT1)
        simp only [hw, and_self, if_true, hTc, sub_self, mul_zero, zero_add, clip0, Real.exp_zero]
        split_ifs <;> simp
      · simp [hw]

theorem fix_spec (hb βh kh cb βc kc c Tmin Tmax : ℝ) (h1 : 0 ≤ βh) (h2 : 0 ≤ βc) (h3 : 0 ≤ kh)
    (h4 : 0 ≤ kc) :
    ∃ hb' βh' kh' cb' βc' kc',
      Gen.fix_full_model_x [hb, βh, kh, cb, βc, kc, c] Tmin Tmax = some [hb', βh', kh', cb', βc', kc', c]
      ∧ hb' ≤ cb' ∧ 0 ≤ βh' ∧ 0 ≤ βc' ∧ 0 ≤ kh' ∧ 0 ≤ kc' ∧ hb' = min hb cb ∧ cb' = max hb cb := by
  unfold Gen.fix_full_model_x
  simp only [eqb_iff, ltb_iff, geb_iff, leb_iff, neb_iff, ofNat_eq, Nat.cast_zero]
  by_cases hs : cb < hb
  · simp only [hs, if_true, min_eq_right hs.le, max_eq_left hs.le]
    split_ifs <;> exact ⟨_, _, _, _, _, _, rfl, hs.le, by simp [*], by simp [*], by simp [*], by simp [*], rfl, rfl⟩
  · have hs' := not_lt.mp hs
    simp only [hs, if_false, min_eq_left hs', max_eq_right hs']
    split_ifs <;> exact ⟨_, _, _, _, _, _, rfl, hs', by simp [*], by simp [*], by simp [*], by simp [*], rfl, rfl⟩
theorem smooth_spec (hb p cb q : ℝ) (ord : hb ≤ cb) (hp : 0 ≤ p) (hq : 0 ≤ q) :
    ∃ hb' kh cb' kc, Gen.get_smooth_coeffs hb p cb q = [hb', kh, cb', kc]
      ∧ hb' ≤ cb' ∧ 0 ≤ kh ∧ 0 ≤ kc ∧ hb' = hb + kh ∧ cb' = cb - kc := by
  unfold Gen.get_smooth_coeffs
  simp only [ltb_iff, gtb_iff, leb_iff, ofNat_eq, Nat.cast_zero, Nat.cast_one, Bool.and_eq_true, arith_ofSci,
    add_eq, sub_eq, mul_eq, div_eq, sub_zero, add_zero, div_one, mul_one]
  have hd : 0 ≤ cb - hb := by linarith
  -- the two real-arithmetic facts: the shifted balance points never cross
  have key1 : 0 < p + q → hb + p / (p + q) * (cb - hb) ≤ cb - q / (p + q) * (cb - hb) := by
    intro hs
    have : p / (p + q) * (cb - hb) + q / (p + q) * (cb - hb) = cb - hb := by field_simp
    linarith
  have key2 : p + q ≤ 1 → hb + p * (cb - hb) ≤ cb - q * (cb - hb) := by
    intro hs; nlinarith
  split_ifs with h1 h2 h3 h3
  · exact ⟨_, _, _, _, rfl, ord, le_refl _, le_refl _, by ring, by ring⟩
  · exact absurd h3.2 (not_lt.mpr (key1 (by linarith)))
  · have hs : 0 < p + q := by linarith
    exact ⟨_, _, _, _, rfl, key1 hs, mul_nonneg (div_nonneg hp hs.le) hd, mul_nonneg (div_nonneg hq hs.le) hd, rfl, rfl⟩
  · exact absurd h3.2 (not_lt.mpr (key2 (not_lt.mp h2)))
  · exact ⟨_, _, _, _, rfl, key2 (not_lt.mp h2), mul_nonneg hp hd, mul_nonneg hq hd, rfl, rfl⟩

/-- Sign conventions of a stored record (all the optimiser's boxes imply them): the fields
the shape needs are present, stored slope magnitudes of the two-slope shapes are ≥ 0 and
smoothing parameters are ≥ 0.  Nothing is assumed about balance points or temperature limits. -/
def BoxOK (s : Submodel ℝ) : Prop :=
  match s.coeffs.model_type, s.coeffs.toNpArray with
  | .hdd_tidd_cdd_smooth, some [_, βh, kh, _, βc, kc, _] => 0 ≤ βh ∧ 0 ≤ βc ∧ 0 ≤ kh ∧ 0 ≤ kc
  | .hdd_tidd_cdd, some [_, βh, _, βc, _] => 0 ≤ βh ∧ 0 ≤ βc
  | .hdd_tidd_smooth, some [_, _, k, _] => 0 ≤ k
  | .tidd_cdd_smooth, some [_, _, k, _] => 0 ≤ k
  | .hdd_tidd, some [_, _, _] => True
  | .tidd_cdd, some [_, _, _] => True
  | .tidd, some [_] => True
  | _, _ => False

/-- what `fullX` guarantees about the effective 7-vector -/
def EffOK (x : X) (c : ℝ) : Prop :=
  x.hb ≤ x.cb ∧ 0 ≤ x.βh ∧ 0 ≤ x.βc ∧ 0 ≤ x.kh ∧ 0 ≤ x.kc ∧ x.c = c

def X.toList (x : X) : List ℝ := [x.hb, x.βh, x.kh, x.cb, x.βc, x.kc, x.c]

/-- a 7-vector with ordered balance points and non-negative magnitudes, intercept `c` -/
def Eff7 (l : List ℝ) (c : ℝ) : Prop :=
  ∃ hb βh kh cb βc kc, l = [hb, βh, kh, cb, βc, kc, c] ∧ hb ≤ cb ∧ 0 ≤ βh ∧ 0 ≤ βc ∧ 0 ≤ kh ∧ 0 ≤ kc

theorem fix_eff (hb βh kh cb βc kc c Tmin Tmax : ℝ) (h1 : 0 ≤ βh) (h2 : 0 ≤ βc) (h3 : 0 ≤ kh)
    (h4 : 0 ≤ kc) :
    ∃ l, Gen.fix_full_model_x [hb, βh, kh, cb, βc, kc, c] Tmin Tmax = some l ∧ Eff7 l c := by
  obtain ⟨hb', βh', kh', cb', βc', kc', e, r⟩ := fix_spec hb βh kh cb βc kc c Tmin Tmax h1 h2 h3 h4
  exact ⟨_, e, hb', βh', kh', cb', βc', kc', rfl, r.1, r.2.1, r.2.2.1, r.2.2.2.1, r.2.2.2.2.1⟩

/-- `get_full_model_x` on the vector `to_np_array` produces, per shape -/
theorem gfx_eff (s : Submodel ℝ) (hB : BoxOK s) :
    ∃ x0 l, s.coeffs.toNpArray = some x0 ∧
      Gen.get_full_model_x s.coeffs.model_type.key x0 s.T_min s.T_max s.T_min_seg s.T_max_seg = some l
      ∧ Eff7 l s.coeffs.intercept := by
  obtain ⟨⟨mt, c, a, b, k1, d, e, k2⟩, Tmin, Tmax, Tmins, Tmaxs, func⟩ := s
  cases mt
  case hdd_tidd_cdd_smooth =>
    rcases a with _ | a <;> rcases b with _ | b <;> rcases k1 with _ | k1 <;> rcases d with _ | d <;>
      rcases e with _ | e <;> rcases k2 with _ | k2 <;> simp [BoxOK, Coeffs.toNpArray] at hB
    obtain ⟨l, hl, he⟩ := fix_eff a b k1 d e k2 c Tmin Tmax hB.1 hB.2.1 hB.2.2.1 hB.2.2.2
    exact ⟨_, l, rfl, by simp [ModelType.key, Gen.get_full_model_x, hl], he⟩
  case hdd_tidd_cdd =>
    rcases a with _ | a <;> rcases b with _ | b <;> rcases d with _ | d <;>
      rcases e with _ | e <;> simp [BoxOK, Coeffs.toNpArray] at hB
    obtain ⟨l, hl, he⟩ := fix_eff a b 0 d e 0 c Tmin Tmax hB.1 hB.2 le_rfl le_rfl
    refine ⟨_, l, rfl, ?_, he⟩
    simp [ModelType.key, Gen.get_full_model_x, ← hl]
  case hdd_tidd_smooth =>
    rcases a with _ | a <;> rcases b with _ | b <;> rcases k1 with _ | k1 <;>
      simp [BoxOK, Coeffs.toNpArray] at hB
    by_cases hb : b < 0
    · obtain ⟨l, hl, he⟩ := fix_eff a (-b) k1 a 0 0 c Tmin Tmax (by linarith) le_rfl hB le_rfl
      refine ⟨_, l, rfl, ?_, he⟩
      simp [ModelType.key, Gen.get_full_model_x, ← hl, hb]
    · obtain ⟨l, hl, he⟩ := fix_eff a 0 0 a b k1 c Tmin Tmax le_rfl (not_lt.mp hb) le_rfl hB
      refine ⟨_, l, rfl, ?_, he⟩
      simp [ModelType.key, Gen.get_full_model_x, ← hl, hb]
  case tidd_cdd_smooth =>
    rcases d with _ | d <;> rcases e with _ | e <;> rcases k2 with _ | k2 <;>
      simp [BoxOK, Coeffs.toNpArray] at hB
    by_cases hb : e < 0
    · obtain ⟨l, hl, he⟩ := fix_eff d (-e) k2 d 0 0 c Tmin Tmax (by linarith) le_rfl hB le_rfl
      refine ⟨_, l, rfl, ?_, he⟩
      simp [ModelType.key, Gen.get_full_model_x, ← hl, hb]
    · obtain ⟨l, hl, he⟩ := fix_eff d 0 0 d e k2 c Tmin Tmax le_rfl (not_lt.mp hb) le_rfl hB
      refine ⟨_, l, rfl, ?_, he⟩
      simp [ModelType.key, Gen.get_full_model_x, ← hl, hb]
  case hdd_tidd =>
    rcases a with _ | a <;> rcases b with _ | b <;> simp [BoxOK, Coeffs.toNpArray] at hB
    by_cases hb : b < 0
    · by_cases c1 : a < Tmins
      · obtain ⟨l, hl, he⟩ := fix_eff Tmins (-b) 0 Tmins 0 0 c Tmin Tmax (by linarith) le_rfl le_rfl le_rfl
        refine ⟨_, l, rfl, ?_, he⟩
        simp [ModelType.key, Gen.get_full_model_x, ← hl, hb, c1]
      · by_cases c2 : Tmaxs < a
        · obtain ⟨l, hl, he⟩ := fix_eff Tmaxs (-b) 0 Tmaxs 0 0 c Tmin Tmax (by linarith) le_rfl le_rfl le_rfl
          refine ⟨_, l, rfl, ?_, he⟩
          simp [ModelType.key, Gen.get_full_model_x, ← hl, hb, c1, c2]
        · obtain ⟨l, hl, he⟩ := fix_eff a (-b) 0 a 0 0 c Tmin Tmax (by linarith) le_rfl le_rfl le_rfl
          refine ⟨_, l, rfl, ?_, he⟩
          simp [ModelType.key, Gen.get_full_model_x, ← hl, hb, c1, c2]
    · by_cases c1 : a < Tmins
      · obtain ⟨l, hl, he⟩ := fix_eff Tmins 0 0 Tmins b 0 c Tmin Tmax le_rfl (not_lt.mp hb) le_rfl le_rfl
        refine ⟨_, l, rfl, ?_, he⟩
        simp [ModelType.key, Gen.get_full_model_x, ← hl, hb, c1]
      · by_cases c2 : Tmaxs < a
        · obtain ⟨l, hl, he⟩ := fix_eff Tmaxs 0 0 Tmaxs b 0 c Tmin Tmax le_rfl (not_lt.mp hb) le_rfl le_rfl
          refine ⟨_, l, rfl, ?_, he⟩
          simp [ModelType.key, Gen.get_full_model_x, ← hl, hb, c1, c2]
        · obtain ⟨l, hl, he⟩ := fix_eff a 0 0 a b 0 c Tmin Tmax le_rfl (not_lt.mp hb) le_rfl le_rfl
          refine ⟨_, l, rfl, ?_, he⟩
          simp [ModelType.key, Gen.get_full_model_x, ← hl, hb, c1, c2]
  case tidd_cdd =>
    rcases d with _ | d <;> rcases e with _ | e <;> simp [BoxOK, Coeffs.toNpArray] at hB
    by_cases hb : e < 0
    · by_cases c1 : d < Tmins
      · obtain ⟨l, hl, he⟩ := fix_eff Tmins (-e) 0 Tmins 0 0 c Tmin Tmax (by linarith) le_rfl le_rfl le_rfl
        refine ⟨_, l, rfl, ?_, he⟩
        simp [ModelType.key, Gen.get_full_model_x, ← hl, hb, c1]
      · by_cases c2 : Tmaxs < d
        · obtain ⟨l, hl, he⟩ := fix_eff Tmaxs (-e) 0 Tmaxs 0 0 c Tmin Tmax (by linarith) le_rfl le_rfl le_rfl
          refine ⟨_, l, rfl, ?_, he⟩
          simp [ModelType.key, Gen.get_full_model_x, ← hl, hb, c1, c2]
        · obtain ⟨l, hl, he⟩ := fix_eff d (-e) 0 d 0 0 c Tmin Tmax (by linarith) le_rfl le_rfl le_rfl
          refine ⟨_, l, rfl, ?_, he⟩
          simp [ModelType.key, Gen.get_full_model_x, ← hl, hb, c1, c2]
    · by_cases c1 : d < Tmins
      · obtain ⟨l, hl, he⟩ := fix_eff Tmins 0 0 Tmins e 0 c Tmin Tmax le_rfl (not_lt.mp hb) le_rfl le_rfl
        refine ⟨_, l, rfl, ?_, he⟩
        simp [ModelType.key, Gen.get_full_model_x, ← hl, hb, c1]
      · by_cases c2 : Tmaxs < d
        · obtain ⟨l, hl, he⟩ := fix_eff Tmaxs 0 0 Tmaxs e 0 c Tmin Tmax le_rfl (not_lt.mp hb) le_rfl le_rfl
          refine ⟨_, l, rfl, ?_, he⟩
          simp [ModelType.key, Gen.get_full_model_x, ← hl, hb, c1, c2]
        · obtain ⟨l, hl, he⟩ := fix_eff d 0 0 d e 0 c Tmin Tmax le_rfl (not_lt.mp hb) le_rfl le_rfl
          refine ⟨_, l, rfl, ?_, he⟩
          simp [ModelType.key, Gen.get_full_model_x, ← hl, hb, c1, c2]
  case tidd =>
    obtain ⟨l, hl, he⟩ := fix_eff 0 0 0 0 0 0 c Tmin Tmax le_rfl le_rfl le_rfl le_rfl
    refine ⟨_, l, rfl, ?_, he⟩
    simp [ModelType.key, Gen.get_full_model_x, ← hl]

/-- **The effective 7-vector.** For every stored record that respects the sign conventions,
`fullX` (what `_predict_submodel` hands to the kernel) exists, has ordered balance points,
non-negative slope magnitudes and smoothing, and keeps the stored intercept. -/
theorem fullX_eff (s : Submodel ℝ) (hB : BoxOK s) :
    ∃ l, Model.fullX s = some l ∧ Eff7 l s.coeffs.intercept := by
  obtain ⟨x0, l, h0, hl, hb, βh, kh, cb, βc, kc, rfl, ord, b1, b2, k1, k2⟩ := gfx_eff s hB
  unfold Model.fullX
  simp only [h0, hl, Option.bind_eq_bind, Option.bind_some]
  by_cases hk : s.coeffs.model_type.key = Gen.ModelKey.hdd_tidd_cdd_smooth
  · obtain ⟨hb', kh', cb', kc', e, ord', k1', k2', _, _⟩ := smooth_spec hb kh cb kc ord k1 k2
    simp only [hk, beq_self_eq_true, if_true, e]
    exact ⟨_, rfl, hb', βh, kh', cb', βc, kc', rfl, ord', b1, b2, k1', k2'⟩
  · simp only [beq_iff_eq, hk, if_false]
    exact ⟨_, rfl, hb, βh, kh, cb, βc, kc, rfl, ord, b1, b2, k1, k2⟩


/-- heating / cooling load of the closed form: the whole temperature-dependent part, assigned
to the side of the balance point the day is on -/
noncomputable def hddLoad (x : X) (T : ℝ) : ℝ := if T ≤ x.hb then curveR x T - x.c else 0
noncomputable def cddLoad (x : X) (T : ℝ) : ℝ := if x.cb ≤ T then curveR x T - x.c else 0

/-- `x` is the effective 7-vector of the stored record `s` -/
def Effective (s : Submodel ℝ) (x : X) : Prop :=
  Model.fullX s = some [x.hb, x.βh, x.kh, x.cb, x.βc, x.kc, x.c]
    ∧ x.hb ≤ x.cb ∧ 0 ≤ x.βh ∧ 0 ≤ x.βc ∧ 0 ≤ x.kh ∧ 0 ≤ x.kc ∧ x.c = s.coeffs.intercept

theorem effective_exists (s : Submodel ℝ) (hB : BoxOK s) : ∃ x, Effective s x := by
  obtain ⟨l, hl, hb, βh, kh, cb, βc, kc, rfl, ord, b1, b2, k1, k2⟩ := fullX_eff s hB
  exact ⟨⟨hb, βh, kh, cb, βc, kc, _⟩, hl, ord, b1, b2, k1, k2, rfl⟩

/-- the excluded boundary: effective balance points coinciding at or beyond `T_max` -/
def NotWhole (x : X) (T_max : ℝ) : Prop := x.hb = x.cb → x.cb < T_max

theorem Effective.kernelAdm {s : Submodel ℝ} {x : X} (h : Effective s x) (nw : NotWhole x s.T_max) :
    KernelAdm x s.T_max :=
  ⟨h.2.1, h.2.2.1, h.2.2.2.1, h.2.2.2.2.1, h.2.2.2.2.2.1, nw⟩

/-- **Refinement of the whole read path.** `_predict_submodel` (hand model composed of the
generated kernels) returns the closed-form curve and its load split. -/
theorem predict_refines {s : Submodel ℝ} {x : X} (h : Effective s x) (nw : NotWhole x s.T_max)
    (T : ℝ) :
    Model.predictSubmodel s T
      = some { model := curveR x T, hdd_load := hddLoad x T, cdd_load := cddLoad x T } := by
  have hk := h.kernelAdm nw
  unfold Model.predictSubmodel
  simp only [h.1, Option.bind_eq_bind, Option.bind_some, full_model_refines x s.T_min s.T_max T hk]
  simp only [hddLoad, cddLoad, leb_iff, geb_iff, sub_eq, ofNat_eq, Nat.cast_zero]

end EEM.Bridge
